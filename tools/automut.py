#!/usr/bin/env python3
"""automut.py: gap finder for the static checks (not a registered check).

  automut.py run <mutants.jsonl> <results.jsonl> [-j N] [--filter REGEX] [--kinds K1,K2] [--limit N]

For every type-checking first-order mutant produced by bin/automut: write it into a scratch copy of /repo
(one copy per worker under /tmp/automut/, removed at the end), run every quick check on the copy, and - only when
no check reports it - run the test suites of the mutated package and of the packages that import it.  A mutant that
no check reports and the existing tests let through is a candidate gap (or an equivalent mutant): those are the
lines to triage by hand.

  automut.py report <results.jsonl>       summary + the list of unreported survivors
"""
import sys, os, json, re, subprocess, shutil, argparse, threading, queue, time

REPO = '/repo'
ENV_TEST = dict(os.environ, GOFLAGS='-mod=mod', GOPROXY='off')
for k in ('GOSUMDB', 'GOTOOLCHAIN', 'GOWORK'):
    ENV_TEST.pop(k, None)

# packages whose tests exercise a given package (mutated package first)
RDEPS = {
    'cache/disk': ['./cache/disk/', './server/', './cache/httpproxy/', './cache/grpcproxy/'],
    'cache/disk/casblob': ['./cache/disk/...', './server/', './cache/grpcproxy/', './cache/httpproxy/'],
    'cache/disk/zstdimpl': ['./cache/disk/...', './server/'],
    'cache': ['./cache/...', './server/'],
    'server': ['./server/', './cache/grpcproxy/'],
    'config': ['./config/'],
    'utils/validate': ['./utils/validate/', './server/', './cache/disk/'],
    'utils/sha256verifier': ['./utils/sha256verifier/', './cache/disk/', './server/'],
    'utils/tempfile': ['./utils/tempfile/', './cache/disk/', './server/'],
    'cache/httpproxy': ['./cache/httpproxy/', './cache/disk/'],
    'cache/grpcproxy': ['./cache/grpcproxy/'],
    'cache/s3proxy': ['./cache/s3proxy/'],
    'utils/flags': ['./utils/flags/', './config/'],
}


def worker(wid, q, outf, lock, vcheck):
    root = f'/tmp/automut/w{wid}'
    shutil.rmtree(root, ignore_errors=True)
    os.makedirs(root + '/verif')
    subprocess.check_call(['rsync', '-a', '--exclude', '.git', REPO + '/', root + '/repo/'])
    for f in ('known_findings.jsonl', 'properties.jsonl'):
        shutil.copy('/verif/' + f, root + '/verif/')
    while True:
        m = q.get()
        if m is None:
            break
        path = f"{root}/repo/{m['file']}"
        orig = open(REPO + '/' + m['file'], 'rb').read()
        mut = orig[:m['start']] + m['new'].encode() + orig[m['end']:]
        res = dict(id=m['id'], file=m['file'], func=m['func'], line=m['line'], kind=m['kind'], old=m['old'], new=m['new'])
        try:
            open(path, 'wb').write(mut)
            t0 = time.time()
            p = subprocess.run([vcheck, '-p', 'all', '-tier', 'quick', '-repo', root + '/repo', '-verif', root + '/verif'],
                               env=dict(os.environ, VCHECK_NO_CONTROLS='1'), capture_output=True, text=True, timeout=900)
            reports, pend = [], []
            for l in p.stdout.splitlines() + p.stderr.splitlines():
                mm = re.match(r'^  ((?:R\w+|framework|anchor|CTRL)) (\S+) \[', l)
                if mm and not mm.group(2).isdigit():
                    pend.append(mm.group(1) + ' ' + mm.group(2))
                m2 = re.match(r'^(C\d+) tier=', l)
                if m2:
                    reports += [m2.group(1) + ': ' + x for x in pend]
                    pend = []
            res['vcheck_s'] = round(time.time() - t0, 1)
            res['vcheck_exit'] = p.returncode
            res['reports'] = reports
            if p.returncode not in (0, 1):
                res['vcheck_tail'] = (p.stdout + p.stderr)[-600:]
            if p.returncode == 0 and not reports:
                pk = os.path.dirname(m['file'])
                pkgs = RDEPS.get(pk, ['./...'])
                t0 = time.time()
                try:
                    t = subprocess.run(['go', 'test', '-vet=off', '-count=1', '-timeout', '240s'] + pkgs, cwd=root + '/repo', env=ENV_TEST,
                                       capture_output=True, text=True, timeout=600)
                    res['tests'] = 'pass' if t.returncode == 0 else 'fail'
                    if t.returncode != 0:
                        res['test_fail'] = re.findall(r'^--- FAIL: (\S+)', t.stdout, re.M)[:5] or [(t.stdout + t.stderr)[-300:]]
                except subprocess.TimeoutExpired:
                    res['tests'] = 'timeout'
                res['test_s'] = round(time.time() - t0, 1)
        except Exception as e:  # noqa
            res['error'] = repr(e)
        finally:
            open(path, 'wb').write(orig)
        with lock:
            outf.write(json.dumps(res) + '\n')
            outf.flush()
    shutil.rmtree(root, ignore_errors=True)


def run(a):
    muts = [json.loads(l) for l in open(a.mutants)]
    done = set()
    if os.path.exists(a.results):
        done = {json.loads(l)['id'] for l in open(a.results)}
    if a.filter:
        muts = [m for m in muts if re.search(a.filter, m['file'] + ':' + m['func'])]
    if a.kinds:
        ks = a.kinds.split(',')
        muts = [m for m in muts if any(m['kind'].startswith(k) for k in ks)]
    muts = [m for m in muts if m['id'] not in done]
    if a.limit:
        muts = muts[:a.limit]
    print(len(muts), 'mutants to run', flush=True)
    vcheck = '/tmp/automut/vcheck'
    os.makedirs('/tmp/automut', exist_ok=True)
    shutil.copy('/verif/bin/vcheck', vcheck)
    q = queue.Queue()
    for m in muts:
        q.put(m)
    lock = threading.Lock()
    outf = open(a.results, 'a')
    ths = []
    for i in range(a.j):
        q.put(None)
        t = threading.Thread(target=worker, args=(i, q, outf, lock, vcheck))
        t.start()
        ths.append(t)
    for t in ths:
        t.join()
    shutil.rmtree('/tmp/automut', ignore_errors=True)


def report(a):
    rs = [json.loads(l) for l in open(a.results)]
    caught = [r for r in rs if r.get('reports')]
    unc = [r for r in rs if not r.get('reports') and r.get('vcheck_exit') == 0]
    surv = [r for r in unc if r.get('tests') == 'pass']
    print(f'{len(rs)} mutants: {len(caught)} reported by a check, {len(unc)} not reported, of which {len(surv)} pass the existing tests')
    byf = {}
    for r in rs:
        k = r['file']
        d = byf.setdefault(k, [0, 0, 0, 0])
        d[0] += 1
        d[1] += bool(r.get('reports'))
        d[2] += (not r.get('reports')) and r.get('tests') == 'fail'
        d[3] += (not r.get('reports')) and r.get('tests') == 'pass'
    print(f"{'file':45s} total reported test-killed SURVIVE")
    for k, d in sorted(byf.items()):
        print(f'{k:45s} {d[0]:5d} {d[1]:8d} {d[2]:11d} {d[3]:7d}')
    if a.list:
        for r in sorted(surv, key=lambda r: (r['file'], r['line'])):
            print(f"{r['file']}:{r['line']} {r['func']} {r['kind']}: `{r['old'][:70]}` -> `{r['new'][:70]}`")
    bad = [r for r in rs if r.get('error') or r.get('vcheck_exit') not in (0, 1)]
    if bad:
        print(len(bad), 'errors, e.g.', bad[0])


if __name__ == '__main__':
    ap = argparse.ArgumentParser()
    sp = ap.add_subparsers(dest='cmd')
    r = sp.add_parser('run')
    r.add_argument('mutants')
    r.add_argument('results')
    r.add_argument('-j', type=int, default=6)
    r.add_argument('--filter')
    r.add_argument('--kinds')
    r.add_argument('--limit', type=int)
    p = sp.add_parser('report')
    p.add_argument('results')
    p.add_argument('--list', action='store_true')
    a = ap.parse_args()
    {'run': run, 'report': report}[a.cmd](a)
