# Mutants of cache/disk/casblob/casblob.go
M = []


def m(name, expect, path, old, new):
    M.append((name, expect, path, old, new))


CB = 'cache/disk/casblob/casblob.go'

# --- WriteAndClose: hash covers what is stored, compare before finalise
m('cb-hash-other-slice', 'R01d', CB,
  '		hasher.Write(uncompressedChunk[0:chunkEnd])',
  '		hasher.Write(uncompressedChunk[0:numRead-1+1])')
m('cb-compress-other-slice', 'R01d', CB,
  '		compressedChunk := zstd.EncodeAll(uncompressedChunk[0:chunkEnd], compressedChunkBuffer[:0])',
  '		compressedChunk := zstd.EncodeAll(uncompressedChunk[0:numRead], compressedChunkBuffer[:0])')
m('cb-readfull-error-ignored', 'R01d', CB,
  '''		numRead, err = io.ReadFull(r, uncompressedChunk[0:chunkEnd])
		if err != nil {
			return -1, fmt.Errorf("only managed to read %d of %d bytes: %w", numRead, chunkEnd, err)
		}
''',
  '''		numRead, err = io.ReadFull(r, uncompressedChunk[0:chunkEnd])
		if err != nil && err != io.ErrUnexpectedEOF {
			return -1, fmt.Errorf("only managed to read %d of %d bytes: %w", numRead, chunkEnd, err)
		}
''')
m('cb-no-hash-compare', 'R01e', CB,
  '''	actualHash := hex.EncodeToString(hasher.Sum(nil))
	if actualHash != hash {
		return -1, fmt.Errorf("checksums don't match. Expected %s, found %s",
			hash, actualHash)
	}

	// We know all the chunk offsets now, go back and fill those in.''',
  '''	actualHash := hex.EncodeToString(hasher.Sum(nil))
	if actualHash != hash {
		log.Printf("checksums don't match. Expected %s, found %s", hash, actualHash)
	}

	// We know all the chunk offsets now, go back and fill those in.''')
m('cb-trailing-data-accepted', 'R01e', CB,
  '''	if err == nil {
		return -1, fmt.Errorf("expected %d bytes but got at least %d more", size, bytesAfter)
	} else if err != io.EOF {''',
  '''	if err == nil {
		log.Printf("expected %d bytes but got at least %d more", size, bytesAfter)
	} else if err != io.EOF {''')
m('cb-trailing-unexpected-eof-accepted', 'R01e', CB,
  '	} else if err != io.EOF {\n		return -1, fmt.Errorf("failed to read chunk of size %d: %w", len(uncompressedChunk), err)',
  '	} else if err != io.EOF && err != io.ErrUnexpectedEOF {\n		return -1, fmt.Errorf("failed to read chunk of size %d: %w", len(uncompressedChunk), err)')
m('cb-identity-length-unchecked', 'R01e', CB,
  '''		if n != size {
			return -1, fmt.Errorf("expected to copy %d bytes, actually copied %d bytes",
				size, n)
		}
''',
  '''		if n > size {
			return -1, fmt.Errorf("expected to copy %d bytes, actually copied %d bytes",
				size, n)
		}
''')
m('cb-table-before-verify', 'R08a', CB,
  '''	actualHash := hex.EncodeToString(hasher.Sum(nil))
	if actualHash != hash {
		return -1, fmt.Errorf("checksums don't match. Expected %s, found %s",
			hash, actualHash)
	}

	// We know all the chunk offsets now, go back and fill those in.
	_, err = f.Seek(chunkTableOffset, io.SeekStart)
	if err != nil {
		return -1, fmt.Errorf("failed to seek to offset %d: %w", chunkTableOffset, err)
	}

	err = binary.Write(f, binary.LittleEndian, h.chunkOffsets)
	if err != nil {
		return -1, fmt.Errorf("failed to write chunk offsets: %w", err)
	}
''',
  '''	// We know all the chunk offsets now, go back and fill those in.
	_, err = f.Seek(chunkTableOffset, io.SeekStart)
	if err != nil {
		return -1, fmt.Errorf("failed to seek to offset %d: %w", chunkTableOffset, err)
	}

	err = binary.Write(f, binary.LittleEndian, h.chunkOffsets)
	if err != nil {
		return -1, fmt.Errorf("failed to write chunk offsets: %w", err)
	}

	actualHash := hex.EncodeToString(hasher.Sum(nil))
	if actualHash != hash {
		return -1, fmt.Errorf("checksums don't match. Expected %s, found %s",
			hash, actualHash)
	}
''')
m('cb-no-sync', 'R08a', CB,
  '''	err = f.Sync()
	if err != nil {
		return -1, fmt.Errorf("failed to sync file: %w", err)
	}

	err = f.Close()
	if err != nil {
		return -1, fmt.Errorf("failed to close file: %w", err)
	}

	return fileOffset, nil''',
  '''	err = f.Close()
	if err != nil {
		return -1, fmt.Errorf("failed to close file: %w", err)
	}

	return fileOffset, nil''')
m('cb-full-table-in-first-header', 'R08a', CB,
  '	h.chunkOffsets[0] = chunkTableOffset\n',
  '	for i := range h.chunkOffsets {\n		h.chunkOffsets[i] = chunkTableOffset + int64(i)\n	}\n')
m('cb-table-write-error-ignored', 'R08a', CB,
  '''	err = binary.Write(f, binary.LittleEndian, h.chunkOffsets)
	if err != nil {
		return -1, fmt.Errorf("failed to write chunk offsets: %w", err)
	}

	err = f.Sync()''',
  '''	_ = binary.Write(f, binary.LittleEndian, h.chunkOffsets)

	err = f.Sync()''')
# --- readHeader
m('cb-header-no-magic-check', 'R08d', CB,
  '''	if magicNumber != skippableFrameMagicNumber {
		return nil, errWrongMagicNum
	}
''',
  '''	if magicNumber == 0 {
		return nil, errWrongMagicNum
	}
''')
m('cb-header-offsets-not-monotone', 'R08d', CB,
  '		if h.chunkOffsets[i] <= prevOffset {',
  '		if h.chunkOffsets[i] < 0 {')
m('cb-header-last-offset-unchecked', 'R08d', CB,
  '	if prevOffset != foundFileSize {',
  '	if prevOffset > foundFileSize {')
m('cb-header-one-offset-ok', 'R08d', CB,
  '	if numOffsets < 2 {',
  '	if numOffsets < 1 {')
m('cb-header-framesize-unchecked', 'R08d', CB,
  '	if int64(frameSize) != metadataSize {',
  '	if int64(frameSize) > metadataSize {')
m('cb-header-chunksize-zero-ok', 'R08d,R14b', CB,
  '''	if h.chunkSize == 0 {
		return nil, errors.New("invalid chunk size 0 in header")
	}
''',
  '''	if h.chunkSize == 0 {
		log.Println("invalid chunk size 0 in header")
	}
''')
m('cb-reader-skips-header', 'R08d', CB,
  '''func GetZstdReadCloser(zstd zstdimpl.ZstdImpl, f *os.File, expectedSize int64, offset int64) (io.ReadCloser, error) {

	h, err := readHeader(f)
	if err != nil {
		_ = f.Close()
		return nil, err
	}
''',
  '''func GetZstdReadCloser(zstd zstdimpl.ZstdImpl, f *os.File, expectedSize int64, offset int64) (io.ReadCloser, error) {

	h, err := readHeader(f)
	if err != nil && offset > 0 {
		_ = f.Close()
		return nil, err
	}
	if h == nil {
		return f, nil
	}
''')
# --- format
m('cb-format-bigendian-size', 'R20a,R20b', CB,
  '	err = binary.Write(f, binary.LittleEndian, h.uncompressedSize)',
  '	err = binary.Write(f, binary.BigEndian, h.uncompressedSize)')
m('cb-format-magic-changed', 'R20a', CB,
  'const skippableFrameMagicNumber = 0x184D2A50',
  'const skippableFrameMagicNumber = 0x184D2A51')
m('cb-format-field-order', 'R20a,R20b', CB,
  '''	err = binary.Write(f, binary.LittleEndian, h.compression)
	if err != nil {
		return err
	}

	err = binary.Write(f, binary.LittleEndian, h.chunkSize)
	if err != nil {
		return err
	}
''',
  '''	err = binary.Write(f, binary.LittleEndian, h.chunkSize)
	if err != nil {
		return err
	}

	err = binary.Write(f, binary.LittleEndian, h.compression)
	if err != nil {
		return err
	}
''')
m('cb-format-count-width', 'R20a,R20b', CB,
  '	err = binary.Write(f, binary.LittleEndian, int64(len(h.chunkOffsets)))',
  '	err = binary.Write(f, binary.LittleEndian, int32(len(h.chunkOffsets)))')
m('cb-format-framesize-off', 'R20a', CB,
  '	return chunkTableOffset + (uint32(len(h.chunkOffsets)) * 8) - 4 - 4',
  '	return chunkTableOffset + (uint32(len(h.chunkOffsets)) * 8) - 4')
m('cb-format-compression-values', 'R20a', CB,
  '''	Identity  CompressionType = 0
	Zstandard CompressionType = 1''',
  '''	Identity  CompressionType = 1
	Zstandard CompressionType = 2''')
m('cb-reader-field-skipped', 'R20b', CB,
  '''	err = binary.Read(f, binary.LittleEndian, &h.compression)
	if err != nil {
		return nil, err
	}
''',
  '''	var cmp uint16
	err = binary.Read(f, binary.LittleEndian, &cmp)
	if err != nil {
		return nil, err
	}
	h.compression = CompressionType(cmp)
''')
m('cb-extract-size-wrong-bytes', 'R20b', CB,
  '	br := bytes.NewReader(earlyHeader[8:])',
  '	br := bytes.NewReader(earlyHeader[4:])')
m('cb-reader-default-chunksize', 'R02d', CB,
  '''	// Find the first relevant chunk.
	chunkNum := int64(offset / int64(h.chunkSize))
	remainder := offset % int64(h.chunkSize)

	if chunkNum+1 >= int64(len(h.chunkOffsets)) {
		_ = f.Close()
		return nil, fmt.Errorf("offset %d is beyond the %d chunks of size %d in the header",
			offset, len(h.chunkOffsets)-1, h.chunkSize)
	}

	if chunkNum > 0 {
		_, err = f.Seek(h.chunkOffsets[chunkNum], io.SeekStart)
		if err != nil {
			_ = f.Close()
			return nil, err
		}
	}
	if remainder == 0 {
		dec, err := zstd.GetDecoder(f)''',
  '''	// Find the first relevant chunk.
	chunkNum := int64(offset / int64(defaultChunkSize))
	remainder := offset % int64(defaultChunkSize)

	if chunkNum+1 >= int64(len(h.chunkOffsets)) {
		_ = f.Close()
		return nil, fmt.Errorf("offset %d is beyond the %d chunks of size %d in the header",
			offset, len(h.chunkOffsets)-1, h.chunkSize)
	}

	if chunkNum > 0 {
		_, err = f.Seek(h.chunkOffsets[chunkNum], io.SeekStart)
		if err != nil {
			_ = f.Close()
			return nil, err
		}
	}
	if remainder == 0 {
		dec, err := zstd.GetDecoder(f)''')
m('cb-offset-recorded-after-write', 'R20c', CB,
  '''		h.chunkOffsets[nextChunk] = fileOffset
		nextChunk++

		chunkEnd := int64(chunkSize)''',
  '''		h.chunkOffsets[nextChunk] = fileOffset + 1
		nextChunk++

		chunkEnd := int64(chunkSize)''')
m('cb-last-offset-missing', 'R20c', CB,
  '''	h.chunkOffsets[nextChunk] = fileOffset

	// Confirm that there is no data left to be read.''',
  '''	// Confirm that there is no data left to be read.''')
m('cb-chunk-index-unchecked', 'R14c', CB,
  '''	if chunkNum+1 >= int64(len(h.chunkOffsets)) {
		_ = f.Close()
		return nil, fmt.Errorf("offset %d is beyond the %d chunks of size %d in the header",
			offset, len(h.chunkOffsets)-1, h.chunkSize)
	}

	if chunkNum > 0 {
		_, err = f.Seek(h.chunkOffsets[chunkNum], io.SeekStart)
		if err != nil {
			_ = f.Close()
			return nil, err
		}
	}

	if remainder == 0 {
		// Simple case- just stream the file from here.''',
  '''	if chunkNum > 0 {
		_, err = f.Seek(h.chunkOffsets[chunkNum], io.SeekStart)
		if err != nil {
			_ = f.Close()
			return nil, err
		}
	}

	if remainder == 0 {
		// Simple case- just stream the file from here.''')
m('cb-file-leak-on-header-error', 'R14d', CB,
  '''func GetUncompressedReadCloser(zstd zstdimpl.ZstdImpl, f *os.File, expectedSize int64, offset int64) (io.ReadCloser, error) {
	h, err := readHeader(f)
	if err != nil {
		_ = f.Close()
		return nil, err
	}''',
  '''func GetUncompressedReadCloser(zstd zstdimpl.ZstdImpl, f *os.File, expectedSize int64, offset int64) (io.ReadCloser, error) {
	h, err := readHeader(f)
	if err != nil {
		return nil, err
	}''')
m('cb-extract-leaks-on-bad-size', 'R12b,R14d', CB,
  '''	if uncompressedSize <= 0 {
		_ = rc.Close()
		return nil, -1, fmt.Errorf("expected blob to have positive size''',
  '''	if uncompressedSize <= 0 {
		return nil, -1, fmt.Errorf("expected blob to have positive size''')
