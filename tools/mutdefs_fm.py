# Mutants of cache/disk/findmissing.go
M = []


def m(name, expect, path, old, new):
    M.append((name, expect, path, old, new))


FM = 'cache/disk/findmissing.go'

m('fm-local-ignores-size', 'R10a', FM,
  '		if listElem != nil && !isSizeMismatch(blobs[i].SizeBytes, foundSize) {',
  '		if listElem != nil && foundSize >= -1 {')
m('fm-local-clears-on-miss', 'R10a', FM,
  '''		} else {
			missing++
		}
	}

	c.mu.Unlock()''',
  '''		} else {
			missing++
			if blobs[i].SizeBytes < 0 {
				blobs[i] = nil
			}
		}
	}

	c.mu.Unlock()''')
m('fm-worker-ignores-answer', 'R10a', FM,
  '		if ok && !isSizeMismatch((*req.digest).SizeBytes, foundSize) {',
  '		if ok || foundSize >= 0 {')
m('fm-worker-ignores-size', 'R10a', FM,
  '		if ok && !isSizeMismatch((*req.digest).SizeBytes, foundSize) {',
  '		if ok && foundSize >= -1 {')
m('fm-oversize-asked', 'R10b', FM,
  '				if chunk[i].SizeBytes > c.maxProxyBlobSize {',
  '				if chunk[i].SizeBytes > c.maxProxyBlobSize && failFast {')
m('fm-batch-skips-elements', 'R10c', FM,
  '			remaining = remaining[batchSize:]',
  '			remaining = remaining[batchSize+1:]')
m('fm-batch-stops-early', 'R10c', FM,
  '	for len(remaining) > 0 {',
  '	for len(remaining) > batchSize {')
m('fm-filter-reorders', 'R10d', FM,
  '''		if blobs[i] != nil {
			blobs[count] = blobs[i]
			count++
		}''',
  '''		if blobs[i] != nil {
			blobs[count] = blobs[len(blobs)-1-i]
			count++
		}''')
m('fm-filter-drops-last', 'R10d', FM,
  '	return blobs[:count]\n}',
  '	if count > 1 {\n		count--\n	}\n	return blobs[:count]\n}')
m('fm-result-unfiltered', 'R10g', FM,
  '	return filterNonNil(blobs), nil',
  '	return blobs[:0], nil')
m('fm-empty-blob-missing', 'R02b', FM,
  '		if blobs[i].SizeBytes == 0 && blobs[i].Hash == emptySha256 {',
  '		if blobs[i].SizeBytes == 0 && blobs[i].Hash == emptySha256 && c.lru.Len() > 0 {')
m('fm-worker-shared-slot', 'R07f', FM,
  '					digest: &chunk[i],',
  '					digest: &chunk[0],')
m('fm-add-after-send', 'R07f', FM,
  '''				wg.Add(1)
				c.containsQueue <- proxyCheck{
					wg:     &wg,
					digest: &chunk[i],
					ctx:    ctx,
					// When failFast is true, onProxyMiss will have been set to a function that
					// will cancel the context, causing the remaining proxyChecks to short-circuit.
					onProxyMiss: cancelContextForFailFast,
				}''',
  '''				c.containsQueue <- proxyCheck{
					wg:     &wg,
					digest: &chunk[i],
					ctx:    ctx,
					// When failFast is true, onProxyMiss will have been set to a function that
					// will cancel the context, causing the remaining proxyChecks to short-circuit.
					onProxyMiss: cancelContextForFailFast,
				}
				wg.Add(1)''')
m('fm-no-wait', 'R07f', FM,
  '''				return errMissingBlob
			}
		}
	}

	return nil''',
  '''				return errMissingBlob
			}
		default:
		}
	}

	return nil''')
m('fm-failfast-flag-plain-bool', 'R07e', FM,
  '''		cancelContextForFailFast = func() {
			// Indicate that we were canceled so that we can fail fast.
			cancelledDueToFailFast.Store(true)''',
  '''		n := 0
		cancelContextForFailFast = func() {
			n++
			// Indicate that we were canceled so that we can fail fast.
			cancelledDueToFailFast.Store(n > 0)''')
m('fm-lookup-unlocked', 'R07a', FM,
  '''	c.mu.Lock()

	for i := range blobs {
		if blobs[i].SizeBytes == 0''',
  '''	for i := range blobs {
		if blobs[i].SizeBytes == 0''')
m('fm-send-under-lock', 'R07b', FM,
  '''				wg.Add(1)
				c.containsQueue <- proxyCheck{''',
  '''				wg.Add(1)
				c.mu.Lock()
				defer c.mu.Unlock()
				c.containsQueue <- proxyCheck{''')
m('fm-found-digest-dereferenced', 'R14l', FM,
  '''			for i := range chunk {
				if chunk[i] == nil {
					continue
				}

				if chunk[i].SizeBytes > c.maxProxyBlobSize {''',
  '''			for i := range chunk {
				if chunk[i].SizeBytes > c.maxProxyBlobSize {''')
