# Mutants of cache/disk/lru.go
M = []


def m(name, expect, path, old, new):
    M.append((name, expect, path, old, new))


LRU = 'cache/disk/lru.go'

m('lru-get-no-refresh', 'R05a', LRU,
  '''	if ele, hit := c.cache[key]; hit {
		c.ll.MoveToFront(ele)
		return ele.Value.(*entry).value, ele''',
  '''	if ele, hit := c.cache[key]; hit {
		return ele.Value.(*entry).value, ele''')
m('lru-add-push-back', 'R05a', LRU,
  '		ele := c.ll.PushFront(&entry{key, value})',
  '		ele := c.ll.PushBack(&entry{key, value})')
m('lru-overwrite-no-refresh', 'R05a', LRU,
  '''		c.ll.MoveToFront(ee)
		c.counterOverwrittenBytes''',
  '''		c.counterOverwrittenBytes''')
m('lru-evict-from-front', 'R05b', LRU,
  '''	for c.currentSize+sizeDelta > c.maxSize {
		ele := c.ll.Back()''',
  '''	for c.currentSize+sizeDelta > c.maxSize {
		ele := c.ll.Front()''')
m('lru-reserve-evict-from-front', 'R05b', LRU,
  '''	for sumLargerThan(size, c.currentSize, c.maxSize) {
		ele := c.ll.Back()''',
  '''	for sumLargerThan(size, c.currentSize, c.maxSize) {
		ele := c.ll.Front()''')
m('lru-add-evicts-one-too-many', 'R03d', LRU,
  '	for c.currentSize+sizeDelta > c.maxSize {',
  '	for c.currentSize+sizeDelta >= c.maxSize {')
m('lru-add-evict-ignores-delta', 'R03d', LRU,
  '	for c.currentSize+sizeDelta > c.maxSize {',
  '	for c.currentSize > c.maxSize {')
m('lru-reserve-evict-wrong-bound', 'R03d', LRU,
  '	for sumLargerThan(size, c.currentSize, c.maxSize) {',
  '	for sumLargerThan(size, c.reservedSize, c.maxSize) {')
m('lru-add-no-uncompressed-update', 'R03c', LRU,
  '''	c.currentSize += sizeDelta
	c.uncompressedSize += uncompressedSizeDelta
''',
  '''	c.currentSize += sizeDelta
	c.uncompressedSize = uncompressedSizeDelta
''')
m('lru-add-unrounded-delta', 'R03c', LRU,
  '''		sizeDelta = roundedUpSizeOnDisk
		if c.reservedSize+sizeDelta > c.maxSize {''',
  '''		sizeDelta = value.sizeOnDisk
		if c.reservedSize+sizeDelta > c.maxSize {''')
m('lru-overwrite-delta-ignores-old', 'R03c', LRU,
  '		sizeDelta = roundedUpSizeOnDisk - roundUp4k(ee.Value.(*entry).value.sizeOnDisk)',
  '		sizeDelta = roundedUpSizeOnDisk')
m('lru-remove-uses-logical-size', 'R03c', LRU,
  '	c.currentSize -= roundUp4k(kv.value.sizeOnDisk)',
  '	c.currentSize -= roundUp4k(kv.value.size)')
m('lru-reserve-only-current', 'R03c', LRU,
  '''	c.currentSize += size
	c.reservedSize += size
	return nil''',
  '''	c.currentSize += size
	return nil''')
m('lru-unreserve-only-reserved', 'R03c', LRU,
  '''	c.currentSize = newC
	c.reservedSize = newR
''',
  '''	c.reservedSize = newR
''')
m('lru-failed-add-changes-counter', 'R03c', LRU,
  '''		sizeDelta = roundedUpSizeOnDisk
		if c.reservedSize+sizeDelta > c.maxSize {
			return false
		}''',
  '''		sizeDelta = roundedUpSizeOnDisk
		if c.reservedSize+sizeDelta > c.maxSize {
			c.uncompressedSize += roundUp4k(value.size)
			return false
		}''')
m('lru-counter-written-elsewhere', 'R03b', LRU,
  '''func (c *SizedLRU) RemoveElement(elem *list.Element) {
	c.removeElement(elem)''',
  '''func (c *SizedLRU) RemoveElement(elem *list.Element) {
	c.uncompressedSize -= roundUp4k(elem.Value.(*entry).value.size)
	c.removeElement(elem)''')
m('lru-index-written-elsewhere', 'R03b', LRU,
  '''func (c *SizedLRU) RemoveKey(key string) {
	if elem, hit := c.cache[key]; hit {
		c.removeElement(elem)''',
  '''func (c *SizedLRU) RemoveKey(key string) {
	if elem, hit := c.cache[key]; hit {
		delete(c.cache, key)
		c.removeElement(elem)''')
m('lru-remove-no-revalidation', 'R03e', LRU,
  '''	if cur, ok := c.cache[kv.key]; !ok || cur != e {''',
  '''	if _, ok := c.cache[kv.key]; !ok {''')
m('lru-remove-not-queued', 'R04b', LRU,
  '''	c.counterEvictedBytes.Add(float64(kv.value.sizeOnDisk))
	c.appendEvictionToQueue(kv)''',
  '''	c.counterEvictedBytes.Add(float64(kv.value.sizeOnDisk))''')
m('lru-overwrite-not-queued', 'R04b', LRU,
  '''		kvCopy := &entry{kv.key, kv.value}
		c.appendEvictionToQueue(kvCopy)
''',
  '''		kvCopy := &entry{kv.key, kv.value}
		_ = kvCopy
''')
m('lru-overwrite-queues-after-store', 'R04b', LRU,
  '''		kv := ee.Value.(*entry)
		kvCopy := &entry{kv.key, kv.value}
		c.appendEvictionToQueue(kvCopy)

		ee.Value.(*entry).value = value''',
  '''		kv := ee.Value.(*entry)
		ee.Value.(*entry).value = value
		kvCopy := &entry{kv.key, kv.value}
		c.appendEvictionToQueue(kvCopy)
''')
m('lru-add-toobig-after-evict', 'R05d', LRU,
  '''	if roundedUpSizeOnDisk > c.maxSize {
		return false
	}
''',
  '''	if roundedUpSizeOnDisk > c.maxSize && c.ll.Len() == 0 {
		return false
	}
''')
m('lru-reserve-toobig-unchecked', 'R05d', LRU,
  '''	if size > c.maxSize {
		// Classified as http.StatusBadRequest because the current''',
  '''	if size > c.maxSize && c.maxSizeHardLimit > 0 {
		// Classified as http.StatusBadRequest because the current''')
m('lru-hardlimit-after-evict', 'R17a', LRU,
  '''	totalDiskSizeNow := c.calcTotalDiskSizeAndUpdatePeak(size)

	if c.maxSizeHardLimit > 0 && totalDiskSizeNow > (uint64(c.maxSizeHardLimit)) {''',
  '''	totalDiskSizeNow := c.calcTotalDiskSizeAndUpdatePeak(size)
	if ele := c.ll.Back(); ele != nil && sumLargerThan(size, c.currentSize, c.maxSize) {
		c.removeElement(ele)
	}

	if c.maxSizeHardLimit > 0 && totalDiskSizeNow > (uint64(c.maxSizeHardLimit)) {''')
m('lru-hardlimit-without-backlog', 'R17b', LRU,
  '	totalDiskSizeNow := uint64(c.currentSize) + uint64(c.queuedEvictionsSize.Load()) + uint64(sizeOfNewFile)\n	if totalDiskSizeNow > c.totalDiskSizePeak {',
  '	totalDiskSizeNow := uint64(c.currentSize) + uint64(sizeOfNewFile)\n	if totalDiskSizeNow > c.totalDiskSizePeak {')
m('lru-hardlimit-ignores-request', 'R17b', LRU,
  '	totalDiskSizeNow := c.calcTotalDiskSizeAndUpdatePeak(size)\n\n	if c.maxSizeHardLimit > 0',
  '	totalDiskSizeNow := c.calcTotalDiskSizeAndUpdatePeak(0)\n\n	if c.maxSizeHardLimit > 0')
m('lru-backlog-not-decreased', 'R17c', LRU,
  '''		c.onEvict(kv.key, kv.value)
		c.queuedEvictionsSize.Add(-kv.value.sizeOnDisk)''',
  '''		c.onEvict(kv.key, kv.value)''')
m('lru-backlog-decreased-before-remove', 'R17c', LRU,
  '''		c.onEvict(kv.key, kv.value)
		c.queuedEvictionsSize.Add(-kv.value.sizeOnDisk)''',
  '''		c.queuedEvictionsSize.Add(-kv.value.sizeOnDisk)
		c.onEvict(kv.key, kv.value)''')
m('lru-backlog-wrong-field', 'R17c', LRU,
  '	c.queuedEvictionsSize.Add(e.value.sizeOnDisk)',
  '	c.queuedEvictionsSize.Add(e.value.size)')
m('lru-hardlimit-always-on', 'R17e,R17a', LRU,
  '	if c.maxSizeHardLimit > 0 && totalDiskSizeNow > (uint64(c.maxSizeHardLimit)) {',
  '	if totalDiskSizeNow > (uint64(c.maxSizeHardLimit)) {')
m('lru-evict-callback-skipped', 'R04c', LRU,
  '''	for _, kv := range sliceOfEntries {
		c.onEvict(kv.key, kv.value)''',
  '''	for i, kv := range sliceOfEntries {
		if i%2 == 1 {
			continue
		}
		c.onEvict(kv.key, kv.value)''')
m('lru-stats-wrong-counter', 'R03f', LRU,
  '''func (c *SizedLRU) UncompressedSize() int64 {
	return c.uncompressedSize''',
  '''func (c *SizedLRU) UncompressedSize() int64 {
	return c.currentSize''')
m('lru-add-refuses-after-insert', 'R04g,R03c', LRU,
  '''		sizeDelta = roundedUpSizeOnDisk
		if c.reservedSize+sizeDelta > c.maxSize {
			return false
		}
		uncompressedSizeDelta = roundUp4k(value.size)
		ele := c.ll.PushFront(&entry{key, value})
		c.cache[key] = ele
''',
  '''		sizeDelta = roundedUpSizeOnDisk
		uncompressedSizeDelta = roundUp4k(value.size)
		ele := c.ll.PushFront(&entry{key, value})
		c.cache[key] = ele
		if c.reservedSize+sizeDelta > c.maxSize {
			return false
		}
''')
m('lru-overwrite-refuses-after-queueing', 'R04g,R03c', LRU,
  '''		if c.reservedSize+sizeDelta > c.maxSize {
			return false
		}
		uncompressedSizeDelta = roundUp4k(value.size) - roundUp4k(ee.Value.(*entry).value.size)
		c.ll.MoveToFront(ee)
		c.counterOverwrittenBytes.Add(float64(ee.Value.(*entry).value.sizeOnDisk))

		kv := ee.Value.(*entry)
		kvCopy := &entry{kv.key, kv.value}
		c.appendEvictionToQueue(kvCopy)
''',
  '''		uncompressedSizeDelta = roundUp4k(value.size) - roundUp4k(ee.Value.(*entry).value.size)
		c.ll.MoveToFront(ee)
		c.counterOverwrittenBytes.Add(float64(ee.Value.(*entry).value.sizeOnDisk))

		kv := ee.Value.(*entry)
		kvCopy := &entry{kv.key, kv.value}
		c.appendEvictionToQueue(kvCopy)
		if c.reservedSize+sizeDelta > c.maxSize {
			return false
		}
''')
