#!/usr/bin/env python3
"""mkmut.py <prop> <name> <expect-rules> <file> <old> <new> [--count N]
Creates /verif/mutants/<prop>/<name>.patch: a unified diff (p1) against /repo
that replaces the exact text <old> by <new> in <file> (old must occur exactly
once unless --count is given).  <old>/<new> may use \\n and \\t escapes."""
import sys, os, difflib
args = sys.argv[1:]
count = 1
if '--count' in args:
    i = args.index('--count'); count = int(args[i+1]); del args[i:i+2]
prop, name, expect, path, old, new = args
old = old.encode().decode('unicode_escape'); new = new.encode().decode('unicode_escape')
src = open(os.path.join('/repo', path)).read()
n = src.count(old)
if n != count:
    sys.exit(f"{name}: expected {count} occurrence(s) of old text in {path}, found {n}")
dst = src.replace(old, new)
diff = ''.join(difflib.unified_diff(src.splitlines(True), dst.splitlines(True), 'a/'+path, 'b/'+path))
os.makedirs(f'/verif/mutants/{prop}', exist_ok=True)
out = f'/verif/mutants/{prop}/{name}.patch'
if os.path.exists(out) and '--append' not in sys.argv:
    pass
with open(out, 'w') as f:
    f.write(f"# mutant: {name}\n# expect: {expect}\n")
    f.write(diff)
print("wrote", out)
