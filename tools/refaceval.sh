#!/bin/bash
# refaceval.sh <patch.diff> : apply a behaviour-preserving refactoring to a scratch copy of /repo and
# report which checks raise an alarm on it (every report is a false alarm of the checker).
p=$(readlink -f $1)
name=$(basename $p .diff)
tmp=$(mktemp -d /tmp/refaceval-XXXX)
rsync -a --exclude .git /repo/ $tmp/repo/
mkdir -p $tmp/verif; cp /verif/known_findings.jsonl /verif/properties.jsonl $tmp/verif/
if ! (cd $tmp/repo && patch -p1 -s --no-backup-if-mismatch < $p > $tmp/patch.log 2>&1); then echo "$name: PATCH-FAILS $(head -2 $tmp/patch.log | tr '\n' ' ')"; rm -rf $tmp; exit 2; fi
out=$(VCHECK_NO_CONTROLS=1 /verif/bin/vcheck -p all -tier quick -repo $tmp/repo -verif $tmp/verif 2>&1 | python3 -c '
import sys,re
pend=[]
for l in sys.stdin:
    m=re.match(r"^  ((?:R\w+|framework|anchor)) (\S+) \[", l)
    if m and not m.group(2).isdigit():
        pend.append(m.group(1)+" "+m.group(2))
    m2=re.match(r"^(C\d+) tier=", l)
    if m2:
        for x in pend: print("   "+m2.group(1)+": "+x)
        pend=[]
')
if [ -z "$out" ]; then echo "$name: silent"; else echo "$name: ALARM"; echo "$out"; fi
rm -rf $tmp
