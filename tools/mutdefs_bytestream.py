# Mutants of server/grpc_bytestream.go
M = []


def m(name, expect, path, old, new):
    M.append((name, expect, path, old, new))


BS = 'server/grpc_bytestream.go'

m('bs-write-offset-unchecked', 'R16c', BS,
  '''				resp.CommittedSize = req.WriteOffset
				if req.WriteOffset != 0 {''',
  '''				resp.CommittedSize = req.WriteOffset
				if req.WriteOffset < 0 {''')
m('bs-write-name-change-accepted', 'R16c', BS,
  '''				if req.ResourceName != "" && resourceName != req.ResourceName {
					msg := fmt.Sprintf("Resource name changed in a single Write %v -> %v",
						resourceName, req.ResourceName)
					recvResult <- status.Error(codes.InvalidArgument, msg)
					return
				}''',
  '''				if req.ResourceName != "" && resourceName != req.ResourceName {
					s.accessLogger.Printf("Resource name changed in a single Write %v -> %v",
						resourceName, req.ResourceName)
				}''')
m('bs-write-too-much-accepted', 'R16c', BS,
  '''			if cmp == casblob.Identity && resp.CommittedSize > size {
				msg := fmt.Sprintf("Client sent more than %d data! %d", size, resp.CommittedSize)
				recvResult <- status.Error(codes.OutOfRange, msg)
				return
			}''',
  '''			if cmp == casblob.Identity && resp.CommittedSize > size {
				s.accessLogger.Printf("Client sent more than %d data! %d", size, resp.CommittedSize)
			}''')
m('bs-write-short-finish-is-eof', 'R16c', BS,
  '''			if req.FinishWrite {
				if cmp == casblob.Identity && resp.CommittedSize != size {
					msg := fmt.Sprintf("Unexpected amount of data read: %d expected: %d",
						resp.CommittedSize, size)
					recvResult <- status.Error(codes.Unknown, msg)
					return
				}
''',
  '''			if req.FinishWrite {
				if cmp == casblob.Identity && resp.CommittedSize > size {
					msg := fmt.Sprintf("Unexpected amount of data read: %d expected: %d",
						resp.CommittedSize, size)
					recvResult <- status.Error(codes.Unknown, msg)
					return
				}
''')
m('bs-write-limit-after-put', 'R16c', BS,
  '''				if size > s.maxCasBlobSizeBytes {
					recvResult <- status.Errorf(codes.InvalidArgument,
						"Blob size %d exceeds maximum allowed size %d",
						size, s.maxCasBlobSizeBytes)
					return
				}
''',
  '''				if size > s.maxCasBlobSizeBytes && cmp == casblob.Identity {
					recvResult <- status.Errorf(codes.InvalidArgument,
						"Blob size %d exceeds maximum allowed size %d",
						size, s.maxCasBlobSizeBytes)
					return
				}
''')
m('bs-write-committed-counts-message-len', 'R16b', BS,
  '			resp.CommittedSize += int64(n)',
  '			resp.CommittedSize += int64(len(req.Data) + n - n)')
m('bs-write-exists-compressed-size', 'R16b', BS,
  '''					if cmp == casblob.Identity {
						resp.CommittedSize = size
					} else {
						resp.CommittedSize = -1
					}''',
  '''					resp.CommittedSize = size''')
m('bs-write-ack-before-put-result', 'R16a', BS,
  '''	err := <-putResult
	if err == io.EOF {
		s.accessLogger.Printf("GRPC BYTESTREAM SKIPPED WRITE: %s", resourceName)
''',
  '''	var err error
	select {
	case err = <-putResult:
	default:
	}
	if err == io.EOF {
		s.accessLogger.Printf("GRPC BYTESTREAM SKIPPED WRITE: %s", resourceName)
''')
m('bs-write-put-error-acked', 'R16a', BS,
  '''	if err != nil {
		msg := fmt.Sprintf("GRPC BYTESTREAM WRITE FAILED: %s Cache Put failed: %v", resourceName, err)
		s.accessLogger.Printf(msg)
		code := gRPCErrCode(err, codes.Internal)
		return status.Error(code, msg)
	}
''',
  '''	if err != nil {
		msg := fmt.Sprintf("GRPC BYTESTREAM WRITE FAILED: %s Cache Put failed: %v", resourceName, err)
		s.accessLogger.Printf(msg)
	}
''')
m('bs-write-no-pipe-close', 'R14e', BS,
  '	defer func() { _ = pr.Close() }()\n\n	putResult := make(chan error, 1)',
  '	putResult := make(chan error, 1)')
m('bs-write-unbuffered-result', 'R14f', BS,
  '	recvResult := make(chan error, 1)',
  '	recvResult := make(chan error)')
m('bs-write-empty-stream-waits', 'R16c', BS,
  '''				if firstIteration {
					// The client closed the stream without sending any
					// WriteRequest: there is no Put call whose result we
					// could wait for.
					recvResult <- status.Error(codes.InvalidArgument,
						"stream closed before any WriteRequest was received")
					return
				}''',
  '''''')
m('bs-qws-complete-when-absent', 'R16d', BS,
  '		return &bytestream.QueryWriteStatusResponse{CommittedSize: 0, Complete: false}, nil',
  '		return &bytestream.QueryWriteStatusResponse{CommittedSize: 0, Complete: true}, nil')
m('bs-qws-wrong-size', 'R16d', BS,
  '	return &bytestream.QueryWriteStatusResponse{CommittedSize: size, Complete: true}, nil',
  '	return &bytestream.QueryWriteStatusResponse{CommittedSize: 0, Complete: true}, nil')
m('bs-read-limit-not-deducted', 'R02a', BS,
  '				sendLimitRemaining -= int64(n)',
  '				sendLimitRemaining -= 0')
m('bs-read-limit-test-weakened', 'R02a', BS,
  '				if (sendLimitRemaining - int64(n)) < 0 {',
  '				if sendLimitRemaining < 0 {')
