#!/bin/bash
# nall.sh [pattern]: run every check on every stored behaviour-preserving refactoring (neutral/*.diff), in parallel.
mkdir -p /tmp/nall
ls /verif/neutral/${1:-*}.diff | xargs -n1 basename | sed 's/.diff$//' | xargs -P 8 -I{} sh -c 'bash /verif/tools/nrun.sh {} > /tmp/nall/{}.txt 2>&1'
silent=0; alarm=0
for f in /verif/neutral/${1:-*}.diff; do n=$(basename $f .diff); if grep -q "^   C" /tmp/nall/$n.txt; then alarm=$((alarm+1)); echo "== $n"; grep -E "^   C" /tmp/nall/$n.txt | cut -c1-150; else silent=$((silent+1)); fi; done
echo "$silent silent, $alarm with alarms"
