#!/usr/bin/env python3
"""seedmeta.py: (re)write /verif/seeded/<name>/meta.json from patch.diff, caught.txt, confirm.txt and print the catch matrix."""
import os, json, re
rows = []
for id in sorted(os.listdir('/verif/seeded')):
    d = f'/verif/seeded/{id}'
    if not os.path.isdir(d):
        continue
    patch = open(d + '/patch.diff').read()
    files = sorted(set(re.findall(r'^\+\+\+ b/(\S+)', patch, re.M)))
    caught = [l.strip() for l in open(d + '/caught.txt') if l.strip()]
    props = sorted(set(c.split(':')[0] for c in caught))
    conf = open(d + '/confirm.txt').read() if os.path.exists(d + '/confirm.txt') else ''
    prop = id[:3]
    seedmd = open(d + '/SEED.md').read() if os.path.exists(d + '/SEED.md') else ''
    mm = re.search(r'^#+\s*\(c\)[^\n]*\n(.*?)(?=^#+\s*\(d\))', seedmd, re.S | re.M)
    needs = re.sub(r'\s+', ' ', mm.group(1)).strip()[:1500] if mm else ''
    demo = open(d + '/demo.diff').read() if os.path.exists(d + '/demo.diff') else ''
    demofiles = sorted(set(re.findall(r'^\+\+\+ b/(\S+)', demo, re.M)))
    demotests = sorted(set(re.findall(r'^\+func (TestSeedDemo\w*)', demo, re.M)))
    meta = {'property': prop, 'origin': 'sub-agent working from the property text only, in a scratch worktree', 'files': files,
            'needs_to_manifest': needs, 'demonstration': {'files': demofiles, 'tests': demotests},
            'what_was_run': ['tools/seedconfirm.sh ' + id + ': on an rsync copy of /repo (removed afterwards): apply patch.diff; go build ./...; go test -vet=off -count=1 ./... (existing suite); apply demo.diff; go test -run SeedDemo <demo packages> (must fail); revert patch.diff; go test -run SeedDemo (must pass) -> confirm.txt',
                             'tools/seedeval.sh ' + prop + ' ' + id + ': apply patch.diff to a scratch copy of /repo and run vcheck -p all -tier quick -repo <copy> -> caught.txt'],
            'caught_by_properties': props, 'caught_by_own_property': prop in props, 'reports': caught,
            'confirmed': {'builds': 'build: ok' in conf, 'existing_suite_passes': 'existing suite with change: pass' in conf,
                          'demo_fails_with_change': 'demo with change: fails' in conf, 'demo_passes_without_change': 'demo without change: pass' in conf}}
    json.dump(meta, open(d + '/meta.json', 'w'), indent=1)
    rules = sorted(set(c.split(': ')[1].split()[0] for c in caught if c.startswith(prop + ':')))
    rows.append((id, files, props, prop in props, rules))
for r in rows:
    print(r[0], 'OWN' if r[3] else 'other-only' if r[2] else 'MISSED', ','.join(r[1]), '-> own rules:', ' '.join(r[4]), '| all:', ' '.join(r[2]))
