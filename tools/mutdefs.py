# Mutant definitions: (name, expected rules, file, old text, new text).
# Each breaks one rule instance while still compiling.  Regenerate the patches
# with `tools/mutants.py gen`; check them with `tools/mutants.py try`.

M = []


def m(name, expect, path, old, new):
    M.append((name, expect, path, old, new))


DISK = 'cache/disk/disk.go'
LRU = 'cache/disk/lru.go'
LOAD = 'cache/disk/load.go'
FM = 'cache/disk/findmissing.go'
CASBLOB = 'cache/disk/casblob/casblob.go'

# ---------------------------------------------------------------- disk.go: Put
m('put-commit-before-verify', 'R01a', DISK,
  '''	sizeOnDisk, err = c.writeAndCloseFile(ctx, r, kind, hash, size, tf)
	if err != nil {
		return internalErr(err)
	}
''',
  '''	sizeOnDisk, err = c.writeAndCloseFile(ctx, r, kind, hash, size, tf)
	if err != nil && kind != cache.AC {
		return internalErr(err)
	}
''')
m('put-verifier-other-size', 'R01c', DISK,
  'sizeOnDisk, err = c.writeAndCloseFile(ctx, r, kind, hash, size, tf)',
  'sizeOnDisk, err = c.writeAndCloseFile(ctx, r, kind, hash, -1, tf)')
m('put-drop-unreserve-flag', 'R03a', DISK,
  '''		c.mu.Unlock()
		unreserve = true
	}

	legacy := kind == cache.CAS && c.storageMode == casblob.Identity

	// Final destination, if all goes well.''',
  '''		c.mu.Unlock()
	}

	legacy := kind == cache.CAS && c.storageMode == casblob.Identity

	// Final destination, if all goes well.''')
m('put-reserve-error-ignored', 'R17f,R03a', DISK,
  '''		err := c.lru.Reserve(size)
		if err != nil {
			c.mu.Unlock()
			return err
		}
		c.mu.Unlock()
		unreserve = true''',
  '''		err := c.lru.Reserve(size)
		if err != nil {
			log.Println(err)
		}
		c.mu.Unlock()
		unreserve = true''')
m('put-limit-check-after-reserve', 'R18a', DISK,
  '''	if size > c.maxBlobSize {
		return badReqErr("Blob size %d too large, max blob size is %d", size, c.maxBlobSize)
	}

	// The hash format is checked properly in the http/grpc code.
	// Just perform a simple/fast check here, to catch bad tests.
	if len(hash) != sha256HashStrSize {
		return badReqErr("Invalid hash size: %d, expected: %d", len(hash), sha256.Size)
	}

	if kind == cache.CAS && size == 0 && hash == emptySha256 {
		return nil
	}
''',
  '''	// The hash format is checked properly in the http/grpc code.
	// Just perform a simple/fast check here, to catch bad tests.
	if len(hash) != sha256HashStrSize {
		return badReqErr("Invalid hash size: %d, expected: %d", len(hash), sha256.Size)
	}

	if kind == cache.CAS && size == 0 && hash == emptySha256 {
		return nil
	}
''')
m('put-limit-only-cas', 'R18a', DISK,
  '''	if size > c.maxBlobSize {
		return badReqErr("Blob size %d too large''',
  '''	if size > c.maxBlobSize && kind == cache.CAS {
		return badReqErr("Blob size %d too large''')
m('put-tempfile-flag-late', 'R04a', DISK,
  '''	blobFile = tf.Name()
	removeTempfile = true

	var sizeOnDisk int64
	sizeOnDisk, err = c.writeAndCloseFile(ctx, r, kind, hash, size, tf)
	if err != nil {
		return internalErr(err)
	}
''',
  '''	blobFile = tf.Name()

	var sizeOnDisk int64
	sizeOnDisk, err = c.writeAndCloseFile(ctx, r, kind, hash, size, tf)
	if err != nil {
		return internalErr(err)
	}
	removeTempfile = true
''')
m('put-proxy-before-verify', 'R12c', DISK,
  '''	blobFile = tf.Name()
	removeTempfile = true

	var sizeOnDisk int64
	sizeOnDisk, err = c.writeAndCloseFile(ctx, r, kind, hash, size, tf)''',
  '''	blobFile = tf.Name()
	removeTempfile = true

	if c.proxy != nil {
		if rc, err := os.Open(blobFile); err == nil {
			c.proxy.Put(ctx, kind, hash, size, size, rc)
		}
	}

	var sizeOnDisk int64
	sizeOnDisk, err = c.writeAndCloseFile(ctx, r, kind, hash, size, tf)''')
m('put-proxy-open-leak', 'R12b,R14d', DISK,
  '''			// Doesn't block, should be fast.
			c.proxy.Put(ctx, kind, hash, size, sizeOnDisk, rc)''',
  '''			// Doesn't block, should be fast.
			if size <= c.maxProxyBlobSize {
				c.proxy.Put(ctx, kind, hash, size, sizeOnDisk, rc)
			}''')

# ------------------------------------------------------------- disk.go: commit
m('commit-skip-unreserve', 'R03a', DISK,
  '''	if unreserve {
		err = c.lru.Unreserve(reservedSize)''',
  '''	if unreserve && sizeOnDisk > 0 && false {
		err = c.lru.Unreserve(reservedSize)''')
m('unreserve-sizeondisk', 'R03a', DISK,
  '		err = c.lru.Unreserve(reservedSize)',
  '		err = c.lru.Unreserve(sizeOnDisk)')
m('commit-keeps-tempfile-flag', 'R04a', DISK,
  '''	removeTempfile = false

	// Commit successful if we made it this far! \\o/''',
  '''	// Commit successful if we made it this far! \\o/''')
m('commit-add-unlocked', 'R07a', DISK,
  '''	c.mu.Lock()
	defer c.mu.Unlock()

	if unreserve {
		err = c.lru.Unreserve(reservedSize)''',
  '''	if unreserve {
		err = c.lru.Unreserve(reservedSize)''')
m('commit-size-swapped', 'R05e', DISK,
  '''		size:       logicalSize,
		sizeOnDisk: sizeOnDisk,''',
  '''		size:       sizeOnDisk,
		sizeOnDisk: sizeOnDisk,''')

# ---------------------------------------------------------------- disk.go: get
m('get-wrong-unreserve-cond', 'R03a', DISK,
  '''	if tryProxy && size > 0 {
		unreserve = true
	}''',
  '''	if tryProxy && size > 1 {
		unreserve = true
	}''')
m('get-early-return-after-create', 'R04a', DISK,
  '''	removeTempfile = true

	blobFile = tf.Name()
''',
  '''	blobFile = tf.Name()
	if ctx.Err() != nil {
		return nil, -1, internalErr(ctx.Err())
	}
	removeTempfile = true
''')
m('get-late-reserve-dropped', 'R17f', DISK,
  '''	if size <= 0 && foundSize > 0 {
		// The size was unknown''',
  '''	if size <= 0 && foundSize > 0 && kind == cache.CAS {
		// The size was unknown''')
m('get-late-reserve-keeps-size', 'R03a', DISK,
  '''		size = foundSize
		unreserve = true
	}
''',
  '''		unreserve = true
	}
''')
m('get-proxy-no-maxsize', 'R12d', DISK,
  '''	if foundSize > c.maxProxyBlobSize {
		_ = r.Close()
		return nil, -1, nil
	}
''',
  '''	if foundSize > c.maxProxyBlobSize && kind != cache.CAS {
		_ = r.Close()
		return nil, -1, nil
	}
''')
m('get-proxy-no-mismatch-check', 'R12d', DISK,
  '	if isSizeMismatch(size, foundSize) || foundSize < 0 {\n		return nil, -1, nil\n	}',
  '	if foundSize < 0 {\n		return nil, -1, nil\n	}')
m('get-proxy-negative-size-ok', 'R12d', DISK,
  '	if isSizeMismatch(size, foundSize) || foundSize < 0 {\n		return nil, -1, nil\n	}',
  '	if isSizeMismatch(size, foundSize) {\n		return nil, -1, nil\n	}')
m('get-proxy-serve-uncommitted', 'R12e', DISK,
  '''	unreserve, removeTempfile, err = c.commit(key, legacy, blobFile, size, foundSize, sizeOnDisk, random)
	if err != nil {
		_ = rc.Close()
		return nil, -1, internalErr(err)
	}
''',
  '''	unreserve, removeTempfile, err = c.commit(key, legacy, blobFile, size, foundSize, sizeOnDisk, random)
	if err != nil {
		log.Println(err)
	}
''')
m('get-proxy-length-unchecked', 'R12e', DISK,
  '	if uncompressedOnDisk && sizeOnDisk != foundSize {',
  '	if uncompressedOnDisk && sizeOnDisk > foundSize {')
m('get-proxy-reader-leak', 'R12b,R14d', DISK,
  '''	if r != nil {
		defer func() { _ = r.Close() }()
	}
	if err != nil {
		return nil, -1, internalErr(err)
	}
	if r == nil {
		return nil, -1, nil
	}''',
  '''	if err != nil {
		return nil, -1, internalErr(err)
	}
	if r == nil {
		return nil, -1, nil
	}''')
m('get-rcf-leak-on-commit-error', 'R12b,R14d', DISK,
  '''	if err != nil {
		_ = rc.Close()
		return nil, -1, internalErr(err)
	}

	return rc, foundSize, nil''',
  '''	if err != nil {
		return nil, -1, internalErr(err)
	}

	return rc, foundSize, nil''')
m('get-proxy-without-nil-check', 'R12a', DISK,
  '	if c.proxy != nil && size <= c.maxProxyBlobSize {\n		if size > 0 {',
  '	if size <= c.maxProxyBlobSize {\n		if size > 0 {')
m('get-proxy-oversize-asked', 'R18d', DISK,
  '	if c.proxy != nil && size <= c.maxProxyBlobSize {\n		if size > 0 {',
  '	if c.proxy != nil {\n		if size > 0 {')

# ------------------------------------------------ disk.go: availableOrTryProxy
m('avail-open-under-lock', 'R07b', DISK,
  '''	if listElem != nil {
		c.mu.Unlock() // We expect a cache hit below.
		locked = false

		blobPath := path.Join(c.dir, c.FileLocation(kind, item.legacy, hash, item.size, item.random))
''',
  '''	if listElem != nil {
		blobPath := path.Join(c.dir, c.FileLocation(kind, item.legacy, hash, item.size, item.random))
		if fi, err := os.Stat(blobPath); err == nil && fi.Size() == 0 {
			log.Println("empty file", blobPath)
		}
		c.mu.Unlock() // We expect a cache hit below.
		locked = false
''')
m('avail-remove-unlocked', 'R07a', DISK,
  '''					_ = f.Close()

					c.mu.Lock()
					c.lru.RemoveElement(listElem)
					c.mu.Unlock()''',
  '''					_ = f.Close()

					c.lru.RemoveElement(listElem)''')
m('avail-double-unlock', 'R07a', DISK,
  '''			c.mu.Unlock()
			locked = false
		} else {
			// If the size is unknown, take a risk''',
  '''			c.mu.Unlock()
		} else {
			// If the size is unknown, take a risk''')
m('avail-reserve-failure-tryproxy', 'R03a,R17f', DISK,
  '''			err = c.lru.Reserve(size)
			if err == nil {
				tryProxy = true
			}''',
  '''			err = c.lru.Reserve(size)
			tryProxy = true
			err = nil''')
m('avail-file-leak-on-error', 'R14d,R12b', DISK,
  '''					log.Printf("Warning: expected item to be on disk, but something happened when retrieving %s (compressed: %v, legacy: %v): %v",
						blobPath, zstd, item.legacy, err)
					_ = f.Close()
''',
  '''					log.Printf("Warning: expected item to be on disk, but something happened when retrieving %s (compressed: %v, legacy: %v): %v",
						blobPath, zstd, item.legacy, err)
''')
m('avail-hit-reserves', 'R17g', DISK,
  '''				} else {
					return rc, item.size, false, nil
				}''',
  '''				} else {
					c.mu.Lock()
					err = c.lru.Reserve(item.size)
					c.mu.Unlock()
					if err != nil {
						_ = rc.Close()
						return nil, -1, false, err
					}
					c.mu.Lock()
					err = c.lru.Unreserve(item.size)
					c.mu.Unlock()
					return rc, item.size, false, err
				}''')

# --------------------------------------------------- disk.go: writeAndCloseFile
m('wacf-identity-unverified', 'R01c', DISK,
  '	if kind == cache.CAS { // c.storageMode == casblob.Identity\n		writeCloser = sha256verifier.New(hash, size, f)\n	}',
  '	if kind == cache.CAS && size > 0 { // c.storageMode == casblob.Identity\n		writeCloser = sha256verifier.New(hash, size, f)\n	}')
m('wacf-close-error-ignored', 'R01c,R08b', DISK,
  '''	err = writeCloser.Close()
	if err != nil {
		return -1, fmt.Errorf("failed to verify hash: %w", err)
	}
''',
  '''	_ = writeCloser.Close()
''')
m('wacf-no-sync', 'R08b', DISK,
  '''	err = f.Sync()
	if err != nil {
		return -1, fmt.Errorf("failed to sync file to disk: %w", err)
	}

	err = writeCloser.Close()''',
  '''	err = writeCloser.Close()''')
m('wacf-size-check-dropped', 'R08b', DISK,
  '''	if isSizeMismatch(sizeOnDisk, size) {
		return -1, fmt.Errorf(
			"sizes don't match. Expected %d, found %d", size, sizeOnDisk)
	}

	err = f.Sync()''',
  '''	err = f.Sync()''')
m('wacf-file-leak-on-success', 'R14d', DISK,
  '''	closeFile := true
	defer func() {
		if closeFile {
			_ = f.Close()
		}
	}()

	var err error
	var sizeOnDisk int64

	if kind == cache.CAS && c.storageMode != casblob.Identity {''',
  '''	closeFile := false
	defer func() {
		if closeFile {
			_ = f.Close()
		}
	}()

	var err error
	var sizeOnDisk int64

	if kind == cache.CAS && c.storageMode != casblob.Identity {''')
