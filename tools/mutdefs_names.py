# Mutants of naming / loading / migration code
M = []


def m(name, expect, path, old, new):
    M.append((name, expect, path, old, new))


DISK = 'cache/disk/disk.go'
LOAD = 'cache/disk/load.go'
TF = 'utils/tempfile/tempfile.go'
CACHE = 'cache/cache.go'

m('name-lookup-cas-no-size', 'R04e,R20d', DISK,
  '	return fmt.Sprintf("cas.v2/%s/%s-%d-%s", hash[:2], hash, size, random)',
  '	return fmt.Sprintf("cas.v2/%s/%s-%s-%d", hash[:2], hash, random, size)')
m('name-base-raw-in-ac-dir', 'R04e,R20d', DISK,
  '''	if kind == cache.RAW {
		return path.Join("raw.v2", hash[:2], hash)
	}
''',
  '''	if kind == cache.RAW {
		return path.Join("ac.v2", hash[:2], hash)
	}
''')
m('name-legacy-suffix-changed', 'R04e,R20d', DISK,
  '		return fmt.Sprintf("cas.v2/%s/%s-%s.v1", hash[:2], hash, random)',
  '		return fmt.Sprintf("cas.v2/%s/%s-%s.v2", hash[:2], hash, random)')
m('name-tempfile-separator', 'R04e', TF,
  '			name = base + "-" + random\n		}',
  '			name = base + "." + random\n		}')
m('name-tempfile-legacy-no-suffix', 'R04e', TF,
  '			name = base + "-" + random + ".v1"',
  '			name = base + "-" + random')
m('name-shard-three-chars', 'R20d,R04e', DISK,
  '	return fmt.Sprintf("cas.v2/%s/%s-%d", hash[:2], hash, size)',
  '	return fmt.Sprintf("cas.v2/%s/%s-%d", hash[:3], hash, size)')
m('name-loader-size-group-optional-zero', 'R04e', LOAD,
  'regexp.MustCompile(`^([a-f0-9]{64})(?:-([1-9][0-9]*))?-([0-9a-zA-Z]+)(\\.v1)?$`)',
  'regexp.MustCompile(`^([a-f0-9]{64})-([0-9a-zA-Z]+)(?:-([1-9][0-9]*))?(\\.v1)?$`)')
m('name-loader-prefix-swapped', 'R15a', LOAD,
  '''				} else if strings.HasPrefix(d, "ac.v2/") {
					lookupKeyPrefix = "ac/"
				} else if strings.HasPrefix(d, "raw.v2/") {
					lookupKeyPrefix = "raw/"''',
  '''				} else if strings.HasPrefix(d, "ac.v2/") {
					lookupKeyPrefix = "raw/"
				} else if strings.HasPrefix(d, "raw.v2/") {
					lookupKeyPrefix = "ac/"''')
m('name-elementpath-raw-as-ac', 'R15a', DISK,
  '''	} else if strings.HasPrefix(ks, "raw") {
		kind = cache.RAW
	}''',
  '''	} else if strings.HasPrefix(ks, "raw") {
		kind = cache.AC
	}''')
m('name-loader-legacy-flag-inverted', 'R04e', LOAD,
  '					item[n].legacy = sm[4] == ".v1"',
  '					item[n].legacy = sm[4] != ".v1"')
m('name-loader-random-wrong-group', 'R04e', LOAD,
  '					item[n].random = sm[3]',
  '					item[n].random = sm[2]')
m('load-newest-first', 'R09b', LOAD,
  '	return r.metadata[i].ts.Before(r.metadata[j].ts)',
  '	return r.metadata[i].ts.After(r.metadata[j].ts)')
m('load-swap-only-items', 'R09b', LOAD,
  '''	r.item[i], r.item[j] = r.item[j], r.item[i]
	r.metadata[i], r.metadata[j] = r.metadata[j], r.metadata[i]''',
  '''	r.item[i], r.item[j] = r.item[j], r.item[i]''')
m('load-add-reverse-order', 'R09b', LOAD,
  '	for i := 0; i < len(result.item); i++ {\n		ok := c.lru.Add(result.metadata[i].lookupKey, *result.item[i])',
  '	for i := len(result.item) - 1; i >= 0; i-- {\n		ok := c.lru.Add(result.metadata[i].lookupKey, *result.item[i])')
m('load-no-backlog-wait', 'R09f', LOAD,
  '		for c.lru.queuedEvictionsSize.Load() > 0 {\n			time.Sleep(200 * time.Millisecond)\n		}',
  '		if c.lru.queuedEvictionsSize.Load() > 0 {\n			time.Sleep(200 * time.Millisecond)\n		}')
m('load-lostfound-fatal', 'R09e', LOAD,
  '''						if de.Name() == lostAndFound {
							continue
						}
''',
  '''						if de.Name() == lostAndFound && false {
							continue
						}
''')
m('load-unknown-file-skipped', 'R09e', LOAD,
  '''					if len(sm) != 5 {
						return fmt.Errorf("unrecognized file: %q", path.Join(dirName, name))
					}''',
  '''					if len(sm) != 5 {
						continue
					}''')
m('load-remove-by-key', 'R04d', LOAD,
  '			err = os.Remove(c.getElementPath(result.metadata[i].lookupKey, *result.item[i]))',
  '			err = os.Remove(filepath.Join(c.dir, result.metadata[i].lookupKey))')
m('migrate-v1-cas-no-suffix', 'R09c', LOAD,
  '			destPath := path.Join(destDir, name) + "-556677.v1"',
  '			destPath := path.Join(destDir, name) + "-556677"')
m('migrate-v0-ac-with-suffix', 'R09c', LOAD,
  '				if kind == cache.CAS {\n					dest += ".v1"\n				}',
  '				if kind != cache.RAW {\n					dest += ".v1"\n				}')
m('migrate-v1-separator', 'R09c', LOAD,
  '		destPath := path.Join(destDir, name) + "-112233"',
  '		destPath := path.Join(destDir, name) + "_112233"')
m('migrate-v0-wrong-subdir', 'R09c', LOAD,
  '				dest := filepath.Join(targetDir, oldName[:2], oldName+"-222444666")',
  '				dest := filepath.Join(targetDir, oldName[:3], oldName+"-222444666")')
m('evict-callback-wrong-path', 'R04c', LOAD,
  '		f := c.getElementPath(key, value)\n		c.removeFile(f)',
  '		f := filepath.Join(c.dir, key)\n		c.removeFile(f)')
