#!/bin/bash
# seedconfirm.sh <name>: confirm a stored seeded change: with the patch the tree
# builds and the existing suite passes, the demonstration fails; without the
# patch the demonstration passes.  Writes /verif/seeded/<name>/confirm.txt.
name=$1
d=/verif/seeded/$name
export GOFLAGS=-mod=mod GOPROXY=off
tmp=$(mktemp -d /tmp/seedconf-XXXX)
rsync -a --exclude .git /repo/ $tmp/repo/
cd $tmp/repo
{
echo "seed $name"
patch -p1 -s --no-backup-if-mismatch < $d/patch.diff || { echo "RESULT patch-does-not-apply"; exit; }
if go build ./... 2>&1 | tail -3 | grep -q .; then echo "build: FAIL"; else echo "build: ok"; fi
if go test -vet=off -count=1 ./... > $tmp/suite.log 2>&1; then echo "existing suite with change: pass"; else echo "existing suite with change: FAIL"; grep -E "^(--- FAIL|FAIL)" $tmp/suite.log | head; fi
patch -p1 -s --no-backup-if-mismatch < $d/demo.diff || echo "demo does not apply"
pkgs=$(grep -E '^\+\+\+ b/' $d/demo.diff | sed 's|+++ b/||' | xargs -n1 dirname | sort -u | sed 's|^|./|')
if go test -vet=off -count=1 -run 'SeedDemo' $pkgs > $tmp/with.log 2>&1; then echo "demo with change: pass (UNEXPECTED)"; else echo "demo with change: fails (expected)"; grep -E "^\s+\S+_test.go:[0-9]+:" $tmp/with.log | head -3; fi
patch -p1 -R -s --no-backup-if-mismatch < $d/patch.diff
if go test -vet=off -count=1 -run 'SeedDemo' $pkgs > $tmp/without.log 2>&1; then echo "demo without change: pass (expected)"; else echo "demo without change: FAILS (UNEXPECTED)"; tail -5 $tmp/without.log; fi
} > $d/confirm.txt 2>&1
cat $d/confirm.txt
rm -rf $tmp
