#!/usr/bin/env python3
"""neutral.py [name ...]: behaviour-preserving variants of /repo (local renames, reordered independent
statements).  Each is applied to a scratch copy, must still build, and every check must stay silent on
it: a report on a neutral variant is a false alarm of the checker."""
import sys, os, re, subprocess, tempfile, shutil, concurrent.futures

N = []


def n(name, path, subs):
    N.append((name, path, subs))


W = lambda a, b: (r'\b' + a + r'\b', b)
n('disk-rename-foundsize', 'cache/disk/disk.go', [W('foundSize', 'gotSize')])
n('disk-rename-flags', 'cache/disk/disk.go', [W('unreserve', 'mustRelease'), W('removeTempfile', 'dropTemp')])
n('disk-rename-files', 'cache/disk/disk.go', [W('blobFile', 'tmpName'), W('tf', 'tmpf'), W('rcf', 'reopened')])
n('disk-rename-params', 'cache/disk/disk.go', [W('listElem', 'le'), W('tryProxy', 'askBackend'), W('locked', 'held')])
n('lru-rename-locals', 'cache/disk/lru.go', [W('sizeDelta', 'delta'), W('uncompressedSizeDelta', 'udelta'), W('ele', 'el'), W('kvCopy', 'old'), W('roundedUpSizeOnDisk', 'rounded'), W('totalDiskSizeNow', 'total')])
n('fm-rename-locals', 'cache/disk/findmissing.go', [W('chunk', 'batch'), W('remaining', 'rest'), W('numMissing', 'nmiss'), W('req', 'job'), W('waitCh', 'done'), W('missing', 'miss')])
n('bs-rename-locals', 'server/grpc_bytestream.go', [W('recvResult', 'rres'), W('putResult', 'pres'), W('firstIteration', 'first'), W('resourceNameChan', 'rnc'), W('sendLimitRemaining', 'budget'), W('limitedSend', 'limited')])
n('casblob-rename-locals', 'cache/disk/casblob/casblob.go', [W('chunkNum', 'ci'), W('remainder', 'rem'), W('uncompressedFirstChunk', 'firstChunk'), W('compressedFirstChunk', 'rawChunk'), W('numOffsets', 'nOff'), W('prevOffset', 'prev'), W('foundFileSize', 'fsize'), W('fileOffset', 'pos'), W('nextChunk', 'next')])
n('http-rename-locals', 'server/http.go', [W('contentLength', 'clen'), W('rdr', 'body'), W('zstdCompressed', 'isZstd'), W('sizeBytes', 'nbytes')])
n('grpc-ac-rename-locals', 'server/grpc_ac.go', [W('rdr', 'src'), W('acdata', 'raw'), W('inlinedSoFar', 'inlined'), W('logPrefix', 'lp')])
n('grpc-cas-rename-locals', 'server/grpc_cas.go', [W('rr', 'one'), W('errorPrefix', 'ep'), W('missingBlobs', 'absent')])
n('load-rename-locals', 'cache/disk/load.go', [W('lookupKeyPrefix', 'prefix'), W('sm', 'groups'), W('des', 'entries'), W('onEvict', 'remover')])
n('config-rename-locals', 'config/config.go', [W('httpPort', 'hp'), W('grpcPort', 'gp'), W('proxyCount', 'nproxy'), W('yc', 'ycfg')])
n('validate-rename-locals', 'utils/validate/action_result.go', [W('ar', 'res'), W('f', 'of'), W('d', 'od')])
n('main-rename-locals', 'main.go', [W('cacheHandler', 'ch0'), W('statusHandler', 'sh0'), W('metricsHandler', 'mh0'), W('streamInterceptors', 'sis'), W('unaryInterceptors', 'uis')])
n('gvar-rename-locals', 'cache/disk/disk.go', [W('pendingValidations', 'todo'), W('acdata', 'raw'), W('oddata', 'treeRaw')])


L = lambda a, b: (a, b, 'lit')
n('put-swap-early-checks', 'cache/disk/disk.go', [L("""	if size < 0 {
		return badReqErr("Invalid (negative) size: %d", size)
	}

	if size > c.maxBlobSize {
		return badReqErr("Blob size %d too large, max blob size is %d", size, c.maxBlobSize)
	}
""", """	if size > c.maxBlobSize {
		return badReqErr("Blob size %d too large, max blob size is %d", size, c.maxBlobSize)
	}

	if size < 0 {
		return badReqErr("Invalid (negative) size: %d", size)
	}
""")])
n('put-limit-operands-swapped', 'cache/disk/disk.go', [L('	if size > c.maxBlobSize {', '	if c.maxBlobSize < size {')])
n('get-maxproxy-operands-swapped', 'cache/disk/disk.go', [L('	if foundSize > c.maxProxyBlobSize {', '	if c.maxProxyBlobSize < foundSize {')])
n('fm-local-if-inverted', 'cache/disk/findmissing.go', [L("""		if listElem != nil && !isSizeMismatch(blobs[i].SizeBytes, foundSize) {
			c.accessLogger.Printf("GRPC CAS HEAD %s OK", blobs[i].Hash)
			blobs[i] = nil
		} else {
			missing++
		}""", """		if listElem == nil || isSizeMismatch(blobs[i].SizeBytes, foundSize) {
			missing++
		} else {
			c.accessLogger.Printf("GRPC CAS HEAD %s OK", blobs[i].Hash)
			blobs[i] = nil
		}""")])
n('header-numoffsets-le1', 'cache/disk/casblob/casblob.go', [L('	if numOffsets < 2 {', '	if numOffsets <= 1 {')])
n('http-limit-operands-swapped', 'server/http.go', [L('		if contentLength > h.maxCasBlobSizeBytes {', '		if h.maxCasBlobSizeBytes < contentLength {')])
n('bs-offset-operands-swapped', 'server/grpc_bytestream.go', [L('				if req.WriteOffset != 0 {', '				if 0 != req.WriteOffset {')])
n('lru-evict-loop-operands', 'cache/disk/lru.go', [L('	for c.currentSize+sizeDelta > c.maxSize {', '	for c.maxSize < sizeDelta+c.currentSize {')])
n('lru-reserve-zero-after-negative', 'cache/disk/lru.go', [L("""	if size == 0 {
		return nil
	}

	if size < 0 {
		return &cache.Error{
			Code: http.StatusBadRequest,
			Text: fmt.Sprintf("Invalid negative blob size: %d", size),
		}
	}
""", """	if size < 0 {
		return &cache.Error{
			Code: http.StatusBadRequest,
			Text: fmt.Sprintf("Invalid negative blob size: %d", size),
		}
	}

	if size == 0 {
		return nil
	}
""")])
n('extra-log-lines', 'cache/disk/disk.go', [L('	key := cache.LookupKey(kind, hash)\n\n	var tf *os.File // Tempfile.', '	key := cache.LookupKey(kind, hash)\n	if false {\n		log.Println("put", key)\n	}\n\n	var tf *os.File // Tempfile.')])
n('validator-loops-reordered', 'utils/validate/action_result.go', [L("""	err = maybeNilDigest(ar.StdoutDigest)
	if err != nil {
		return fmt.Errorf("invalid StdoutDigest: %w", err)
	}
	err = maybeNilDigest(ar.StderrDigest)
	if err != nil {
		return fmt.Errorf("invalid StderrDigest: %w", err)
	}
""", """	err = maybeNilDigest(ar.StderrDigest)
	if err != nil {
		return fmt.Errorf("invalid StderrDigest: %w", err)
	}
	err = maybeNilDigest(ar.StdoutDigest)
	if err != nil {
		return fmt.Errorf("invalid StdoutDigest: %w", err)
	}
""")])
n('gvar-stdout-after-stderr', 'cache/disk/disk.go', [L("""	if result.StdoutDigest != nil {
		pendingValidations = append(pendingValidations, result.StdoutDigest)
	}

	if result.StderrDigest != nil {
		pendingValidations = append(pendingValidations, result.StderrDigest)
	}
""", """	if result.StderrDigest != nil {
		pendingValidations = append(pendingValidations, result.StderrDigest)
	}

	if result.StdoutDigest != nil {
		pendingValidations = append(pendingValidations, result.StdoutDigest)
	}
""")])
n('last-chunk-test-respelled', 'cache/disk/casblob/casblob.go', [L('	if chunkNum == int64(len(h.chunkOffsets)-2) {\n		// Last chunk in the file.', '	if chunkNum+2 == int64(len(h.chunkOffsets)) {\n		// Last chunk in the file.')])

n('get-late-reserve-extracted', 'cache/disk/disk.go', [L("""		c.mu.Lock()
		err = c.lru.Reserve(foundSize)
		c.mu.Unlock()
		if err != nil {
			return nil, -1, err
		}
		size = foundSize""", """		err = c.reserveLate(foundSize)
		if err != nil {
			return nil, -1, err
		}
		size = foundSize"""), L("""func isSizeMismatch(requestedSize int64, foundSize int64) bool {""", """func (c *diskCache) reserveLate(n int64) error {
	c.mu.Lock()
	defer c.mu.Unlock()
	return c.lru.Reserve(n)
}

func isSizeMismatch(requestedSize int64, foundSize int64) bool {""")])
n('put-reserve-extracted', 'cache/disk/disk.go', [L("""	if size > 0 {
		c.mu.Lock()
		err := c.lru.Reserve(size)
		if err != nil {
			c.mu.Unlock()
			return err
		}
		c.mu.Unlock()
		unreserve = true
	}
""", """	if size > 0 {
		err := c.reserveLate(size)
		if err != nil {
			return err
		}
		unreserve = true
	}
"""), L("""func isSizeMismatch(requestedSize int64, foundSize int64) bool {""", """func (c *diskCache) reserveLate(n int64) error {
	c.mu.Lock()
	defer c.mu.Unlock()
	return c.lru.Reserve(n)
}

func isSizeMismatch(requestedSize int64, foundSize int64) bool {""")])


def run(name, path, subs):
    tmp = tempfile.mkdtemp(prefix='neutral-')
    try:
        rdir = os.path.join(tmp, 'repo')
        subprocess.run(['rsync', '-a', '--exclude', '.git', '/repo/', rdir + '/'], check=True)
        p = os.path.join(rdir, path)
        s = open(p).read()
        for sub in subs:
            if len(sub) == 3:
                a, b = sub[0].replace('\\n', '\n'), sub[1].replace('\\n', '\n')
                if s.count(a) != 1:
                    return name, 'OLD-TEXT-NOT-UNIQUE', [str(s.count(a))]
                s = s.replace(a, b)
            else:
                s = re.sub(sub[0], sub[1], s)
        open(p, 'w').write(s)
        env = dict(os.environ, GOFLAGS='-mod=mod', GOPROXY='off')
        r = subprocess.run(['go', 'build', './...'], cwd=rdir, capture_output=True, text=True, env=env)
        if r.returncode != 0:
            return name, 'DOES-NOT-BUILD', r.stderr.strip().splitlines()[:3]
        r = subprocess.run(['go', 'vet', './' + os.path.dirname(path)], cwd=rdir, capture_output=True, text=True, env=env)
        vtmp = os.path.join(tmp, 'verif')
        os.makedirs(vtmp)
        for f in ('known_findings.jsonl', 'properties.jsonl'):
            shutil.copy('/verif/' + f, vtmp)
        out = subprocess.run(['/verif/bin/vcheck', '-p', 'all', '-tier', 'quick', '-repo', rdir, '-verif', vtmp], capture_output=True, text=True,
                             env=dict(os.environ, VCHECK_NO_CONTROLS='1')).stdout
        rep, pend = [], []
        for l in out.splitlines():
            m = re.match(r'^  ((?:R\w+|framework|anchor)) (\S+) \[', l)
            if m and not m.group(2).isdigit():
                pend.append(m.group(1) + ' ' + m.group(2))
            m2 = re.match(r'^(C\d+) tier=', l)
            if m2:
                rep += [m2.group(1) + ': ' + x for x in pend]
                pend = []
        return name, 'silent' if not rep else 'FALSE-ALARM', rep
    finally:
        shutil.rmtree(tmp)


if __name__ == '__main__':
    sel = [x for x in N if not sys.argv[1:] or x[0] in sys.argv[1:]]
    bad = 0
    with concurrent.futures.ThreadPoolExecutor(max_workers=4) as ex:
        for name, st, rep in ex.map(lambda d: run(*d), sel):
            print(f'{st:16s} {name}')
            if st != 'silent':
                bad += 1
                for r in rep[:12]:
                    print('      ', r)
    print(f'{len(sel)} neutral variants, {bad} not silent')
