// automut generates first-order mutants of /repo's non-test, non-generated
// source (relational/logical/arithmetic operator replacement, statement
// deletion, guard removal, constant shifts, negation removal, same-type
// identifier swaps), keeps only those that still type-check, and writes them
// as JSON lines.  It is a tool for finding gaps in the static checks
// (tools/automut.py runs the checks and the test suite on each mutant); it is
// not part of any registered check.
package main

import (
	"bytes"
	"encoding/json"
	"flag"
	"fmt"
	"go/ast"
	"go/parser"
	"go/token"
	"go/types"
	"os"
	"path/filepath"
	"sort"
	"strings"

	"golang.org/x/tools/go/packages"
)

type Mutant struct {
	ID    string `json:"id"`
	File  string `json:"file"` // relative to the repo root
	Func  string `json:"func"`
	Line  int    `json:"line"`
	Kind  string `json:"kind"`
	Start int    `json:"start"`
	End   int    `json:"end"`
	Old   string `json:"old"`
	New   string `json:"new"`
}

type mapImporter map[string]*types.Package

func (m mapImporter) Import(path string) (*types.Package, error) {
	if p, ok := m[path]; ok {
		return p, nil
	}
	return nil, fmt.Errorf("package %s not loaded", path)
}

func main() {
	repo := flag.String("repo", "/repo", "repository root")
	out := flag.String("out", "mutants.jsonl", "output file")
	only := flag.String("files", "", "comma-separated list of repo-relative files (default: all in scope)")
	flag.Parse()

	cfg := &packages.Config{Mode: packages.LoadAllSyntax, Dir: *repo, Env: append(os.Environ(), "GOFLAGS=-mod=mod", "GOPROXY=off")}
	pkgs, err := packages.Load(cfg, "./...")
	if err != nil {
		fmt.Fprintln(os.Stderr, err)
		os.Exit(2)
	}
	imp := mapImporter{}
	packages.Visit(pkgs, nil, func(p *packages.Package) {
		if p.Types != nil {
			imp[p.PkgPath] = p.Types
		}
	})
	want := map[string]bool{}
	for _, f := range strings.Split(*only, ",") {
		if f != "" {
			want[f] = true
		}
	}
	w, err := os.Create(*out)
	if err != nil {
		panic(err)
	}
	defer w.Close()
	enc := json.NewEncoder(w)
	total, kept := 0, 0
	sort.Slice(pkgs, func(i, j int) bool { return pkgs[i].PkgPath < pkgs[j].PkgPath })
	for _, p := range pkgs {
		if strings.Contains(p.PkgPath, "/genproto/") || len(p.Errors) > 0 {
			continue
		}
		usesCgo := false
		for _, f := range p.Syntax {
			for _, im := range f.Imports {
				if im.Path.Value == `"C"` {
					usesCgo = true
				}
			}
		}
		if usesCgo {
			continue
		}
		for fi, f := range p.Syntax {
			name := p.Fset.File(f.Pos()).Name()
			rel, _ := filepath.Rel(*repo, name)
			if strings.HasSuffix(rel, "_test.go") || strings.HasPrefix(rel, "..") || strings.HasPrefix(rel, "utils/testutils") {
				continue
			}
			if len(want) > 0 && !want[rel] {
				continue
			}
			src, err := os.ReadFile(name)
			if err != nil {
				panic(err)
			}
			cands := candidates(p, f, src)
			n := 0
			for _, c := range cands {
				total++
				mut := append(append(append([]byte{}, src[:c.Start]...), c.New...), src[c.End:]...)
				if !typechecks(p, fi, name, mut, imp) {
					continue
				}
				c.File = rel
				c.ID = fmt.Sprintf("%s:%d:%s:%d", rel, c.Line, c.Kind, n)
				n++
				kept++
				enc.Encode(c)
			}
			fmt.Fprintf(os.Stderr, "%-45s %4d candidates %4d compile\n", rel, len(cands), n)
		}
	}
	fmt.Fprintf(os.Stderr, "total %d candidates, %d type-check\n", total, kept)
}

func typechecks(p *packages.Package, fi int, name string, mut []byte, imp types.Importer) bool {
	fset := p.Fset
	files := make([]*ast.File, len(p.Syntax))
	for i, f := range p.Syntax {
		if i == fi {
			nf, err := parser.ParseFile(fset, name, mut, parser.SkipObjectResolution)
			if err != nil {
				return false
			}
			files[i] = nf
		} else {
			files[i] = f
		}
	}
	ok := true
	conf := types.Config{Importer: imp, Error: func(error) { ok = false }}
	// files from two file sets: positions of the others are only used for
	// error messages, which we drop.
	conf.Check(p.PkgPath, fset, files, nil)
	return ok
}

var ror = map[token.Token][]string{
	token.LSS: {"<="}, token.LEQ: {"<"}, token.GTR: {">="}, token.GEQ: {">"},
	token.EQL: {"!="}, token.NEQ: {"=="},
	token.LAND: {"||"}, token.LOR: {"&&"},
	token.ADD: {"-"}, token.SUB: {"+"},
}

func candidates(p *packages.Package, f *ast.File, src []byte) []Mutant {
	var out []Mutant
	fset := p.Fset
	off := func(pos token.Pos) int { return fset.Position(pos).Offset }
	add := func(fn string, pos token.Pos, kind string, s, e int, nw string) {
		out = append(out, Mutant{Func: fn, Line: fset.Position(pos).Line, Kind: kind, Start: s, End: e, Old: string(src[s:e]), New: nw})
	}
	for _, d := range f.Decls {
		fd, ok := d.(*ast.FuncDecl)
		if !ok || fd.Body == nil {
			continue
		}
		fn := fd.Name.Name
		if fd.Recv != nil && len(fd.Recv.List) > 0 {
			var b bytes.Buffer
			t := fd.Recv.List[0].Type
			if st, ok := t.(*ast.StarExpr); ok {
				t = st.X
			}
			if id, ok := t.(*ast.Ident); ok {
				b.WriteString(id.Name + ".")
			}
			fn = b.String() + fn
		}
		// locals by type for identifier swaps
		type lv struct {
			name string
			obj  *types.Var
		}
		var locals []lv
		ast.Inspect(fd, func(n ast.Node) bool {
			if id, ok := n.(*ast.Ident); ok {
				if v, ok := p.TypesInfo.Defs[id].(*types.Var); ok && !v.IsField() && id.Name != "_" {
					locals = append(locals, lv{id.Name, v})
				}
			}
			return true
		})
		swap := func(id *ast.Ident, kind string) {
			v, ok := p.TypesInfo.Uses[id].(*types.Var)
			if !ok || v.IsField() || v.Pkg() == nil || v.Parent() == v.Pkg().Scope() {
				return
			}
			if _, isErr := v.Type().Underlying().(*types.Interface); isErr {
				return
			}
			n := 0
			seen := map[string]bool{id.Name: true}
			for _, l := range locals {
				if seen[l.name] || !types.Identical(l.obj.Type(), v.Type()) {
					continue
				}
				// must be declared before the use
				if l.obj.Pos() >= id.Pos() {
					continue
				}
				seen[l.name] = true
				add(fn, id.Pos(), kind, off(id.Pos()), off(id.End()), l.name)
				n++
				if n >= 2 {
					break
				}
			}
		}
		ast.Inspect(fd.Body, func(n ast.Node) bool {
			switch x := n.(type) {
			case *ast.BinaryExpr:
				if reps, ok := ror[x.Op]; ok {
					s := off(x.OpPos)
					e := s + len(x.Op.String())
					for _, r := range reps {
						add(fn, x.OpPos, "OP"+x.Op.String(), s, e, r)
					}
				}
				switch x.Op {
				case token.LSS, token.LEQ, token.GTR, token.GEQ, token.EQL, token.NEQ:
					if id, ok := x.X.(*ast.Ident); ok {
						swap(id, "IDCMP")
					}
					if id, ok := x.Y.(*ast.Ident); ok {
						swap(id, "IDCMP")
					}
				}
			case *ast.UnaryExpr:
				if x.Op == token.NOT {
					add(fn, x.OpPos, "NOT", off(x.OpPos), off(x.OpPos)+1, "")
				}
			case *ast.IfStmt:
				s, e := off(x.Cond.Pos()), off(x.Cond.End())
				add(fn, x.Cond.Pos(), "IFFALSE", s, e, "false && ("+string(src[s:e])+")")
				add(fn, x.Cond.Pos(), "IFTRUE", s, e, "true || ("+string(src[s:e])+")")
			case *ast.BlockStmt:
				for _, st := range x.List {
					del(st, fn, src, off, add)
				}
			case *ast.CaseClause:
				for _, st := range x.Body {
					del(st, fn, src, off, add)
				}
			case *ast.CommClause:
				for _, st := range x.Body {
					del(st, fn, src, off, add)
				}
			case *ast.BasicLit:
				if x.Kind == token.INT {
					s, e := off(x.Pos()), off(x.End())
					lit := string(src[s:e])
					if len(lit) <= 6 && !strings.HasPrefix(lit, "0x") && !strings.HasPrefix(lit, "0o") && !(len(lit) > 1 && lit[0] == '0') {
						add(fn, x.Pos(), "INT+1", s, e, "("+lit+"+1)")
						if lit != "0" {
							add(fn, x.Pos(), "INT-1", s, e, "("+lit+"-1)")
						}
					}
				}
			case *ast.CallExpr:
				for _, a := range x.Args {
					if id, ok := a.(*ast.Ident); ok {
						swap(id, "IDARG")
					}
				}
			case *ast.AssignStmt:
				if x.Tok == token.ASSIGN || x.Tok == token.DEFINE {
					for _, r := range x.Rhs {
						if id, ok := r.(*ast.Ident); ok {
							swap(id, "IDRHS")
						}
						if id, ok := r.(*ast.Ident); ok && (id.Name == "true" || id.Name == "false") {
							nw := "true"
							if id.Name == "true" {
								nw = "false"
							}
							add(fn, id.Pos(), "BOOL", off(id.Pos()), off(id.End()), nw)
						}
					}
				}
				if x.Tok == token.ADD_ASSIGN {
					s := off(x.TokPos)
					add(fn, x.TokPos, "OP+=", s, s+2, "-=")
				}
				if x.Tok == token.SUB_ASSIGN {
					s := off(x.TokPos)
					add(fn, x.TokPos, "OP-=", s, s+2, "+=")
				}
			case *ast.ReturnStmt:
				for _, r := range x.Results {
					if id, ok := r.(*ast.Ident); ok {
						if id.Name == "true" || id.Name == "false" {
							nw := "true"
							if id.Name == "true" {
								nw = "false"
							}
							add(fn, id.Pos(), "BOOL", off(id.Pos()), off(id.End()), nw)
						} else if id.Name != "nil" {
							swap(id, "IDRET")
						}
					}
				}
			}
			return true
		})
	}
	return out
}

// del proposes the deletion of one statement (replaced by an empty statement so
// that offsets and surrounding syntax stay valid).
func del(st ast.Stmt, fn string, src []byte, off func(token.Pos) int, add func(string, token.Pos, string, int, int, string)) {
	switch s := st.(type) {
	case *ast.ExprStmt, *ast.IncDecStmt, *ast.DeferStmt, *ast.GoStmt, *ast.SendStmt:
		add(fn, st.Pos(), "DEL", off(st.Pos()), off(st.End()), "")
	case *ast.AssignStmt:
		if s.Tok != token.DEFINE {
			add(fn, st.Pos(), "DEL", off(st.Pos()), off(st.End()), "")
		}
	case *ast.ReturnStmt:
		// an early `return` inside a block: dropping it lets the function fall through
		add(fn, st.Pos(), "DELRET", off(st.Pos()), off(st.End()), "")
	case *ast.BranchStmt:
		if s.Tok == token.CONTINUE {
			add(fn, st.Pos(), "CONT2BRK", off(st.Pos()), off(st.End()), "break")
		} else if s.Tok == token.BREAK && s.Label == nil {
			add(fn, st.Pos(), "BRK2CONT", off(st.Pos()), off(st.End()), "continue")
		}
	}
}
