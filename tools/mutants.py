#!/usr/bin/env python3
"""Mutant controls for the static checks.

  mutants.py gen                 regenerate /verif/mutants/*.patch from mutdefs.py against /repo's current tree
  mutants.py try [name ...]      apply each mutant to a scratch copy under /tmp, run the owning properties'
                                 quick checks on it and print which rules report (default: all)
  mutants.py test [name ...]     run `go test` of the touched packages on each mutant (do the existing tests pass?)

A definition is (name, expected rules, file, old text, new text); the old text
must occur exactly once in the file.  Patches carry `# expect:` headers which
the thorough tier of vcheck uses: every mutant whose expected rule a property
owns must be reported by that property's check.
"""
import sys, os, difflib, subprocess, tempfile, shutil, concurrent.futures, json

sys.path.insert(0, os.path.dirname(__file__))
import glob, importlib
from mutdefs import M
for _f in sorted(glob.glob(os.path.join(os.path.dirname(__file__), 'mutdefs_*.py'))):
    M.extend(importlib.import_module(os.path.basename(_f)[:-3]).M)

REPO = '/repo'
OUT = '/verif/mutants'
VCHECK = '/verif/bin/vcheck'


def gen():
    os.makedirs(OUT, exist_ok=True)
    keep = set()
    bad = 0
    for name, expect, path, old, new in M:
        src = open(os.path.join(REPO, path)).read()
        n = src.count(old)
        if n != 1:
            print(f"!! {name}: old text occurs {n} times in {path}")
            bad += 1
            continue
        dst = src.replace(old, new)
        diff = ''.join(difflib.unified_diff(src.splitlines(True), dst.splitlines(True), 'a/' + path, 'b/' + path))
        fn = f'{OUT}/{name}.patch'
        keep.add(fn)
        with open(fn, 'w') as f:
            f.write(f"# mutant: {name}\n# expect: {expect}\n")
            f.write(diff)
    for f in os.listdir(OUT):
        p = os.path.join(OUT, f)
        if f.endswith('.patch') and p not in keep:
            os.remove(p)
            print("removed stale", f)
    print(f"{len(keep)} patches written, {bad} definitions do not apply")
    return bad


def owners():
    out = subprocess.run([VCHECK, '-list-rules'], capture_output=True, text=True).stdout
    m = {}
    for line in out.splitlines():
        f = line.split()
        for r in f[1:]:
            m.setdefault(r, []).append(f[0])
    return m


def scratch(name):
    tmp = tempfile.mkdtemp(prefix='mut-')
    rdir = os.path.join(tmp, 'repo')
    subprocess.run(['rsync', '-a', '--exclude', '.git', '--exclude', 'bazel-*', REPO + '/', rdir + '/'], check=True)
    r = subprocess.run(['patch', '-p1', '-s', '--no-backup-if-mismatch', '-i', f'{OUT}/{name}.patch'], cwd=rdir, capture_output=True, text=True)
    if r.returncode != 0:
        shutil.rmtree(tmp)
        return None, None
    return tmp, rdir


def try_one(name, expect, own):
    tmp, rdir = scratch(name)
    if tmp is None:
        return name, expect, 'PATCH-FAILS', {}
    try:
        vtmp = os.path.join(tmp, 'verif')
        os.makedirs(vtmp)
        for f in ('known_findings.jsonl', 'properties.jsonl'):
            shutil.copy('/verif/' + f, vtmp)
        props = sorted({p for e in expect.split(',') for p in own.get(e.strip(), [])})
        res = {}
        status = 'SURVIVED'
        for p in props:
            out = subprocess.run([VCHECK, '-p', p, '-tier', 'quick', '-repo', rdir, '-verif', vtmp],
                                 capture_output=True, text=True, env=dict(os.environ, VCHECK_NO_CONTROLS='1')).stdout
            if 'type-check errors' in out:
                return name, expect, 'DOES-NOT-COMPILE', {}
            rules = []
            for l in out.splitlines():
                if l.startswith('  R') and '[' in l or l.startswith('  framework') or l.startswith('  anchor'):
                    f = l.split()
                    if len(f) < 2 or f[1].isdigit():
                        continue
                    rules.append(f[0] + ' ' + f[1])
            res[p] = rules
        exp = [e.strip() for e in expect.split(',')]
        hit_all = all(any(r.split()[0] in exp for r in res[p]) for p in props) and props
        hit_any = any(r.split()[0] in exp for p in props for r in res[p])
        any_report = any(res[p] for p in props)
        if hit_all:
            status = 'killed'
        elif hit_any:
            status = 'killed-partially'
        elif any_report:
            status = 'killed-by-other-rule'
        return name, expect, status, res
    finally:
        shutil.rmtree(tmp)


def select(names):
    defs = [(n, e) for n, e, _, _, _ in M]
    if names:
        defs = [d for d in defs if d[0] in names or any(d[0].startswith(x.rstrip('*')) for x in names if x.endswith('*'))]
    return defs


def try_(names):
    own = owners()
    defs = select(names)
    bad = 0
    with concurrent.futures.ThreadPoolExecutor(max_workers=8) as ex:
        for name, expect, status, res in ex.map(lambda d: try_one(d[0], d[1], own), defs):
            flag = '' if status == 'killed' else '   <<<<<<'
            print(f"{status:22s} {name:45s} expect {expect}{flag}")
            if status != 'killed':
                bad += 1
                for p, rules in res.items():
                    print(f"      {p}: {'; '.join(rules) or '-'}")
    print(f"{len(defs)} mutants, {bad} not cleanly killed")


def test_one(name):
    tmp, rdir = scratch(name)
    if tmp is None:
        return name, 'PATCH-FAILS'
    try:
        path = [p for n, _, p, _, _ in M if n == name][0]
        pkg = './' + os.path.dirname(path)
        env = dict(os.environ, GOFLAGS='-mod=mod', GOPROXY='off')
        r = subprocess.run(['go', 'test', '-vet=off', '-count=1', pkg, './server/', './cache/disk/'], cwd=rdir, capture_output=True, text=True, env=env)
        return name, 'tests-pass' if r.returncode == 0 else 'tests-FAIL'
    finally:
        shutil.rmtree(tmp)


def test(names):
    defs = select(names)
    res = {}
    with concurrent.futures.ThreadPoolExecutor(max_workers=4) as ex:
        for name, st in ex.map(lambda d: test_one(d[0]), defs):
            print(f"{st:12s} {name}")
            res[name] = st
    json.dump(res, open('/verif/mutants/TESTS.json', 'w'), indent=1, sort_keys=True)


if __name__ == '__main__':
    cmd = sys.argv[1] if len(sys.argv) > 1 else 'gen'
    if cmd == 'gen':
        sys.exit(1 if gen() else 0)
    elif cmd == 'try':
        try_(sys.argv[2:])
    elif cmd == 'test':
        test(sys.argv[2:])
