#!/bin/bash
# seedeval.sh <Cxx> [name]: take the seeded change a sub-agent left in /tmp/seed-<Cxx>,
# store it under /verif/seeded/<name>/ and report which checks catch it.
set -u
id=$1; name=${2:-$1}
wt=${WT:-/tmp/seed-$id}
out=/verif/seeded/$name
mkdir -p $out
if [ -d $wt ]; then
  cd $wt || exit 1
  git add -N . >/dev/null 2>&1
  git diff HEAD -- . ':!*_test.go' ':!SEED.md' ':!PROPERTY.txt' ':!*.sh' ':!seed_demo*' > $out/patch.diff
  git diff HEAD -- '*_test.go' 'seed_demo*' '*.sh' > $out/demo.diff
  cp -f SEED.md $out/SEED.md 2>/dev/null
fi
echo "== patch:"; grep -E '^(\+\+\+|---) ' $out/patch.diff
tmp=$(mktemp -d /tmp/seedeval-XXXX)
rsync -a --exclude .git /repo/ $tmp/repo/
mkdir -p $tmp/verif; cp /verif/known_findings.jsonl /verif/properties.jsonl $tmp/verif/
if ! (cd $tmp/repo && patch -p1 -s --no-backup-if-mismatch < $out/patch.diff); then echo "PATCH DOES NOT APPLY to current /repo"; rm -rf $tmp; exit 2; fi
echo "== checks on the seeded tree:"
VCHECK_NO_CONTROLS=1 /verif/bin/vcheck -p all -tier quick -repo $tmp/repo -verif $tmp/verif 2>&1 | python3 -c '
import sys,re
pend=[]
for l in sys.stdin:
    m=re.match(r"^  ((?:R\w+|framework|anchor)) (\S+) \[", l)
    if m and not m.group(2).isdigit():
        pend.append(m.group(1)+" "+m.group(2))
    m2=re.match(r"^(C\d+) tier=", l)
    if m2:
        for x in pend: print("   "+m2.group(1)+": "+x)
        pend=[]
' | tee $out/caught.txt
[ -s $out/caught.txt ] || echo "   (nothing reported)"
rm -rf $tmp
