# Mutants for the remaining rule families (config, authentication wiring, AC reads, deps, backend names)
M = []


def m(name, expect, path, old, new):
    M.append((name, expect, path, old, new))


CFG = 'config/config.go'
FLAGS = 'utils/flags/flags.go'
MAIN = 'main.go'
AC = 'server/grpc_ac.go'
HTTP = 'server/http.go'
DISK = 'cache/disk/disk.go'
S3 = 'cache/s3proxy/s3proxy.go'
GRPC = 'server/grpc.go'
LOAD = 'cache/disk/load.go'
VAL = 'utils/validate/action_result.go'
FM = 'cache/disk/findmissing.go'
CAS = 'server/grpc_cas.go'
CB = 'cache/disk/casblob/casblob.go'

# ---- C19 configuration
m('cfg-flag-wired-to-other-field', 'R19a', CFG,
  '		ctx.Int64("max_blob_size"),\n		ctx.Int64("max_proxy_blob_size"),',
  '		ctx.Int64("max_proxy_blob_size"),\n		ctx.Int64("max_blob_size"),')
m('cfg-wrong-accessor', 'R19b', CFG,
  '		ctx.Int("max_size_hard_limit"),',
  '		int(ctx.Duration("max_size_hard_limit")),')
m('cfg-yaml-default-differs', 'R19c', CFG,
  '			NumUploaders:           100,',
  '			NumUploaders:           10,')
m('cfg-flag-never-read', 'R19d', CFG,
  '		ctx.Bool("http_metrics_prefix"),',
  '		false,')
m('cfg-yaml-skips-validation', 'R19e', CFG,
  '''	err = validateConfig(&c)
	if err != nil {
		return nil, err
	}

	return &c, nil
}

func validateConfig''',
  '''	if c.Dir == "" {
		return nil, errors.New("the 'dir' flag/key is required")
	}

	return &c, nil
}

func validateConfig''')
m('cfg-maxsize-zero-accepted', 'R19f', CFG,
  '	if c.MaxSize <= 0 {',
  '	if c.MaxSize < 0 {')
m('cfg-unknown-storage-mode-accepted', 'R19f', CFG,
  '	if c.StorageMode != "zstd" && c.StorageMode != "uncompressed" {',
  '	if c.StorageMode == "" {')
m('cfg-maxblobsize-nonpositive-accepted', 'R19f', CFG,
  '	if c.MaxBlobSize <= 0 {',
  '	if c.MaxBlobSize < 0 {')
m('cfg-yaml-profile-none-kept', 'R19g', CFG,
  '''	} else if c.ProfileAddress == "none" {
		c.ProfileAddress = ""
	}''',
  '''	}''')
# ---- C13 wiring
m('auth-grpc-mtls-interceptor-only-unary', 'R13e', MAIN,
  '''			streamInterceptors = append(streamInterceptors,
				server.GRPCmTLSStreamServerInterceptor(c.AllowUnauthenticatedReads))
			unaryInterceptors = append(unaryInterceptors,''',
  '''			unaryInterceptors = append(unaryInterceptors,''')
m('auth-grpc-basic-ignores-flag', 'R13e', MAIN,
  '		gba := server.NewGrpcBasicAuth(htpasswdSecrets, c.AllowUnauthenticatedReads)',
  '		gba := server.NewGrpcBasicAuth(htpasswdSecrets, true)')
m('auth-http-read-cert-ignores-flag', 'R13f', MAIN,
  '	checkClientCertForReads := c.TLSCaFile != "" && !c.AllowUnauthenticatedReads',
  '	checkClientCertForReads := c.TLSCaFile != "" && c.AllowUnauthenticatedReads')
m('auth-fetch-registered-unconditionally-readonly', 'R13b,R13c', GRPC,
  '	"/build.bazel.remote.execution.v2.ContentAddressableStorage/FindMissingBlobs": {},',
  '	"/build.bazel.remote.execution.v2.ContentAddressableStorage/FindMissingBlobs": {},\n	"/build.bazel.remote.asset.v1.Fetch/FetchBlob":                               {},')
# ---- C06 / C11 action cache reads
m('ac-get-nodeps-unvalidated', 'R11b', AC,
  '''		err = validate.ActionResult(result)
		if err != nil {
			s.accessLogger.Printf("%s %s %s", logPrefix, req.ActionDigest.Hash, err)
			return nil, status.Error(codes.Internal, err.Error())
		}

		s.accessLogger.Printf("%s %s OK", logPrefix, req.ActionDigest.Hash)''',
  '''		s.accessLogger.Printf("%s %s OK", logPrefix, req.ActionDigest.Hash)''')
m('ac-get-nil-result-is-hit', 'R06c', AC,
  '''	if result == nil {
		s.accessLogger.Printf("%s %s NOT FOUND", logPrefix, req.ActionDigest.Hash)
		return nil, status.Error(codes.NotFound,
			fmt.Sprintf("%s not found in AC", req.ActionDigest.Hash))
	}
''',
  '''	if result == nil {
		s.accessLogger.Printf("%s %s NOT FOUND", logPrefix, req.ActionDigest.Hash)
		result = &pb.ActionResult{}
	}
''')
m('ac-http-head-nil-data-ok', 'R06c', HTTP,
  '''	if data == nil {
		http.Error(w, "Not found", http.StatusNotFound)
		h.logResponse(http.StatusNotFound, r)
		return
	}

	w.Header().Set("Content-Length", strconv.FormatInt(int64(len(data)), 10))
	w.WriteHeader(http.StatusOK)''',
  '''	w.Header().Set("Content-Length", strconv.FormatInt(int64(len(data)), 10))
	w.WriteHeader(http.StatusOK)''')
m('deps-stderr-not-checked', 'R06a', DISK,
  '''	if result.StderrDigest != nil {
		pendingValidations = append(pendingValidations, result.StderrDigest)
	}

''',
  '''''')
m('deps-tree-children-not-checked', 'R06a', DISK,
  '''		for _, child := range tree.GetChildren() {
			for _, f := range child.GetFiles() {
				if f.Digest != nil {
					pendingValidations = append(pendingValidations, f.Digest)
				}
			}
		}
''',
  '''''')
m('deps-missing-blob-is-hit', 'R06b', DISK,
  '''	if errors.Is(err, errMissingBlob) {
		return nil, nil, nil // aka "not found"
	}
	if err != nil {
		return nil, nil, err
	}

	return result, acdata, nil''',
  '''	if err != nil && !errors.Is(err, errMissingBlob) {
		return nil, nil, err
	}

	return result, acdata, nil''')
m('deps-check-not-failfast', 'R06b', DISK,
  '	err = c.findMissingCasBlobsInternal(ctx, pendingValidations, true)',
  '	err = c.findMissingCasBlobsInternal(ctx, pendingValidations, false)')
m('deps-grpc-nodeps-when-enabled', 'R06e', AC,
  '	if !s.depsCheck {\n		logPrefix = "GRPC AC GET NODEPSCHECK"',
  '	if !s.depsCheck || req.InlineStdout {\n		logPrefix = "GRPC AC GET NODEPSCHECK"')
m('deps-worker-miss-not-signalled', 'R06d', FM,
  '''			if req.onProxyMiss != nil {
				req.onProxyMiss()
			}''',
  '''			if req.onProxyMiss != nil && !ok {
				req.onProxyMiss()
			}''')
m('validator-stdout-unchecked', 'R11c', VAL,
  '''	err = maybeNilDigest(ar.StdoutDigest)
	if err != nil {
		return fmt.Errorf("invalid StdoutDigest: %w", err)
	}
''',
  '''''')
m('validator-negative-size-ok', 'R11c', VAL,
  '	if d.SizeBytes < 0 {\n		return errNegativeDigest\n	}',
  '	if d.SizeBytes < -1 {\n		return errNegativeDigest\n	}')
# ---- who may index, labels, names, fatal, nil list
m('lru-add-from-contains', 'R01b', DISK,
  '''	if exists && !isSizeMismatch(size, foundSize) {
		return true, foundSize
	}
''',
  '''	if exists && !isSizeMismatch(size, foundSize) {
		return true, foundSize
	}
	if exists && size > 0 {
		c.mu.Lock()
		c.lru.Add(key, lruItem{size: size, sizeOnDisk: size})
		c.mu.Unlock()
	}
''')
m('read-label-zstd-on-identity-data', 'R02c', CAS,
  '	r.Compressor = pb.Compressor_IDENTITY',
  '	r.Compressor = pb.Compressor_ZSTD')
m('s3-key-v2-for-ac', 'R12g', S3,
  '	if kind == cache.CAS {\n		// Use "cas.v2" to distinguish new from old format blobs.',
  '	if kind != cache.RAW {\n		// Use "cas.v2" to distinguish new from old format blobs.')
m('fatal-on-request-path', 'R14g', DISK,
  '				log.Printf("warning: failed to remove temp file: %q", blobFile)\n			}\n		}\n\n		if unreserve {\n			c.mu.Lock()\n			err := c.lru.Unreserve(size)\n			if err != nil {\n				// Set named return value.\n				rErr = internalErr(err)\n				log.Println(rErr.Error())\n			}\n			c.mu.Unlock()\n		}\n	}()\n\n	if size > 0 {',
  '				log.Fatalf("warning: failed to remove temp file: %q", blobFile)\n			}\n		}\n\n		if unreserve {\n			c.mu.Lock()\n			err := c.lru.Unreserve(size)\n			if err != nil {\n				// Set named return value.\n				rErr = internalErr(err)\n				log.Println(rErr.Error())\n			}\n			c.mu.Unlock()\n		}\n	}()\n\n	if size > 0 {')
m('deps-nil-digest-appended', 'R14h', DISK,
  '''		for _, f := range tree.Root.GetFiles() {
			if f.Digest != nil {
				pendingValidations = append(pendingValidations, f.Digest)
			}
		}''',
  '''		for _, f := range tree.Root.GetFiles() {
			pendingValidations = append(pendingValidations, f.Digest)
		}''')
m('reader-early-end-size-test', 'R02e', CB,
  '''	if chunkNum == int64(len(h.chunkOffsets)-2) {
		// Last chunk in the file.''',
  '''	if offset+int64(len(uncompressedFirstChunk)) >= h.uncompressedSize {
		// Last chunk in the file.''')
m('fatal-in-eviction-callback', 'R14g', DISK,
  '		log.Printf("ERROR: failed to remove evicted cache file: %s", f)',
  '		log.Fatalf("ERROR: failed to remove evicted cache file: %s", f)')
m('inplace-truncate-on-error', 'R07g', DISK,
  '''	if isSizeMismatch(sizeOnDisk, size) {
		return -1, fmt.Errorf(
			"sizes don't match. Expected %d, found %d", size, sizeOnDisk)
	}
''',
  '''	if isSizeMismatch(sizeOnDisk, size) {
		_ = f.Truncate(0)
		return -1, fmt.Errorf(
			"sizes don't match. Expected %d, found %d", size, sizeOnDisk)
	}
''')
m('tempfile-not-exclusive', 'R07g', 'utils/tempfile/tempfile.go',
  'const flags = os.O_RDWR | os.O_CREATE | os.O_EXCL',
  'const flags = os.O_RDWR | os.O_CREATE | os.O_TRUNC')
m('serve-compressed-without-header-check', 'R08d', CB,
  '''func GetUncompressedReadCloser(zstd zstdimpl.ZstdImpl, f *os.File, expectedSize int64, offset int64) (io.ReadCloser, error) {
	h, err := readHeader(f)
	if err != nil {
		_ = f.Close()
		return nil, err
	}''',
  '''func GetUncompressedReadCloser(zstd zstdimpl.ZstdImpl, f *os.File, expectedSize int64, offset int64) (io.ReadCloser, error) {
	h, err := readHeader(f)
	if err != nil && offset > 0 {
		_ = f.Close()
		return nil, err
	}
	if h == nil {
		return f, nil
	}''')
m('serve-compressed-file-directly', 'R08e', DISK,
  '''					// The file is compressed.
					if zstd {
						rc, err = casblob.GetZstdReadCloser(c.zstd, f, size, offset)''',
  '''					// The file is compressed.
					if zstd && offset == 0 {
						rc = f
					} else if zstd {
						rc, err = casblob.GetZstdReadCloser(c.zstd, f, size, offset)''')
# ---- rules from the second seeded round
m('uar-inlined-put-skipped-when-present', 'R01i', AC,
  '''			err = s.cache.Put(ctx, cache.CAS, f.Digest.Hash,
				f.Digest.SizeBytes, bytes.NewReader(f.Contents))''',
  '''			if found, _ := s.cache.Contains(ctx, cache.CAS, f.Digest.Hash, f.Digest.SizeBytes); found {
				continue
			}

			err = s.cache.Put(ctx, cache.CAS, f.Digest.Hash,
				f.Digest.SizeBytes, bytes.NewReader(f.Contents))''')
m('uar-stderr-not-stored', 'R01i', AC,
  '''		err = s.cache.Put(ctx, cache.CAS, hash, sizeBytes,
			bytes.NewReader(req.ActionResult.StderrRaw))''',
  '''		if sizeBytes > s.maxCasBlobSizeBytes {
			hash = ""
		} else {
			err = s.cache.Put(ctx, cache.CAS, hash, sizeBytes,
				bytes.NewReader(req.ActionResult.StderrRaw))
		}''')
m('path-from-request-size', 'R04f', DISK,
  '					blobPath = path.Join(c.dir, c.FileLocation(kind, item.legacy, hash, item.size, item.random))',
  '					blobPath = path.Join(c.dir, c.FileLocation(kind, item.legacy, hash, size, item.random))')
m('failfast-flag-not-reread', 'R06f', FM,
  '''			if cancelledDueToFailFast.Load() {
				return errMissingBlob
			}
		}
	}

	return nil''',
  '''		}
	}

	return nil''')
m('empty-ac-entry-is-hit', 'R06g', DISK,
  '	if rc == nil || sizeBytes <= 0 {\n		return nil, nil, nil // aka "not found"',
  '	if rc == nil || sizeBytes < 0 {\n		return nil, nil, nil // aka "not found"')
m('worker-no-done-on-cancel', 'R14i', FM,
  '''				c.accessLogger.Printf("GRPC CAS HEAD %s CANCELLED", (*req.digest).Hash)
				req.wg.Done()
				continue''',
  '''				c.accessLogger.Printf("GRPC CAS HEAD %s CANCELLED", (*req.digest).Hash)
				continue''')
m('s3-prefix-concatenated', 'R20f', S3,
  '	return path.Join(prefix, baseKey)\n}',
  '	return prefix + "/" + baseKey\n}')
m('lostfound-wrong-level', 'R09e', LOAD,
  '			if name2 == lostAndFound {',
  '			if name == lostAndFound {')
m('worker-metadata-always-replaced', 'R11e', AC,
  '''	if ar.ExecutionMetadata == nil {
		ar.ExecutionMetadata = &pb.ExecutedActionMetadata{}
	} else if ar.ExecutionMetadata.Worker != "" {
		return
	}

	p, ok := peer.FromContext(ctx)''',
  '''	if ar.ExecutionMetadata.GetWorker() != "" {
		return
	}
	ar.ExecutionMetadata = &pb.ExecutedActionMetadata{}

	p, ok := peer.FromContext(ctx)''')
m('fm-batch-loop-break', 'R10c', FM,
  '''		numMissing := c.findMissingLocalCAS(chunk)
		if numMissing == 0 {
			continue
		}''',
  '''		numMissing := c.findMissingLocalCAS(chunk)
		if numMissing == 0 {
			break
		}''')

# ---- round 3 of seeded changes: new obligations ----
m('put-gives-up-reader-on-reserve-failure', 'R14j', 'cache/disk/disk.go',
  '''		err := c.lru.Reserve(size)
		if err != nil {
			c.mu.Unlock()
			return err
		}''',
  '''		err := c.lru.Reserve(size)
		if err != nil {
			c.mu.Unlock()
			r = nil
			return err
		}''')
m('put-gives-up-reader-before-write', 'R14j', 'cache/disk/disk.go',
  '''	blobFile = tf.Name()
	removeTempfile = true
''',
  '''	blobFile = tf.Name()
	removeTempfile = true
	rr := r
	r = nil
	_ = rr
''')
m('writefile-limits-reader', 'R01c', 'cache/disk/disk.go',
  '''	var err error
	var sizeOnDisk int64

	if kind == cache.CAS && c.storageMode != casblob.Identity {''',
  '''	var err error
	var sizeOnDisk int64

	r = io.LimitReader(r, size)
	if kind == cache.CAS && c.storageMode != casblob.Identity {''')
m('http-url-grammar-on-cleaned-path', 'R15d', 'server/http.go',
  '''	m := blobNameSHA256.FindStringSubmatch(url)''',
  '''	m := blobNameSHA256.FindStringSubmatch(strings.ToLower(url))''')
m('http-instance-keeps-slash', 'R15d', 'server/http.go',
  '''	instance = strings.TrimSuffix(m[1], "/")''',
  '''	instance = m[1]''')
m('yaml-profile-none-before-port-form', 'R19g', 'config/config.go',
  '''	if c.ProfileAddress == "" && yc.ProfilePort > 0 {
		c.ProfileAddress = net.JoinHostPort(yc.ProfileHost, strconv.Itoa(yc.ProfilePort))
	} else if c.ProfileAddress == "none" {
		c.ProfileAddress = ""
	}''',
  '''	if c.ProfileAddress == "none" {
		c.ProfileAddress = ""
	}
	if c.ProfileAddress == "" && yc.ProfilePort > 0 {
		c.ProfileAddress = net.JoinHostPort(yc.ProfileHost, strconv.Itoa(yc.ProfilePort))
	}''')
m('put-drain-only-on-success', 'R14e', 'cache/disk/disk.go',
  '''	defer func() {
		if r != nil {
			_, _ = io.Copy(io.Discard, r)
		}
	}()

	if size < 0 {''',
  '''	defer func() {
		if r != nil && rErr == nil {
			_, _ = io.Copy(io.Discard, r)
		}
	}()

	if size < 0 {''')
m('put-empty-shortcut-any-kind', 'R01a', 'cache/disk/disk.go',
  '''	if kind == cache.CAS && size == 0 && hash == emptySha256 {
		return nil
	}

	// Put requests are processed''',
  '''	if size == 0 && hash == emptySha256 {
		return nil
	}

	// Put requests are processed''')
m('put-empty-shortcut-any-size', 'R01a', 'cache/disk/disk.go',
  '''	if kind == cache.CAS && size == 0 && hash == emptySha256 {
		return nil
	}

	// Put requests are processed''',
  '''	if kind == cache.CAS && hash == emptySha256 {
		return nil
	}

	// Put requests are processed''')
m('contains-no-hash-length-check', 'R15e', 'cache/disk/disk.go',
  '''	if len(hash) != sha256HashStrSize {
		return false, -1
	}

	if kind == cache.CAS && size <= 0 && hash == emptySha256 {
		return true, 0
	}
''',
  '''	if kind == cache.CAS && size <= 0 && hash == emptySha256 {
		return true, 0
	}
''')
m('put-hash-length-after-key', 'R15e', 'cache/disk/disk.go',
  '''	if len(hash) != sha256HashStrSize {
		return badReqErr("Invalid hash size: %d, expected: %d", len(hash), sha256.Size)
	}

	if kind == cache.CAS && size == 0 && hash == emptySha256 {
		return nil
	}
''',
  '''	if kind == cache.CAS && size == 0 && hash == emptySha256 {
		return nil
	}
	_ = cache.LookupKey(kind, hash)
	if len(hash) != sha256HashStrSize {
		return badReqErr("Invalid hash size: %d, expected: %d", len(hash), sha256.Size)
	}
''')
m('verifier-counts-requested-bytes', 'R01e', 'utils/sha256verifier/sha256verifier.go',
  '''	if n > 0 {
		s.actualSize += int64(n)
	}''',
  '''	if n > 0 {
		s.actualSize += int64(len(p))
	}''')
m('verifier-closes-before-hash-compare', 'R01e', 'utils/sha256verifier/sha256verifier.go',
  '''	actualHash := hex.EncodeToString(s.Sum(nil))
	if actualHash != s.expectedHash {
		return fmt.Errorf("error: expected hash %s, got %s", s.expectedHash, actualHash)
	}

	err := s.originalWriteCloser.Close()
	if err != nil {
		return err
	}
''',
  '''	err := s.originalWriteCloser.Close()
	if err != nil {
		return err
	}

	actualHash := hex.EncodeToString(s.Sum(nil))
	if actualHash != s.expectedHash {
		return fmt.Errorf("error: expected hash %s, got %s", s.expectedHash, actualHash)
	}
''')
m('verifier-file-bypasses-hash', 'R01e', 'utils/sha256verifier/sha256verifier.go',
  '''		multiWriter:         io.MultiWriter(hash, writeCloser),''',
  '''		multiWriter:         io.MultiWriter(writeCloser, writeCloser),''')
m('avail-slow-path-keeps-fileless-entry', 'R04h', 'cache/disk/disk.go',
  '''					f, err = os.Open(blobPath)
					if err != nil {
						// We will log the error below, while not holding the lock.
						c.lru.RemoveElement(listElem)
					}''',
  '''					f, err = os.Open(blobPath)''')
m('avail-uses-file-after-failed-open', 'R14k', 'cache/disk/disk.go',
  '''			if err != nil {
				// Race condition, was the item purged after we released the lock?
				log.Printf("Warning: expected %q to exist on disk (fast path: %t), undersized cache? Last reported error: %v", blobPath, fastPath, err)
			} else if kind == cache.CAS {''',
  '''			if err != nil {
				// Race condition, was the item purged after we released the lock?
				log.Printf("Warning: expected %q to exist on disk (fast path: %t), undersized cache? Last reported error: %v", blobPath, fastPath, err)
			}
			if kind == cache.CAS {''')
m('get-uses-reopened-file-after-error', 'R14k', 'cache/disk/disk.go',
  '''	rcf, err := os.Open(blobFile)
	if err != nil {
		return nil, -1, internalErr(err)
	}
''',
  '''	rcf, err := os.Open(blobFile)
	if err != nil {
		log.Println(err)
	}
''')
m('validator-treedigest-nil-accepted', 'R14a', 'utils/validate/action_result.go',
  '''		if d.TreeDigest == nil {
			return fmt.Errorf("nil tree digest pointer for output directory: %q", d.Path)
		}
''',
  '''''')
