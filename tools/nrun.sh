#!/bin/bash
# nrun.sh <name> [props]: run checks (default all) on the scratch copy of /repo with neutral/<name>.diff applied.
# Copies live under /tmp/neutral/<name>/ and are rebuilt when missing (nrun.sh --prepare rebuilds all).
prep() {
  n=$1; d=/tmp/neutral/$n
  rm -rf $d; mkdir -p $d/verif
  rsync -a --exclude .git /repo/ $d/repo/
  cp /verif/known_findings.jsonl /verif/properties.jsonl $d/verif/
  (cd $d/repo && patch -p1 -s --no-backup-if-mismatch < /verif/neutral/$n.diff) || echo "$n: PATCH FAILS"
}
if [ "$1" = "--prepare" ]; then for f in /verif/neutral/*.diff; do prep $(basename $f .diff); done; exit; fi
n=$1; props=${2:-all}
[ -d /tmp/neutral/$n/repo ] || prep $n
cp /verif/known_findings.jsonl /tmp/neutral/$n/verif/
VCHECK_NO_CONTROLS=1 /verif/bin/vcheck -p $props -tier quick -repo /tmp/neutral/$n/repo -verif /tmp/neutral/$n/verif 2>&1 | python3 -c '
import sys,re
pend=[]
for l in sys.stdin:
    m=re.match(r"^  ((?:R\w+|framework|anchor)) (\S+) \[([^\]]*)\] (.*)", l)
    if m and not m.group(2).isdigit():
        pend.append(m.group(1)+" "+m.group(2)+" ["+m.group(3)+"]")
        continue
    m3=re.match(r"^      (\S.*)", l)
    if m3 and pend and not pend[-1].endswith("|"): pend[-1]+="\n        why: "+m3.group(1)[:300]+" |"
    m2=re.match(r"^(C\d+) tier=", l)
    if m2:
        for x in pend: print("   "+m2.group(1)+": "+x)
        pend=[]
'
