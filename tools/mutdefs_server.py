# Mutants of package server (gRPC / HTTP front ends)
M = []


def m(name, expect, path, old, new):
    M.append((name, expect, path, old, new))


CAS = 'server/grpc_cas.go'
AC = 'server/grpc_ac.go'
BS = 'server/grpc_bytestream.go'
HTTP = 'server/http.go'
GRPC = 'server/grpc.go'

# ---- BatchUpdateBlobs / FindMissingBlobs
m('srv-batch-size-from-data', 'R01f', CAS,
  '''		err = s.cache.Put(ctx, cache.CAS, req.Digest.Hash,
			req.Digest.SizeBytes, bytes.NewReader(req.Data))''',
  '''		err = s.cache.Put(ctx, cache.CAS, req.Digest.Hash,
			int64(len(req.Data)), bytes.NewReader(req.Data))''')
m('srv-batch-unsupported-compressor-ok', 'R01h', CAS,
  '''			rr.Status.Code = int32(codes.InvalidArgument)
			continue''',
  '''			rr.Status.Code = int32(gRPCErrCode(err, codes.InvalidArgument))
			continue''')
m('srv-batch-put-error-ignored', 'R01h', CAS,
  '''		if err != nil && err != io.EOF {
			s.logErrorPrintf(err, "%s %s %s", errorPrefix, req.Digest.Hash, err)
			rr.Status.Code = int32(gRPCErrCode(err, codes.Internal))
			continue
		}''',
  '''		if err != nil && err != io.EOF {
			s.logErrorPrintf(err, "%s %s %s", errorPrefix, req.Digest.Hash, err)
		}''')
m('srv-batch-no-hash-validation', 'R15e', CAS,
  '''		err := s.validateHash(req.Digest.Hash, req.Digest.SizeBytes, errorPrefix)
		if err != nil {
			return nil, err
		}

		rr := pb.BatchUpdateBlobsResponse_Response{''',
  '''		var err error

		rr := pb.BatchUpdateBlobsResponse_Response{''')
m('srv-batch-nil-digest-unchecked', 'R14a', CAS,
  '''		if req.Digest == nil {
			return nil, errNilDigest
		}

		err := s.validateHash(req.Digest.Hash, req.Digest.SizeBytes, errorPrefix)''',
  '''		err := s.validateHash(req.Digest.Hash, req.Digest.SizeBytes, errorPrefix)''')
m('srv-findmissing-unvalidated', 'R10g', CAS,
  '''		err := s.validateHash(digest.Hash, digest.SizeBytes, errorPrefix)
		if err != nil {
			return nil, err
		}
	}

	missingBlobs, err''',
  '''		if digest.SizeBytes < 0 {
			return nil, errNilDigest
		}
		_ = errorPrefix
	}

	missingBlobs, err''')
m('srv-findmissing-returns-request', 'R10g', CAS,
  '	return &pb.FindMissingBlobsResponse{MissingBlobDigests: missingBlobs}, nil',
  '	_ = missingBlobs\n	return &pb.FindMissingBlobsResponse{MissingBlobDigests: req.BlobDigests}, nil')
# ---- UpdateActionResult
m('srv-uar-no-validation', 'R11a', AC,
  '''	err = validate.ActionResult(req.ActionResult)
	if err != nil {
		return nil, err
	}

	// Ensure that the serialized ActionResult has non-zero length.''',
  '''	if req.ActionResult == nil {
		return nil, errNilActionDigest
	}

	// Ensure that the serialized ActionResult has non-zero length.''')
m('srv-uar-ac-put-first', 'R11d', AC,
  '''	// Cache any inlined blobs, separately in the CAS, before storing the
	// ActionResult itself''',
  '''	err = s.cache.Put(ctx, cache.AC, req.ActionDigest.Hash,
		int64(len(data)), bytes.NewReader(data))
	if err != nil && err != io.EOF {
		return nil, status.Error(gRPCErrCode(err, codes.Internal), err.Error())
	}

	// Cache any inlined blobs, separately in the CAS, before storing the
	// ActionResult itself''')
m('srv-uar-no-mangling', 'R15d', AC,
  '''	if req.ActionDigest == nil {
		return nil, errNilActionDigest
	}

	if s.mangleACKeys {
		req.ActionDigest.Hash = cache.TransformActionCacheKey(req.ActionDigest.Hash, req.InstanceName, s.accessLogger)
	}

	err := s.validateHash(req.ActionDigest.Hash, req.ActionDigest.SizeBytes, logPrefix)
	if err != nil {
		return nil, err
	}

	// Validate the ActionResult's immediate fields''',
  '''	if req.ActionDigest == nil {
		return nil, errNilActionDigest
	}

	err := s.validateHash(req.ActionDigest.Hash, req.ActionDigest.SizeBytes, logPrefix)
	if err != nil {
		return nil, err
	}

	// Validate the ActionResult's immediate fields''')
m('srv-uar-inlined-declared-hash-computed-size', 'R01f', AC,
  '''			err = s.cache.Put(ctx, cache.CAS, f.Digest.Hash,
				f.Digest.SizeBytes, bytes.NewReader(f.Contents))''',
  '''			err = s.cache.Put(ctx, cache.CAS, f.Digest.Hash,
				int64(len(f.Contents)), bytes.NewReader(f.Contents))''')
m('srv-uar-stdout-put-error-ignored', 'R01h', AC,
  '''		err = s.cache.Put(ctx, cache.CAS, hash, sizeBytes,
			bytes.NewReader(req.ActionResult.StdoutRaw))
		if err != nil && err != io.EOF {
			s.logErrorPrintf(err, "%s %s %s", logPrefix, req.ActionDigest.Hash, err)
			code := gRPCErrCode(err, codes.Internal)
			return nil, status.Error(code, err.Error())
		}''',
  '''		err = s.cache.Put(ctx, cache.CAS, hash, sizeBytes,
			bytes.NewReader(req.ActionResult.StdoutRaw))
		if err != nil && err != io.EOF {
			s.logErrorPrintf(err, "%s %s %s", logPrefix, req.ActionDigest.Hash, err)
		}''')
m('srv-uar-wrong-kind', 'R15c', AC,
  '''	err = s.cache.Put(ctx, cache.AC, req.ActionDigest.Hash,
		int64(len(data)), bytes.NewReader(data))''',
  '''	err = s.cache.Put(ctx, cache.RAW, req.ActionDigest.Hash,
		int64(len(data)), bytes.NewReader(data))''')
m('srv-worker-metadata-overwrites-result', 'R11e', AC,
  'func addWorkerMetadataGRPC(ctx context.Context, ar *pb.ActionResult) {\n',
  'func addWorkerMetadataGRPC(ctx context.Context, ar *pb.ActionResult) {\n	ar.ExitCode = 0\n')
# ---- HTTP
m('http-put-limit-nonstrict', 'R18b', HTTP,
  '		if contentLength > h.maxCasBlobSizeBytes {',
  '		if contentLength >= h.maxCasBlobSizeBytes {')
m('http-put-reader-limited', 'R01g', HTTP,
  '			rdr = rc\n		}\n\n		err := h.cache.Put(',
  '			rdr = io.LimitReader(rc, contentLength)\n		}\n\n		err := h.cache.Put(')
m('http-put-ac-unvalidated-json', 'R11a', HTTP,
  '''			err = validate.ActionResult(ar)
			if err != nil {
				msg := "Failed to marshal ActionResult: " + err.Error()
				http.Error(w, msg, http.StatusBadRequest)
				h.errorLogger.Printf("PUT %s: %s", path(kind, hash), msg)
				return
			}
''',
  '''			if err = validate.ActionResult(ar); err != nil && !strings.Contains(r.Header.Get("Content-Type"), "json") {
				msg := "Failed to marshal ActionResult: " + err.Error()
				http.Error(w, msg, http.StatusBadRequest)
				h.errorLogger.Printf("PUT %s: %s", path(kind, hash), msg)
				return
			}
''')
m('http-get-zstd-any-kind', 'R15b', HTTP,
  '		if kind == cache.CAS && strings.Contains(r.Header.Get("Accept-Encoding"), "zstd") {',
  '		if strings.Contains(r.Header.Get("Accept-Encoding"), "zstd") {')
m('http-put-write-cert-only-cas', 'R13g', HTTP,
  '		if h.checkClientCertForWrites && !h.hasValidClientCert(w, r) {',
  '		if h.checkClientCertForWrites && kind == cache.CAS && !h.hasValidClientCert(w, r) {')
m('http-status-wrong-field', 'R03f', HTTP,
  '		UncompressedSize: uncompressedSize,\n		ReservedSize:     reservedSize,',
  '		UncompressedSize: reservedSize,\n		ReservedSize:     uncompressedSize,')
# ---- grpc.go
m('grpc-capabilities-other-limit', 'R18c', GRPC,
  'MaxCasBlobSizeBytes:             s.maxCasBlobSizeBytes,',
  'MaxCasBlobSizeBytes:             s.maxCasBlobSizeBytes * 2,')
m('grpc-mtls-allows-all-when-reads-open', 'R13d', GRPC,
  '''		err := checkGRPCClientCert(ctx)
		if err != nil {
			return nil, err
		}

		return handler(ctx, req)
	}
}''',
  '''		err := checkGRPCClientCert(ctx)
		if err != nil && !allowUnauthenticatedReads {
			return nil, err
		}

		return handler(ctx, req)
	}
}''')
m('grpc-readonly-table-has-write', 'R13c', GRPC,
  '	"/build.bazel.remote.execution.v2.ContentAddressableStorage/FindMissingBlobs": {},',
  '	"/build.bazel.remote.execution.v2.ContentAddressableStorage/FindMissingBlobs": {},\n	"/build.bazel.remote.execution.v2.ContentAddressableStorage/BatchUpdateBlobs": {},')

# ---- R17d: status mapping ----
m('splice-put-error-unknown', 'R17d', 'server/grpc_cas.go',
  '''		return nil, grpc_status.Errorf(gRPCErrCode(err, codes.Unknown),
			"Failed to splice blob %s/%d: %s",''',
  '''		return nil, grpc_status.Errorf(codes.Unknown,
			"Failed to splice blob %s/%d: %s",''')
m('fetchblob-cache-error-not-translated', 'R17d', 'server/grpc_asset.go',
  '''		if gRPCErrCode(err, codes.Unknown) == codes.ResourceExhausted {''',
  '''		if translateGRPCErrCodeFromClient(err) == codes.ResourceExhausted {''')
m('errcode-507-internal', 'R17d', 'server/grpc.go',
  '''		case http.StatusInsufficientStorage:
			return codes.ResourceExhausted''',
  '''		case http.StatusInsufficientStorage:
			return codes.Internal''')
m('errcode-400-dropped', 'R17d', 'server/grpc.go',
  '''		case http.StatusBadRequest:
			return codes.InvalidArgument
''',
  '''''')
m('http-put-cache-error-as-500', 'R17d', 'server/http.go',
  '''				msg = cerr.Text
				http.Error(w, msg, cerr.Code)''',
  '''				msg = cerr.Text
				http.Error(w, msg, http.StatusInternalServerError)''')
m('write-put-error-internal', 'R17d', 'server/grpc_bytestream.go',
  '''		msg := fmt.Sprintf("GRPC BYTESTREAM WRITE FAILED: %s Cache Put failed: %v", resourceName, err)
		s.accessLogger.Printf(msg)
		code := gRPCErrCode(err, codes.Internal)''',
  '''		msg := fmt.Sprintf("GRPC BYTESTREAM WRITE FAILED: %s Cache Put failed: %v", resourceName, err)
		s.accessLogger.Printf(msg)
		code := codes.Internal''')
m('update-ac-stdout-put-error-internal', 'R17d', 'server/grpc_ac.go',
  '''		err = s.cache.Put(ctx, cache.CAS, hash, sizeBytes,
			bytes.NewReader(req.ActionResult.StdoutRaw))
		if err != nil && err != io.EOF {
			s.logErrorPrintf(err, "%s %s %s", logPrefix, req.ActionDigest.Hash, err)
			code := gRPCErrCode(err, codes.Internal)''',
  '''		err = s.cache.Put(ctx, cache.CAS, hash, sizeBytes,
			bytes.NewReader(req.ActionResult.StdoutRaw))
		if err != nil && err != io.EOF {
			s.logErrorPrintf(err, "%s %s %s", logPrefix, req.ActionDigest.Hash, err)
			code := codes.Internal''')
