package main

// E5: linear-form normaliser. Integer expressions are normalised to
// sum(coeff * atom) + const over atoms that are terms, roundUp4k(term) or
// opaque sub-expressions. Forms are compared as canonical strings.

import (
	"fmt"
	"go/ast"
	"go/token"
	"go/types"
	"sort"
	"strconv"
	"strings"
)

type Lin struct {
	T map[string]int64
	C int64
}

func linConst(c int64) Lin  { return Lin{T: map[string]int64{}, C: c} }
func linAtom(a string) Lin  { return Lin{T: map[string]int64{a: 1}} }
func (l Lin) clone() Lin {
	m := make(map[string]int64, len(l.T))
	for k, v := range l.T {
		m[k] = v
	}
	return Lin{T: m, C: l.C}
}

func (l Lin) Add(o Lin, sign int64) Lin {
	r := l.clone()
	for k, v := range o.T {
		r.T[k] += sign * v
		if r.T[k] == 0 {
			delete(r.T, k)
		}
	}
	r.C += sign * o.C
	return r
}

func (l Lin) String() string {
	ks := make([]string, 0, len(l.T))
	for k := range l.T {
		ks = append(ks, k)
	}
	sort.Strings(ks)
	var parts []string
	for _, k := range ks {
		parts = append(parts, fmt.Sprintf("%d*%s", l.T[k], k))
	}
	if l.C != 0 || len(parts) == 0 {
		parts = append(parts, strconv.FormatInt(l.C, 10))
	}
	return strings.Join(parts, " + ")
}

func parseLin(s string) Lin {
	l := linConst(0)
	if s == "" {
		return l
	}
	for _, p := range strings.Split(s, " + ") {
		if i := strings.Index(p, "*"); i > 0 {
			if c, err := strconv.ParseInt(p[:i], 10, 64); err == nil {
				l.T[p[i+1:]] += c
				continue
			}
		}
		if c, err := strconv.ParseInt(p, 10, 64); err == nil {
			l.C += c
		}
	}
	return l
}

// single returns the atom if l is exactly 1*atom.
func (l Lin) single() (string, bool) {
	if l.C != 0 || len(l.T) != 1 {
		return "", false
	}
	for k, v := range l.T {
		if v == 1 {
			return k, true
		}
	}
	return "", false
}

// LinEval normalises integer expression e in state s.
func (b *Base) LinEval(x *Exec, e ast.Expr, s St) Lin {
	info := x.Fn.Info
	e = ast.Unparen(e)
	if v, ok := constInt(info, e); ok {
		return linConst(v)
	}
	switch e := e.(type) {
	case *ast.BinaryExpr:
		switch e.Op {
		case token.ADD:
			return b.LinEval(x, e.X, s).Add(b.LinEval(x, e.Y, s), 1)
		case token.SUB:
			return b.LinEval(x, e.X, s).Add(b.LinEval(x, e.Y, s), -1)
		}
	case *ast.UnaryExpr:
		if e.Op == token.SUB {
			return linConst(0).Add(b.LinEval(x, e.X, s), -1)
		}
	case *ast.CallExpr:
		// conversions are transparent
		if tv, ok := info.Types[e.Fun]; ok && tv.IsType() && len(e.Args) == 1 {
			return b.LinEval(x, e.Args[0], s)
		}
		name := calleeKey(info, e)
		if name == "disk.roundUp4k" && len(e.Args) == 1 {
			inner := b.LinEval(x, e.Args[0], s)
			if a, ok := inner.single(); ok {
				return linAtom("r4k(" + a + ")")
			}
			return linAtom("r4k(" + inner.String() + ")")
		}
		if sel, ok := e.Fun.(*ast.SelectorExpr); ok && sel.Sel.Name == "Load" && len(e.Args) == 0 {
			if t, ok := b.Term(x, sel.X, s); ok {
				return linAtom("load(" + t + ")")
			}
		}
	}
	if t, ok := b.Term(x, e, s); ok {
		if v := s.Get("lin:" + t); v != "" {
			return parseLin(v)
		}
		return linAtom(t)
	}
	return linAtom("?" + exprStr(e))
}

func isIntType(t types.Type) bool {
	if t == nil {
		return false
	}
	bt, ok := t.Underlying().(*types.Basic)
	return ok && bt.Info()&types.IsInteger != 0
}

// LinAssign records symbolic values of integer locals and pointer aliases
// (kv := e.Value.(*entry)). On a store to a term, symbolic values that mention
// it are rewritten to old:<term> (they denote the value before the store).
// LinPre / LinPost are installed as PreAssign / Assign hooks: the new symbolic
// values are computed in the state before the assignment, parked under
// pend:* keys, and installed after the base invalidated the targets.
func (b *Base) LinPre(x *Exec, as *ast.AssignStmt, s St) St {
	// stores to fields: values that mention the stored term now denote its old value
	if as.Tok == token.ASSIGN {
		for _, l := range as.Lhs {
			if _, isIdent := ast.Unparen(l).(*ast.Ident); isIdent {
				continue
			}
			if t, ok := b.Term(x, l, s); ok {
				s = snapshotOld(s, t).Set("stored:"+t, "1")
			}
		}
	}
	after := b.LinAssign(x, as, s, newSt())
	for k, v := range after.m {
		s = s.Set("pend:"+k, v)
	}
	return s
}

func (b *Base) LinPost(x *Exec, as *ast.AssignStmt, s St) St {
	for k, v := range s.m {
		if strings.HasPrefix(k, "pend:") {
			s = s.Set(k, "").Set(k[5:], v)
		}
	}
	return s
}

func (b *Base) LinAssign(x *Exec, as *ast.AssignStmt, pre St, s St) St {
	if len(as.Lhs) != len(as.Rhs) || (as.Tok != token.ASSIGN && as.Tok != token.DEFINE) {
		return s
	}
	for i, l := range as.Lhs {
		if id, ok := l.(*ast.Ident); ok && id.Name == "_" {
			continue
		}
		lt, ok := b.LTerm(x, l, pre)
		if !ok {
			continue
		}
		typ := x.Fn.Info.TypeOf(l)
		if isIntType(typ) {
			if _, isIdent := ast.Unparen(l).(*ast.Ident); isIdent {
				v := b.LinEval(x, as.Rhs[i], pre)
				s = s.Set("lin:"+lt, v.String())
			}
		} else if _, isIdent := ast.Unparen(l).(*ast.Ident); isIdent {
			if _, isPtr := typ.Underlying().(*types.Pointer); isPtr {
				if rt, ok := b.Term(x, as.Rhs[i], pre); ok && rt != lt && !strings.HasPrefix(rt, "#") && rt != "nil" {
					if _, isCall := ast.Unparen(as.Rhs[i]).(*ast.CallExpr); !isCall {
						s = s.Set("tm:"+lt, rt)
					}
				}
			}
		}
	}
	return s
}

// snapshotOld rewrites symbolic values mentioning term t to old:t; call it
// before the base invalidates t on a store.
func snapshotOld(s St, t string) St {
	for k, v := range s.m {
		if strings.HasPrefix(k, "lin:") && containsTerm(v, t) {
			s = s.Set(k, strings.ReplaceAll(v, t, "old:"+strings.ReplaceAll(t, "@", "%")))
		}
	}
	return s
}
