package main

func init() {
	register(&PropCheck{ID: "C01", Explanation: "debug", Trusted: commonTrusted, Run: func(c *Ctx) {
		digestPairs(c)
		okAfterStore(c)
		acRules(c)
	}})
}
