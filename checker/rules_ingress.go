package main

// Upload handlers of package server:
//   R01f digest-pair consistency at every Cache.Put call site (E3, flow-
//        insensitive provenance of the hash and size arguments);
//   R01h OK only after a successful store (E2);
//   R11a validate-before-store, R11b validate-before-serve, R11d nothing is
//        stored for a rejected upload, R11e documented server-side changes.

import (
	"fmt"
	"go/ast"
	"go/token"
	"go/types"
	"sort"
	"strings"
)

// ---------- provenance of an expression (flow-insensitive) ----------

type provCtx struct {
	c    *Ctx
	fi   *FuncInfo
	info *types.Info
	defs map[types.Object][]ast.Expr // every right-hand side assigned to a local
	tups map[types.Object][]provTuple
	seen map[types.Object]bool
	depth int
}

type provTuple struct {
	call *ast.CallExpr
	idx  int
}

func newProvCtx(c *Ctx, fi *FuncInfo) *provCtx {
	p := &provCtx{c: c, fi: fi, info: fi.Pkg.TypesInfo, defs: map[types.Object][]ast.Expr{}, tups: map[types.Object][]provTuple{}}
	ast.Inspect(fi.Decl.Body, func(n ast.Node) bool {
		switch n := n.(type) {
		case *ast.AssignStmt:
			if len(n.Lhs) == len(n.Rhs) {
				for i, l := range n.Lhs {
					if o := identObj(p.info, l); o != nil {
						p.defs[o] = append(p.defs[o], n.Rhs[i])
					}
				}
			} else if len(n.Rhs) == 1 {
				if call, ok := ast.Unparen(n.Rhs[0]).(*ast.CallExpr); ok {
					for i, l := range n.Lhs {
						if o := identObj(p.info, l); o != nil {
							p.tups[o] = append(p.tups[o], provTuple{call, i})
						}
					}
				}
			}
		case *ast.ValueSpec:
			for i, name := range n.Names {
				if o := p.info.Defs[name]; o != nil && i < len(n.Values) {
					p.defs[o] = append(p.defs[o], n.Values[i])
				}
			}
		}
		return true
	})
	return p
}

// sources returns the set of provenance labels of e.
func (p *provCtx) sources(e ast.Expr) []string {
	p.seen = map[types.Object]bool{}
	out := p.src(e)
	sort.Strings(out)
	return uniq(out)
}

func uniq(in []string) []string {
	var out []string
	for i, s := range in {
		if i == 0 || s != in[i-1] {
			out = append(out, s)
		}
	}
	return out
}

func (p *provCtx) src(e ast.Expr) []string {
	e = ast.Unparen(e)
	info := p.info
	switch e := e.(type) {
	case *ast.SelectorExpr:
		if sel := info.Selections[e]; sel != nil && sel.Kind() == types.FieldVal {
			bt := info.TypeOf(e.X)
			if isMsgPtr(bt) && strings.HasSuffix(bt.String(), ".Digest") && (e.Sel.Name == "Hash" || e.Sel.Name == "SizeBytes") {
				return []string{"digest:" + p.digestRoot(e.X)}
			}
			if e.Sel.Name == "ContentLength" {
				if strings.HasSuffix(info.TypeOf(e.X).String(), "http.Response") {
					return []string{"transport-size"}
				}
				return []string{"declared-header-size"}
			}
		}
		return []string{"expr:" + exprStr(e)}
	case *ast.Ident:
		o := identObj(info, e)
		if o == nil {
			return []string{"expr:" + e.Name}
		}
		if _, isConst := o.(*types.Const); isConst {
			return []string{"const:" + e.Name}
		}
		if p.seen[o] {
			return nil
		}
		p.seen[o] = true
		var out []string
		for _, d := range p.defs[o] {
			out = append(out, p.src(d)...)
		}
		for _, t := range p.tups[o] {
			key := calleeKey(info, t.call)
			switch {
			case key == "server.(*grpcServer).parseWriteResource" || key == "server.(*grpcServer).parseReadResource":
				out = append(out, fmt.Sprintf("parsed:%s@%d", key[strings.LastIndex(key, ".")+1:], p.callOrd(t.call)))
			case key == "server.parseRequestURL":
				out = append(out, "declared-url")
			case fullCalleeName(info, t.call) == "strconv.Atoi" || fullCalleeName(info, t.call) == "strconv.ParseInt":
				out = append(out, "declared-header-size")
			default:
				out = append(out, "call:"+exprStr(t.call.Fun))
			}
		}
		if len(p.defs[o]) == 0 && len(p.tups[o]) == 0 {
			if via := p.fromCallers(o); via != nil {
				out = append(out, via...)
			} else {
				out = append(out, "param:"+o.Name())
			}
		}
		return out
	case *ast.CallExpr:
		name := fullCalleeName(info, e)
		// conversions
		if tv, ok := info.Types[e.Fun]; ok && tv.IsType() && len(e.Args) == 1 {
			return p.src(e.Args[0])
		}
		switch name {
		case "encoding/hex.EncodeToString":
			// hex(x[:]) with x := sha256.Sum256(B), or hex(h.Sum(nil)) with h fed from the chunks
			if b := p.hashedBytes(e.Args[0]); b != "" {
				return []string{"computed-hash:" + b}
			}
			return []string{"computed-hash:?"}
		case "builtin.len":
			return []string{"computed-size:" + exprStr(e.Args[0])}
		case modPath + "/cache.TransformActionCacheKey":
			return p.src(e.Args[0])
		}
		return []string{"call:" + exprStr(e.Fun)}
	case *ast.StarExpr:
		return p.src(e.X)
	}
	if tv, ok := info.Types[e]; ok && tv.Value != nil {
		return []string{"const:" + tv.Value.ExactString()}
	}
	return []string{"expr:" + exprStr(e)}
}

// fromCallers: o is a parameter of an unexported helper of package server (other than the
// frozen fetchItem case, which pairOK judges by itself): its provenance is that of the
// arguments its callers pass.  nil when o is not such a parameter.
func (p *provCtx) fromCallers(o types.Object) []string {
	if p.depth >= 3 || ast.IsExported(p.fi.Decl.Name.Name) || p.fi.Key == "server.(*grpcServer).fetchItem" {
		return nil
	}
	idx := -1
	for i := 0; ; i++ {
		po := paramObj(p.fi, i)
		if po == nil {
			break
		}
		if po == o {
			idx = i
		}
	}
	if idx < 0 {
		return nil
	}
	var out []string
	found := false
	for _, g := range p.c.P.FuncsInPkg("/server") {
		if strings.HasSuffix(p.c.P.Fset.Position(g.Decl.Pos()).Filename, "_test.go") || g == p.fi {
			continue
		}
		var q *provCtx
		for _, call := range callsIn(g.Decl.Body, true) {
			if calleeKey(g.Pkg.TypesInfo, call) != p.fi.Key || idx >= len(call.Args) {
				continue
			}
			if q == nil {
				q = newProvCtx(p.c, g)
				q.depth = p.depth + 1
			}
			found = true
			out = append(out, q.sources(call.Args[idx])...)
		}
	}
	if !found {
		return nil
	}
	return out
}

// digestRoot names the digest value a .Hash/.SizeBytes selection reads from.
func (p *provCtx) digestRoot(e ast.Expr) string {
	e = ast.Unparen(e)
	if id, ok := e.(*ast.Ident); ok {
		if o := identObj(p.info, id); o != nil && len(p.defs[o]) == 1 {
			return p.digestRoot(p.defs[o][0])
		}
	}
	return strings.ReplaceAll(exprStr(e), " ", "")
}

func (p *provCtx) hashedBytes(e ast.Expr) string {
	e = ast.Unparen(e)
	if se, ok := e.(*ast.SliceExpr); ok {
		e = ast.Unparen(se.X)
	}
	if id, ok := e.(*ast.Ident); ok {
		if o := identObj(p.info, id); o != nil {
			for _, d := range p.defs[o] {
				if call, ok := ast.Unparen(d).(*ast.CallExpr); ok && fullCalleeName(p.info, call) == "crypto/sha256.Sum256" {
					return exprStr(call.Args[0])
				}
			}
		}
	}
	if call, ok := e.(*ast.CallExpr); ok && strings.HasSuffix(fullCalleeName(p.info, call), ".Sum") {
		return "stream:" + exprStr(call.Fun)
	}
	return ""
}

// marshalled: the variable named name is (also) assigned from proto.Marshal, directly or as a
// result of a helper of the package that returns such a value.
func (p *provCtx) marshalled(name string) bool {
	for o, ts := range p.tups {
		if o.Name() != name {
			continue
		}
		for _, t := range ts {
			if fullCalleeName(p.info, t.call) == "google.golang.org/protobuf/proto.Marshal" {
				return true
			}
			if p.depth < 3 {
				if g := p.c.P.Func(calleeKey(p.info, t.call)); g != nil && g.Pkg == p.fi.Pkg && g.Decl.Body != nil {
					q := newProvCtx(p.c, g)
					q.depth = p.depth + 1
					hit := false
					walkNoLits(g.Decl.Body, func(n ast.Node) bool {
						if ret, ok := n.(*ast.ReturnStmt); ok && t.idx < len(ret.Results) {
							if id, ok := ast.Unparen(ret.Results[t.idx]).(*ast.Ident); ok && q.marshalled(id.Name) {
								hit = true
							}
						}
						return true
					})
					if hit {
						return true
					}
				}
			}
		}
	}
	return false
}

func (p *provCtx) callOrd(call *ast.CallExpr) int {
	n := 0
	ast.Inspect(p.fi.Decl.Body, func(m ast.Node) bool {
		if c, ok := m.(*ast.CallExpr); ok && c.Pos() <= call.Pos() && exprStr(c.Fun) == exprStr(call.Fun) {
			n++
		}
		return true
	})
	return n
}

func digestPairs(c *Ctx) {
	R := c.R
	R.Rule("R01f", "E3", "digest-pair consistency at every Cache.Put ingress: the (hash, size) handed to Put are both declared by the same source (one Digest message, one parsed resource name, URL + size header) or both computed from the very bytes that are stored; a declared hash paired with a computed size means the declared size is never compared with anything", 9)
	n := 0
	for _, fi := range c.P.FuncsInPkg("/server") {
		if strings.HasSuffix(c.P.Fset.Position(fi.Decl.Pos()).Filename, "_test.go") {
			continue
		}
		var p *provCtx
		ord := 0
		for _, call := range callsIn(fi.Decl.Body, true) {
			if calleeKey(fi.Pkg.TypesInfo, call) != "disk.(Cache).Put" || len(call.Args) != 5 {
				continue
			}
			if p == nil {
				p = newProvCtx(c, fi)
			}
			ord++
			n++
			key := fmt.Sprintf("%s%s:Put#%d", c.Cfg, fi.Key, ord)
			kind := exprStr(call.Args[1])
			if kind == "cache.AC" {
				R.OK("R01f", key, c.P.Pos(call.Pos()), "action-cache entry (not content addressed: the size is the length of the marshalled message)")
				continue
			}
			hs := p.sources(call.Args[2])
			ss := p.sources(call.Args[3])
			if kind != "cache.CAS" {
				// kind is a variable (HTTP): a size computed from re-marshalled
				// ActionResult bytes belongs to the action-cache branch only
				var keep []string
				for _, s := range ss {
					if strings.HasPrefix(s, "computed-size:") && p.marshalled(strings.TrimPrefix(s, "computed-size:")) {
						continue
					}
					keep = append(keep, s)
				}
				ss = keep
			}
			ok, why := pairOK(hs, ss, fi.Key, exprStr(call.Args[4]))
			R.Check(ok, "R01f", key, c.P.Pos(call.Pos()), fmt.Sprintf("hash %v and size %v are declared together or computed together", hs, ss), why)
		}
	}
	R.Count("Cache.Put call sites in package server", n)
}

func pairOK(hs, ss []string, fn, reader string) (bool, string) {
	label := func(s string) (string, string) {
		i := strings.Index(s, ":")
		if i < 0 {
			return s, ""
		}
		return s[:i], s[i+1:]
	}
	if len(hs) == 0 || len(ss) == 0 {
		return false, "unrecognised provenance (no source found)"
	}
	// every hash source needs a partner among the size sources and vice versa
	match := func(h, s string) bool {
		hk, hv := label(h)
		sk, sv := label(s)
		switch {
		case hk == "digest" && sk == "digest":
			return hv == sv
		case hk == "parsed" && sk == "parsed":
			return hv == sv
		case hk == "declared-url" && sk == "declared-header-size":
			return true
		case hk == "computed-hash" && sk == "computed-size":
			return hv == sv || strings.HasPrefix(hv, "stream:")
		case hk == "computed-hash" && strings.HasPrefix(hv, "stream:") && sk == "expr":
			return true // SpliceBlob: hash of the streamed chunks, size = their checked total
		}
		// Remote asset fetch: the hash is declared by the client (or computed) and the size comes
		// from the transport; Put verifies both against the bytes.
		if fn == "server.(*grpcServer).fetchItem" {
			return (hk == "param" || hk == "computed-hash") && (sk == "transport-size" || sk == "computed-size")
		}
		return false
	}
	for _, h := range hs {
		ok := false
		for _, s := range ss {
			if match(h, s) {
				ok = true
			}
		}
		if !ok {
			return false, fmt.Sprintf("hash source %q has no matching size source among %v: the declared size is not what is verified (a wrong declared size would be acknowledged)", h, ss)
		}
	}
	for _, s := range ss {
		ok := false
		for _, h := range hs {
			if match(h, s) {
				ok = true
			}
		}
		if !ok {
			return false, fmt.Sprintf("size source %q has no matching hash source among %v", s, hs)
		}
	}
	return true, ""
}

// ---------- R01h ----------

func okAfterStore(c *Ctx) {
	R := c.R
	R.Rule("R01h", "E2", "OK only after a successful store: a per-blob status left at OK / a nil error / HTTP 200 is reached only after Cache.Put returned nil for that blob (or the documented already-present exit); gRPCErrCode yields OK exactly for a nil error and is never asked to translate a nil error into a failure status", 8)
	// gRPCErrCode: OK iff err == nil
	if fi := c.P.MustFunc(R, "R01h", "server.gRPCErrCode"); fi != nil {
		var base *Base
		good, n := true, 0
		base = NewBase(Hooks{Exit: func(x *Exec, ret *ast.ReturnStmt, s St) {
			if ret == nil || len(ret.Results) != 1 {
				good = false
				return
			}
			n++
			isOK := exprStr(ret.Results[0]) == "codes.OK"
			errNil := s.Get("n:"+paramTerm(x.Fn, 0)) == "nil"
			if isOK != errNil {
				// returning the caller's default on a non-nil error is fine unless that default is OK (checked per call site)
				if isOK || exprStr(ret.Results[0]) != fi.Decl.Type.Params.List[1].Names[0].Name && errNil {
					good = false
				}
			}
		}})
		x := NewExec(c.P.FlowOf(fi), base)
		x.Run(newSt())
		R.Check(good && n >= 3, "R01h", c.Cfg+"server.gRPCErrCode:summary", c.P.Pos(fi.Decl.Pos()), "gRPCErrCode returns codes.OK exactly when its error argument is nil", "gRPCErrCode can return OK for a non-nil error or a failure code for nil")
	}
	// every call passes a non-OK default and an error that is non-nil on that path
	for _, fi := range c.P.FuncsInPkg("/server") {
		if strings.HasSuffix(c.P.Fset.Position(fi.Decl.Pos()).Filename, "_test.go") {
			continue
		}
		has := false
		for _, call := range callsIn(fi.Decl.Body, true) {
			if calleeKey(fi.Pkg.TypesInfo, call) == "server.gRPCErrCode" {
				has = true
			}
		}
		if !has {
			continue
		}
		var base *Base
		base = NewBase(Hooks{EveryCall: func(x *Exec, call *ast.CallExpr, s St) []St {
			if calleeKey(x.Fn.Info, call) != "server.gRPCErrCode" || len(call.Args) != 2 {
				return []St{s}
			}
			site := fmt.Sprintf("%s%s:gRPCErrCode#%d", c.Cfg, rootName(x), callOrdinal(x, call))
			dflt := exprStr(call.Args[1])
			R.Check(strings.HasPrefix(dflt, "codes.") && dflt != "codes.OK", "R01h", site+":default", c.P.Pos(call.Pos()), "the fallback code is a constant failure code", "fallback is "+dflt)
			R.Check(base.Nil(x, call.Args[0], s) == "nonnil", "R01h", site+":err-nonnil", c.P.Pos(call.Pos()), "the error translated into a status is known to be non-nil on every path reaching the call",
				"the error passed to gRPCErrCode can be nil here, in which case the status becomes OK although the branch is a rejection", x.Trace()...)
			return []St{s}
		}, Call: func(x *Exec, call *ast.CallExpr, lhs []ast.Expr, s St) ([]St, bool) {
			// (value, err) := f(): the usual error fork for calls whose last result is an error
			if len(lhs) >= 1 {
				if tv := x.Fn.Info.TypeOf(lhs[len(lhs)-1]); tv != nil && tv.String() == "error" {
					return base.ForkErr(x, lhs, len(lhs)-1, s, nil, nil), true
				}
			}
			return nil, false
		}})
		x := NewExec(c.P.FlowOf(fi), base)
		x.Run(newSt())
		for _, l := range nonDeferredLits(fi.Decl.Body) {
			y := NewExec(enclosingLit(c.P.FlowOf(fi), l), base)
			y.Run(newSt())
		}
	}

	// BatchUpdateBlobs: per-item status
	if fi := c.P.MustFunc(R, "R01h", "server.(*grpcServer).BatchUpdateBlobs"); fi != nil {
		var base *Base
		checks := 0
		check := func(x *Exec, s St, pos token.Pos, where string) {
			if s.Get("item") != "1" {
				return
			}
			checks++
			ok := s.Get("code") == "err" || s.Get("stored") == "1"
			R.Check(ok, "R01h", c.Cfg+"server.(*grpcServer).BatchUpdateBlobs:item-status:"+where, c.P.Pos(pos), "a response whose status is still OK belongs to a blob for which Cache.Put returned nil",
				"an item keeps status OK on a path where nothing was stored for it", x.Trace()...)
		}
		base = NewBase(Hooks{
			PreAssign: func(x *Exec, as *ast.AssignStmt, s St) St {
				// a new iteration begins: judge the previous item
				if len(as.Rhs) == 1 {
					if u, ok := as.Rhs[0].(*ast.UnaryExpr); ok && u.Op == token.RANGE {
						check(x, s, as.Pos(), "next-iteration")
						return s.Set("item", "").Set("code", "").Set("stored", "")
					}
				}
				// rr.Status.Code = int32(gRPCErrCode(err, ...))
				for i, l := range as.Lhs {
					if strings.HasSuffix(exprStr(l), ".Status.Code") && i < len(as.Rhs) {
						v := "err"
						if inner := unwrapConv(x.Fn.Info, as.Rhs[i]); inner != nil {
							if call, ok := inner.(*ast.CallExpr); ok && calleeKey(x.Fn.Info, call) == "server.gRPCErrCode" {
								if base.Nil(x, call.Args[0], s) != "nonnil" {
									v = "ok-or-err"
								}
							}
							if exprStr(inner) == "codes.OK" || exprStr(inner) == "code.Code_OK" {
								v = "ok"
							}
						}
						if v == "ok-or-err" {
							v = "ok" // worst case: the status stays OK
						}
						s = s.Set("code", v)
					}
				}
				return s
			},
			Assign: func(x *Exec, as *ast.AssignStmt, s St) []St {
				// rr := pb.BatchUpdateBlobsResponse_Response{... Status: &status.Status{}}
				if len(as.Rhs) == 1 {
					if cl, ok := ast.Unparen(as.Rhs[0]).(*ast.CompositeLit); ok && strings.HasSuffix(x.Fn.Info.TypeOf(cl).String(), "BatchUpdateBlobsResponse_Response") {
						s = s.Set("item", "1").Set("code", "ok").Set("stored", "")
					}
				}
				return []St{s}
			},
			Call: func(x *Exec, call *ast.CallExpr, lhs []ast.Expr, s St) ([]St, bool) {
				if calleeKey(x.Fn.Info, call) == "disk.(Cache).Put" {
					return base.ForkErr(x, lhs, 0, s, func(ok St) St { return ok.Set("stored", "1") }, func(bad St) St {
						// disk.Put never returns io.EOF
						if t, k := base.Term(x, lhs[0], bad); k {
							a, b := "g:io.EOF", t
							if a > b {
								a, b = b, a
							}
							bad = bad.Set("p:"+a+"=="+b, "F")
						}
						return bad
					}), true
				}
				if len(lhs) >= 1 {
					if tv := x.Fn.Info.TypeOf(lhs[len(lhs)-1]); tv != nil && tv.String() == "error" {
						return base.ForkErr(x, lhs, len(lhs)-1, s, nil, nil), true
					}
				}
				return nil, false
			},
			Exit: func(x *Exec, ret *ast.ReturnStmt, s St) {
				if RetNil(x.Fn, s, 1) != "nonnil" {
					check(x, s, posOf(x, ret), "final-return")
				}
			},
		})
		base.InlineOwnHelpers()
		x := NewExec(c.P.FlowOf(fi), base)
		x.Run(newSt())
		R.Check(checks > 0, "R01h", c.Cfg+"server.(*grpcServer).BatchUpdateBlobs:items-checked", "", "per-item statuses were found and checked", "no per-item status construct recognised")
	}

	// handlers that acknowledge with a nil error: no path after a failed Put returns success
	for _, key := range []string{"server.(*grpcServer).UpdateActionResult", "server.(*grpcServer).SpliceBlob", "server.(*grpcServer).fetchItem"} {
		fi := c.P.MustFunc(R, "R01h", key)
		if fi == nil {
			continue
		}
		var base *Base
		nput := 0
		base = NewBase(Hooks{
			Call: func(x *Exec, call *ast.CallExpr, lhs []ast.Expr, s St) ([]St, bool) {
				if calleeKey(x.Fn.Info, call) == "disk.(Cache).Put" && len(lhs) == 1 {
					nput++
					return base.ForkErr(x, lhs, 0, s, nil, func(bad St) St {
						if t, k := base.Term(x, lhs[0], bad); k {
							a, b := "g:io.EOF", t
							if a > b {
								a, b = b, a
							}
							bad = bad.Set("p:"+a+"=="+b, "F")
						}
						return bad.Set("putfailed", "1")
					}), true
				}
				return nil, false
			},
			Exit: func(x *Exec, ret *ast.ReturnStmt, s St) {
				if s.Get("putfailed") != "1" {
					return
				}
				R.Check(RetNil(x.Fn, s, -1) == "nonnil", "R01h", fmt.Sprintf("%s%s:return#%d:error-after-failed-put", c.Cfg, key, returnOrdinal(x.Fn, ret)), c.P.Pos(posOf(x, ret)),
					"after a failed Cache.Put the handler returns an error", "a path on which Cache.Put failed returns success", x.Trace()...)
			},
		})
		base.InlineOwnHelpers()
		x := NewExec(c.P.FlowOf(fi), base)
		x.Run(newSt())
		R.Check(nput > 0, "R01h", c.Cfg+key+":puts", "", key+" stores through Cache.Put", "no Cache.Put found")
	}

	// HTTP PUT: a failed Put is answered with http.Error
	if fi := c.P.MustFunc(R, "R01h", "server.(*httpCache).CacheHandler"); fi != nil {
		var base *Base
		seen := 0
		base = NewBase(Hooks{
			Call: func(x *Exec, call *ast.CallExpr, lhs []ast.Expr, s St) ([]St, bool) {
				if calleeKey(x.Fn.Info, call) == "disk.(Cache).Put" && len(lhs) == 1 {
					return base.ForkErr(x, lhs, 0, s, func(ok St) St { return ok.Set("put", "ok") }, func(bad St) St { return bad.Set("put", "failed") }), true
				}
				return nil, false
			},
			EveryCall: func(x *Exec, call *ast.CallExpr, s St) []St {
				if fullCalleeName(x.Fn.Info, call) == "net/http.Error" {
					return []St{s.Set("httperr", "1")}
				}
				return []St{s}
			},
			Exit: func(x *Exec, ret *ast.ReturnStmt, s St) {
				if s.Get("put") == "failed" {
					seen++
					R.Check(s.Get("httperr") == "1", "R01h", c.Cfg+"server.(*httpCache).CacheHandler:put-failed-answered", c.P.Pos(posOf(x, ret)), "a failed Put is answered with http.Error (never the implicit 200)", "a path where Put failed ends without writing an error status", x.Trace()...)
				}
			},
		})
		base.InlineOwnHelpers()
		x := NewExec(c.P.FlowOf(fi), base)
		x.Run(newSt())
		R.Check(seen > 0, "R01h", c.Cfg+"server.(*httpCache).CacheHandler:put-failure-paths", "", "Put failure paths found", "none found")
	}
}

func unwrapConv(info *types.Info, e ast.Expr) ast.Expr {
	e = ast.Unparen(e)
	for {
		call, ok := e.(*ast.CallExpr)
		if !ok || len(call.Args) != 1 {
			return e
		}
		if tv, ok := info.Types[call.Fun]; ok && tv.IsType() {
			e = ast.Unparen(call.Args[0])
			continue
		}
		return e
	}
}

func nonDeferredLits(body *ast.BlockStmt) []*ast.FuncLit {
	deferred := map[*ast.FuncLit]bool{}
	var lits []*ast.FuncLit
	ast.Inspect(body, func(n ast.Node) bool {
		if d, ok := n.(*ast.DeferStmt); ok {
			if l, ok := d.Call.Fun.(*ast.FuncLit); ok {
				deferred[l] = true
			}
		}
		if l, ok := n.(*ast.FuncLit); ok {
			lits = append(lits, l)
		}
		return true
	})
	var out []*ast.FuncLit
	for _, l := range lits {
		if !deferred[l] {
			out = append(out, l)
		}
	}
	return out
}

// ---------- R11 ----------

func acRules(c *Ctx) {
	R := c.R
	R.Rule("R11a", "E2+E3", "validate-before-store: every Cache.Put that can carry an action-cache entry is dominated by validate.ActionResult(ar) == nil and stores proto.Marshal of that same ar", 2)
	R.Rule("R11b", "E2", "validate-before-serve: every return of action-cache content to a client is dominated by validate.ActionResult on the unmarshalled stored bytes", 2)
	R.Rule("R11d", "E2", "a rejected upload stores nothing: no error return is reachable after the action-cache Put succeeded", 1)
	R.Rule("R11e", "E3", "documented server-side changes only: between validation and marshalling only the worker metadata is filled in (addWorkerMetadata* assign ExecutionMetadata / ExecutionMetadata.Worker only)", 3)

	type site struct {
		key    string
		acCond func(x *Exec, call *ast.CallExpr, s St) bool
	}
	sites := []site{
		{"server.(*grpcServer).UpdateActionResult", func(x *Exec, call *ast.CallExpr, s St) bool { return exprStr(call.Args[1]) == "cache.AC" }},
		{"server.(*httpCache).CacheHandler", func(x *Exec, call *ast.CallExpr, s St) bool {
			// kind == cache.AC on this path (cache.AC == 0); parseRequestURL is
			// inlined, so the kind it returned is a known constant
			return false // decided from the kind argument's value on the path (below)
		}},
	}
	for _, st := range sites {
		fi := c.P.MustFunc(R, "R11a", st.key)
		if fi == nil {
			continue
		}
		st := st
		var base *Base
		nac := 0
		base = NewBase(Hooks{
			Call: func(x *Exec, call *ast.CallExpr, lhs []ast.Expr, s St) ([]St, bool) {
				info := x.Fn.Info
				switch {
				case calleeKey(info, call) == "validate.ActionResult" && len(lhs) == 1:
					at, ok := base.Term(x, call.Args[0], s)
					return base.ForkErr(x, lhs, 0, s, func(okSt St) St {
						if ok {
							return okSt.Set("validated:"+at, "1")
						}
						return okSt
					}, nil), true
				case fullCalleeName(info, call) == "google.golang.org/protobuf/proto.Marshal" && len(lhs) == 2:
					at, _ := base.Term(x, call.Args[0], s)
					return base.ForkErr(x, lhs, 1, s, func(okSt St) St {
						if t, k := base.LTerm(x, lhs[0], okSt); k {
							okSt = okSt.Set("marshal:"+t, at)
							if okSt.Get("validated:"+at) == "1" {
								// the tag follows the bytes out of a helper that returns them
								okSt = okSt.Set("tag:"+t, "marshalled-validated")
							}
						}
						return okSt
					}, nil), true
				case calleeKey(info, call) == "disk.(Cache).Put" && len(lhs) == 1:
					isAC := st.acCond(x, call, s)
					if kt, ok := base.Term(x, call.Args[1], s); ok && !isAC {
						// the kind is a variable: its value on this path (cache.AC == 0)
						isAC = kt == "#0" || s.Get("c:"+kt) == "0"
						if v, known := relLookup(s, "#0", "==", kt); known && v {
							isAC = true
						}
					}
					if isAC {
						nac++
						site := fmt.Sprintf("%s%s:Put#%d", c.Cfg, st.key, callOrdinal(x, call))
						// the reader wraps the marshalled bytes of the validated message
						data := readerBytes(x, base, call.Args[4], s)
						ar := s.Get("marshal:" + data)
						viaHelper := data != "" && s.Get("tag:"+data) == "marshalled-validated"
						R.Check(viaHelper || (data != "" && ar != "" && s.Get("validated:"+ar) == "1"), "R11a", site+":validated-marshalled", c.P.Pos(call.Pos()),
							"the bytes stored under the action key are proto.Marshal(ar) of the message that passed validate.ActionResult",
							fmt.Sprintf("stored bytes %q, marshalled from %q, validated=%q: the action cache can receive bytes that were not validated", data, ar, s.Get("validated:"+ar)), x.Trace()...)
						return base.ForkErr(x, lhs, 0, s, func(okSt St) St { return okSt.Set("acstored", "1") }, nil), true
					}
					return base.ForkErr(x, lhs, 0, s, nil, func(bad St) St {
						if t, k := base.Term(x, lhs[0], bad); k {
							a, b := "g:io.EOF", t
							if a > b {
								a, b = b, a
							}
							bad = bad.Set("p:"+a+"=="+b, "F")
						}
						return bad
					}), true
				}
				return nil, false
			},
			Assign: func(x *Exec, as *ast.AssignStmt, s St) []St {
				// rdr = bytes.NewReader(data)
				if len(as.Lhs) == 1 && len(as.Rhs) == 1 {
					if call, ok := ast.Unparen(as.Rhs[0]).(*ast.CallExpr); ok && fullCalleeName(x.Fn.Info, call) == "bytes.NewReader" {
						if dt, ok := base.Term(x, call.Args[0], s); ok {
							if lt, ok := base.LTerm(x, as.Lhs[0], s); ok {
								s = s.Set("rdrof:"+lt, dt)
							}
						}
					}
				}
				return []St{s}
			},
			EveryCall: func(x *Exec, call *ast.CallExpr, s St) []St {
				if fullCalleeName(x.Fn.Info, call) == "net/http.Error" && s.Get("acstored") == "1" {
					R.Fail("R11d", fmt.Sprintf("%s%s:http.Error-after-store", c.Cfg, st.key), c.P.Pos(call.Pos()), "an error answer is written after the action-cache entry was stored", x.Trace()...)
				}
				return []St{s}
			},
			Exit: func(x *Exec, ret *ast.ReturnStmt, s St) {
				if s.Get("acstored") != "1" || x.Fn.Type.Results == nil {
					return
				}
				R.Check(RetNil(x.Fn, s, -1) != "nonnil", "R11d", fmt.Sprintf("%s%s:return#%d:no-error-after-ac-store", c.Cfg, st.key, returnOrdinal(x.Fn, ret)), c.P.Pos(posOf(x, ret)),
					"no error return is reachable once the action-cache entry has been stored", "the upload is answered with an error although its ActionResult is already stored under the action key (a rejected upload stores something)", x.Trace()...)
			},
		}, "server.parseRequestURL")
		base.InlineOwnHelpers()
		x := NewExec(c.P.FlowOf(fi), base)
		x.Run(newSt())
		if x.Aborted != "" {
			R.Fail("R11a", c.Cfg+st.key+":explore", "", "exploration did not complete: "+x.Aborted)
		}
		R.Check(nac > 0, "R11a", c.Cfg+st.key+":ac-put-found", c.P.Pos(fi.Decl.Pos()), "an action-cache Put was found in "+st.key, "no Put with kind AC found")
	}

	// R11b
	for _, tc := range []struct{ key string; res int }{{"disk.(*diskCache).GetValidatedActionResult", 0}, {"server.(*grpcServer).GetActionResult", 0}} {
		fi := c.P.MustFunc(R, "R11b", tc.key)
		if fi == nil {
			continue
		}
		var base *Base
		hits := 0
		base = NewBase(Hooks{
			Call: func(x *Exec, call *ast.CallExpr, lhs []ast.Expr, s St) ([]St, bool) {
				k := calleeKey(x.Fn.Info, call)
				if k == "validate.ActionResult" && len(lhs) == 1 {
					at, ok := base.Term(x, call.Args[0], s)
					return base.ForkErr(x, lhs, 0, s, func(okSt St) St {
						if ok {
							return okSt.Set("validated:"+at, "1")
						}
						return okSt
					}, nil), true
				}
				if k == "disk.(Cache).GetValidatedActionResult" && len(lhs) == 3 {
					// validated by the callee (checked above on its own body)
					return base.ForkErr(x, lhs, 2, s, func(okSt St) St {
						if t, ok := base.LTerm(x, lhs[0], okSt); ok {
							return okSt.Set("validated:"+t, "1")
						}
						return okSt
					}, nil), true
				}
				if len(lhs) >= 1 {
					if tv := x.Fn.Info.TypeOf(lhs[len(lhs)-1]); tv != nil && tv.String() == "error" {
						return base.ForkErr(x, lhs, len(lhs)-1, s, nil, nil), true
					}
				}
				return nil, false
			},
			Exit: func(x *Exec, ret *ast.ReturnStmt, s St) {
				if ret == nil || len(ret.Results) == 0 || RetNil(x.Fn, s, -1) == "nonnil" {
					return
				}
				if base.Nil(x, ret.Results[0], s) == "nil" {
					return
				}
				rt, ok := base.Term(x, ret.Results[0], s)
				if !ok {
					return
				}
				hits++
				R.Check(s.Get("validated:"+rt) == "1", "R11b", fmt.Sprintf("%s%s:return#%d", c.Cfg, tc.key, returnOrdinal(x.Fn, ret)), c.P.Pos(ret.Pos()),
					"an ActionResult is returned only after validate.ActionResult accepted it", "an unvalidated stored ActionResult can be served", x.Trace()...)
			},
		})
		x := NewExec(c.P.FlowOf(fi), base)
		x.Run(newSt())
		R.Check(hits > 0, "R11b", c.Cfg+tc.key+":hit-returns", "", "hit returns found in "+tc.key, "none found")
	}

	// R11e
	for _, key := range []string{"server.addWorkerMetadataGRPC", "server.addWorkerMetadataHTTP"} {
		fi := c.P.MustFunc(R, "R11e", key)
		if fi == nil {
			continue
		}
		ok := true
		bad := ""
		ast.Inspect(fi.Decl.Body, func(n ast.Node) bool {
			if as, k := n.(*ast.AssignStmt); k {
				for _, l := range as.Lhs {
					if sel, k := l.(*ast.SelectorExpr); k {
						s := exprStr(sel)
						if strings.HasPrefix(s, "ar.") && s != "ar.ExecutionMetadata" && s != "ar.ExecutionMetadata.Worker" {
							ok = false
							bad = s
						}
					}
				}
			}
			return true
		})
		R.Check(ok, "R11e", c.Cfg+key+":writes", c.P.Pos(fi.Decl.Pos()), key+" changes only ExecutionMetadata / ExecutionMetadata.Worker of the uploaded message", key+" also assigns "+bad)
	}
	if fi := c.P.MustFunc(R, "R11e", "server.(*grpcServer).UpdateActionResult"); fi != nil {
		// between validate and Marshal only addWorkerMetadataGRPC touches the message
		var vpos, mpos token.Pos
		for _, call := range callsIn(fi.Decl.Body, false) {
			switch {
			case calleeKey(fi.Pkg.TypesInfo, call) == "validate.ActionResult":
				vpos = call.Pos()
			case fullCalleeName(fi.Pkg.TypesInfo, call) == "google.golang.org/protobuf/proto.Marshal" && mpos == 0:
				mpos = call.Pos()
			}
		}
		ok := vpos != 0 && mpos != 0
		ast.Inspect(fi.Decl.Body, func(n ast.Node) bool {
			if as, k := n.(*ast.AssignStmt); k && as.Pos() > vpos && as.Pos() < mpos {
				for _, l := range as.Lhs {
					if strings.HasPrefix(exprStr(l), "req.ActionResult") {
						ok = false
					}
				}
			}
			if call, k := n.(*ast.CallExpr); k && call.Pos() > vpos && call.Pos() < mpos {
				for _, a := range call.Args {
					if exprStr(a) == "req.ActionResult" && calleeKey(fi.Pkg.TypesInfo, call) != "server.addWorkerMetadataGRPC" {
						ok = false
					}
				}
			}
			return true
		})
		R.Check(ok, "R11e", c.Cfg+"server.(*grpcServer).UpdateActionResult:between-validate-and-marshal", c.P.Pos(fi.Decl.Pos()), "only addWorkerMetadataGRPC touches the message between validation and marshalling", "the message is modified by something else between validate.ActionResult and proto.Marshal")
	}
}

// readerBytes: the byte-slice term wrapped by a bytes.NewReader(...) expression or reader variable.
func readerBytes(x *Exec, b *Base, e ast.Expr, s St) string {
	e = ast.Unparen(e)
	if call, ok := e.(*ast.CallExpr); ok && fullCalleeName(x.Fn.Info, call) == "bytes.NewReader" {
		t, _ := b.Term(x, call.Args[0], s)
		return t
	}
	if t, ok := b.Term(x, e, s); ok {
		return s.Get("rdrof:" + t)
	}
	return ""
}
