package main

// Rules added after the second round of seeded changes (DESIGN.md 7.7).
//
//   R01i  inlined bytes of an uploaded ActionResult all go through Cache.Put before the AC entry is stored
//   R04f  a file path is computed from one index item (legacy, size, random of the same lruItem)
//   R06g  an empty stored action result is a miss (size > 0 dominates the decode)
//   R09e  (levels) each lost+found test compares the entry of its own directory level
//   R11e  (only-when-absent) worker metadata is created / filled only when it is absent
//   R14i  each iteration of the backend worker signals the wait group exactly once
//   R20f  the configured object prefix reaches the key only through path.Join

import (
	"fmt"
	"go/ast"
	"go/token"
	"go/types"
	"strings"
)

func extraRules2(c *Ctx, want map[string]bool) {
	if want["R01i"] {
		inlinedBytesVerified(c)
	}
	if want["R04f"] {
		itemConsistentPaths(c)
	}
	if want["R06g"] {
		emptyEntryIsMiss(c)
	}
	if want["R09e"] {
		lostFoundLevels(c)
	}
	if want["R11e"] {
		workerOnlyWhenAbsent(c)
	}
	if want["R14i"] {
		workerDoneOnce(c)
	}
	if want["R20f"] {
		prefixOnlyJoined(c)
	}
}

func selName(e ast.Expr) string {
	if sel, ok := ast.Unparen(e).(*ast.SelectorExpr); ok {
		return sel.Sel.Name
	}
	return ""
}

// ---------------------------------------------------------------- R01i

func inlinedBytesVerified(c *Ctx) {
	R := c.R
	R.Rule("R01i", "E2", "inlined bytes are verified: in UpdateActionResult every inlined field of the upload (OutputFiles[i].Contents, StdoutRaw, StderrRaw) that is not empty is handed to Cache.Put as a CAS blob on every path that goes on to store the action-cache entry - the bytes stay inside the stored entry, so skipping the Put leaves them unchecked against their digest", 3)
	fi := c.P.MustFunc(R, "R01i", "server.(*grpcServer).UpdateActionResult")
	if fi == nil {
		return
	}
	fields := map[string]bool{"Contents": true, "StdoutRaw": true, "StderrRaw": true}
	seen := map[string]bool{}
	var b *Base
	check := func(x *Exec, s St, f string, pos token.Pos, where string) St {
		if s.Get("need:"+f) == "1" {
			seen[f] = true
			R.Check(s.Get("done:"+f) == "1", "R01i", c.Cfg+"UpdateActionResult:inlined:"+f+":verified", c.P.Pos(pos),
				"non-empty "+f+" went through Cache.Put before "+where,
				"a path reaches "+where+" with non-empty "+f+" that was never handed to Cache.Put: inlined bytes that do not match their digest are acknowledged and stored inside the action result", x.Trace()...)
		}
		return s.Set("need:"+f, "").Set("done:"+f, "")
	}
	b = NewBase(Hooks{
		PostCond: func(x *Exec, cond ast.Expr, truth bool, outs []St) []St {
			be, ok := ast.Unparen(cond).(*ast.BinaryExpr)
			if !ok {
				return outs
			}
			// len(F) > 0, 0 < len(F), len(F) != 0 hold / len(F) == 0 fails: F is not empty
			lenSide, zeroSide := be.X, be.Y
			op := be.Op
			if k, isC := constInt(x.Fn.Info, be.X); isC && k == 0 {
				lenSide, zeroSide = be.Y, be.X
				if op == token.LSS {
					op = token.GTR
				}
			}
			if k, isC := constInt(x.Fn.Info, zeroSide); !isC || k != 0 {
				return outs
			}
			switch {
			case op == token.GTR || op == token.NEQ:
			case op == token.EQL:
				truth = !truth
			default:
				return outs
			}
			call, ok := ast.Unparen(lenSide).(*ast.CallExpr)
			if !ok || exprStr(call.Fun) != "len" || len(call.Args) != 1 || len(outs) == 0 {
				return outs
			}
			f := selName(call.Args[0])
			if !fields[f] {
				if t, ok := b.Term(x, call.Args[0], outs[0]); ok {
					if i := strings.LastIndex(t, "."); i >= 0 {
						f = t[i+1:]
					}
				}
			}
			if !fields[f] {
				return outs
			}
			for i := range outs {
				if truth {
					outs[i] = outs[i].Set("need:"+f, "1")
				}
			}
			return outs
		},
		PreAssign: func(x *Exec, as *ast.AssignStmt, s St) St {
			// next iteration of the loop over the output files
			if len(as.Rhs) == 1 {
				if u, ok := as.Rhs[0].(*ast.UnaryExpr); ok && u.Op == token.RANGE && selName(u.X) == "OutputFiles" {
					s = check(x, s, "Contents", as.Pos(), "the next output file")
				}
			}
			return s
		},
		Stmt: func(x *Exec, n ast.Node, s St) ([]St, bool) {
			if le, ok := n.(*LoopExit); ok && le.Range != nil && selName(le.Range.X) == "OutputFiles" {
				return []St{check(x, s, "Contents", le.Range.Pos(), "the end of the loop over the output files")}, true
			}
			return nil, false
		},
		EveryCall: func(x *Exec, call *ast.CallExpr, s St) []St {
			if calleeKey(x.Fn.Info, call) != "disk.(Cache).Put" || len(call.Args) != 5 {
				return []St{s}
			}
			if exprStr(call.Args[1]) == "cache.AC" {
				for _, f := range []string{"StdoutRaw", "StderrRaw", "Contents"} {
					s = check(x, s, f, call.Pos(), "the action-cache Put")
				}
				return []St{s}
			}
			if rd, ok := ast.Unparen(call.Args[4]).(*ast.CallExpr); ok && fullCalleeName(x.Fn.Info, rd) == "bytes.NewReader" && len(rd.Args) == 1 {
				f := selName(rd.Args[0])
				if !fields[f] {
					// inside a helper the bytes are a parameter: resolve it to the caller's expression
					if t, ok := b.Term(x, rd.Args[0], s); ok {
						if i := strings.LastIndex(t, "."); i >= 0 {
							f = t[i+1:]
						}
					}
				}
				if fields[f] {
					s = s.Set("done:"+f, "1")
				}
			}
			return []St{s}
		},
	})
	b.H.Call = errFork(b)
	b.InlineOwnHelpers()
	x := NewExec(c.P.FlowOf(fi), b)
	x.Run(newSt())
	for f := range fields {
		if !seen[f] {
			R.Fail("R01i", c.Cfg+"UpdateActionResult:inlined:"+f+":verified", c.P.Pos(fi.Decl.Pos()), "no path with non-empty "+f+" was found (the len("+f+") > 0 test is gone)")
		}
	}
}

// ---------------------------------------------------------------- R04f

func itemConsistentPaths(c *Ctx) {
	R := c.R
	R.Rule("R04f", "E3", "a file is addressed through one index item: every FileLocation call in cache/disk takes legacy, size and random from fields of the same lruItem value (the name on disk is a function of the item, not of the request)", 3)
	n := 0
	for _, fi := range c.P.FuncsInPkg("/cache/disk") {
		if strings.HasSuffix(c.P.Fset.Position(fi.Decl.Pos()).Filename, "_test.go") || fi.Decl.Body == nil {
			continue
		}
		info := fi.Pkg.TypesInfo
		for _, call := range callsIn(fi.Decl.Body, true) {
			if calleeKey(info, call) != "disk.(*diskCache).FileLocation" || len(call.Args) != 5 {
				continue
			}
			n++
			var base types.Object
			ok := true
			why := ""
			for idx, want := range map[int]string{1: "legacy", 3: "size", 4: "random"} {
				sel, isSel := ast.Unparen(call.Args[idx]).(*ast.SelectorExpr)
				if !isSel || sel.Sel.Name != want {
					ok, why = false, fmt.Sprintf("argument %d is %s, not the item's %s field", idx+1, exprStr(call.Args[idx]), want)
					continue
				}
				o := identObj(info, sel.X)
				if o == nil || !strings.HasSuffix(o.Type().String(), "disk.lruItem") {
					ok, why = false, exprStr(sel.X)+" is not an lruItem"
					continue
				}
				if base == nil {
					base = o
				} else if base != o {
					ok, why = false, "fields of different items are mixed"
				}
			}
			R.Check(ok, "R04f", fmt.Sprintf("%s%s:FileLocation#%d:one-item", c.Cfg, fi.Key, callOrdinalIn(fi, info, call)), c.P.Pos(call.Pos()),
				"legacy, size and random come from one lruItem", why+": the path that is opened or removed is not the file the index entry stands for")
		}
	}
	R.Check(n >= 3, "R04f", c.Cfg+"FileLocation:sites", "", "FileLocation call sites were analysed", fmt.Sprintf("%d found", n))
}

// ---------------------------------------------------------------- R06g

func emptyEntryIsMiss(c *Ctx) {
	R := c.R
	R.Rule("R06g", "E2", "an empty stored action result is a miss: the bytes read from the action cache are decoded into an ActionResult only on paths where the reported size is known to be > 0 (a zero-length file decodes to a valid empty message)", 2)
	for _, key := range []string{"disk.(*diskCache).GetValidatedActionResult", "server.(*grpcServer).GetActionResult"} {
		fi := c.P.MustFunc(R, "R06g", key)
		if fi == nil {
			continue
		}
		var b *Base
		n := 0
		b = NewBase(Hooks{
			Assign: func(x *Exec, as *ast.AssignStmt, s St) []St {
				if len(as.Rhs) == 1 && len(as.Lhs) == 3 {
					if call, ok := ast.Unparen(as.Rhs[0]).(*ast.CallExpr); ok {
						k := calleeKey(x.Fn.Info, call)
						if k == "disk.(Cache).Get" || k == "disk.(*diskCache).Get" {
							if t, ok := b.LTerm(x, as.Lhs[1], s); ok {
								s = s.Set("acsize", t)
							}
						}
					}
				}
				return []St{s}
			},
			EveryCall: func(x *Exec, call *ast.CallExpr, s St) []St {
				if fullCalleeName(x.Fn.Info, call) == "google.golang.org/protobuf/proto.Unmarshal" || strings.HasSuffix(fullCalleeName(x.Fn.Info, call), "proto.Unmarshal") {
					if sz := s.Get("acsize"); sz != "" && len(call.Args) == 2 && strings.HasSuffix(x.Fn.Info.TypeOf(call.Args[1]).String(), "v2.ActionResult") {
						n++
						R.Check(relIs(s, "#0", "<", sz, true), "R06g", fmt.Sprintf("%s%s:Unmarshal#%d:nonempty", c.Cfg, key, callOrdinal(x, call)), c.P.Pos(call.Pos()),
							"the stored entry is decoded only when its size is > 0", "a zero-length entry can be decoded and served as a hit (an empty ActionResult)", x.Trace()...)
					}
				}
				return []St{s}
			},
		})
		b.H.Call = errFork(b)
		// a helper split off the handler is interpreted in place, except the cache's own entry points
		b.AutoInline = func(h *FuncInfo) bool {
			return h.Pkg == fi.Pkg && !ast.IsExported(h.Decl.Name.Name) && h.Key != "disk.(*diskCache).get" && h.Key != "disk.(*diskCache).findMissingCasBlobsInternal"
		}
		x := NewExec(c.P.FlowOf(fi), b)
		x.Run(newSt())
		R.Check(n > 0, "R06g", c.Cfg+key+":decode-sites", "", "the decode of the stored entry was found", "no proto.Unmarshal into an ActionResult after a cache Get found")
	}
}

// ---------------------------------------------------------------- R09e (levels)

func lostFoundLevels(c *Ctx) {
	R := c.R
	fi := c.P.MustFunc(R, "R09e", "disk.(*diskCache).scanDir")
	if fi == nil {
		return
	}
	info := fi.Pkg.TypesInfo
	n, bad := 0, ""
	var visit func(rs *ast.RangeStmt)
	visit = func(rs *ast.RangeStmt) {
		v := identObj(info, rs.Value)
		names := map[types.Object]bool{}
		var nested []*ast.RangeStmt
		var scan func(nd ast.Node)
		scan = func(nd ast.Node) {
			ast.Inspect(nd, func(m ast.Node) bool {
				switch t := m.(type) {
				case *ast.RangeStmt:
					if t != rs {
						nested = append(nested, t)
						return false
					}
				case *ast.FuncLit:
					return true
				case *ast.AssignStmt:
					if len(t.Rhs) == 1 && len(t.Lhs) == 1 {
						if call, ok := ast.Unparen(t.Rhs[0]).(*ast.CallExpr); ok {
							if sel, ok := call.Fun.(*ast.SelectorExpr); ok && sel.Sel.Name == "Name" && v != nil && identObj(info, sel.X) == v {
								if o := identObj(info, t.Lhs[0]); o != nil {
									names[o] = true
								}
							}
						}
					}
				case *ast.BinaryExpr:
					if t.Op == token.EQL || t.Op == token.NEQ {
						for _, pr := range [][2]ast.Expr{{t.X, t.Y}, {t.Y, t.X}} {
							if cs, ok := constString(info, pr[1]); ok && cs == "lost+found" {
								n++
								lhs := ast.Unparen(pr[0])
								ok := false
								if o := identObj(info, lhs); o != nil && names[o] {
									ok = true
								}
								if call, isCall := lhs.(*ast.CallExpr); isCall {
									if sel, isSel := call.Fun.(*ast.SelectorExpr); isSel && sel.Sel.Name == "Name" && identObj(info, sel.X) == v {
										ok = true
									}
								}
								if !ok {
									bad = fmt.Sprintf("%s compares %s, which is not the name of the entry this loop visits", c.P.Pos(t.Pos()), exprStr(lhs))
								}
							}
						}
					}
				}
				return true
			})
		}
		scan(rs.Body)
		for _, nr := range nested {
			visit(nr)
		}
	}
	var tops []*ast.RangeStmt
	ast.Inspect(fi.Decl.Body, func(m ast.Node) bool {
		if rs, ok := m.(*ast.RangeStmt); ok {
			if t := info.TypeOf(rs.X); t != nil && strings.Contains(t.String(), "DirEntry") {
				tops = append(tops, rs)
				return false
			}
		}
		return true
	})
	for _, rs := range tops {
		visit(rs)
	}
	R.Check(bad == "" && n >= 3, "R09e", c.Cfg+"scanDir:lost+found-levels", c.P.Pos(fi.Decl.Pos()), "at each of the three directory levels the lost+found test is applied to the entry of that level",
		fmt.Sprintf("%d lost+found tests found; %s", n, bad))
}

// ---------------------------------------------------------------- R11e (only when absent)

func workerOnlyWhenAbsent(c *Ctx) {
	R := c.R
	for _, key := range []string{"server.addWorkerMetadataGRPC", "server.addWorkerMetadataHTTP"} {
		fi := c.P.MustFunc(R, "R11e", key)
		if fi == nil {
			continue
		}
		var b *Base
		n := 0
		b = NewBase(Hooks{PreAssign: func(x *Exec, as *ast.AssignStmt, s St) St {
			for _, l := range as.Lhs {
				sel, ok := ast.Unparen(l).(*ast.SelectorExpr)
				if !ok {
					continue
				}
				switch sel.Sel.Name {
				case "ExecutionMetadata":
					n++
					t, _ := b.Term(x, sel, s)
					R.Check(s.Get("n:"+t) == "nil", "R11e", fmt.Sprintf("%s%s:create#%d:only-when-absent", c.Cfg, key, n), c.P.Pos(as.Pos()),
						"the execution metadata of the upload is replaced only when the upload carries none", "the uploaded execution metadata can be overwritten (timestamps and auxiliary metadata of the result are lost)", x.Trace()...)
					s = s.Set("freshmeta", "1")
				case "Worker":
					n++
					t, _ := b.Term(x, sel, s)
					empty := s.Get("freshmeta") == "1" || relIs(s, `#""`, "==", t, true)
					R.Check(empty, "R11e", fmt.Sprintf("%s%s:worker#%d:only-when-empty", c.Cfg, key, n), c.P.Pos(as.Pos()),
						"the worker name is filled in only when the upload has none", "a worker name given by the client can be overwritten", x.Trace()...)
				}
			}
			return s
		}})
		b.H.Call = errFork(b)
		x := NewExec(c.P.FlowOf(fi), b)
		x.Run(newSt())
		R.Check(n >= 2, "R11e", c.Cfg+key+":metadata-writes", "", "the metadata assignments were analysed", fmt.Sprintf("%d found", n))
	}
}

// ---------------------------------------------------------------- R14i

func workerDoneOnce(c *Ctx) {
	R := c.R
	R.Rule("R14i", "E2", "every queued backend check is answered: each iteration of containsWorker calls req.wg.Done() exactly once on every path (the requester's wg.Wait, and the goroutine that waits for it, otherwise never finish)", 2)
	fi := c.P.MustFunc(R, "R14i", "disk.(*diskCache).containsWorker")
	if fi == nil {
		return
	}
	var b *Base
	n := 0
	endOfIteration := func(x *Exec, s St, pos token.Pos, where string) St {
		if s.Get("iter") == "1" {
			n++
			R.Check(s.Get("wgdone") == "1", "R14i", c.Cfg+"containsWorker:iteration:done-called", c.P.Pos(pos),
				"the wait group is signalled before "+where, "an iteration ends without req.wg.Done(): findMissingCasBlobsInternal's wg.Wait() never returns and its helper goroutine leaks", x.Trace()...)
		}
		return s.Set("wgdone", "")
	}
	b = NewBase(Hooks{
		PreAssign: func(x *Exec, as *ast.AssignStmt, s St) St {
			if len(as.Rhs) == 1 {
				if u, ok := as.Rhs[0].(*ast.UnaryExpr); ok && u.Op == token.RANGE {
					s = endOfIteration(x, s, as.Pos(), "the next request is taken")
					s = s.Set("iter", "1")
				}
			}
			return s
		},
		Stmt: func(x *Exec, nd ast.Node, s St) ([]St, bool) {
			if le, ok := nd.(*LoopExit); ok && le.Range != nil {
				return []St{endOfIteration(x, s, le.Range.Pos(), "the worker exits")}, true
			}
			return nil, false
		},
		EveryCall: func(x *Exec, call *ast.CallExpr, s St) []St {
			if fullCalleeName(x.Fn.Info, call) == "sync.(WaitGroup).Done" {
				R.Check(s.Get("wgdone") != "1", "R14i", c.Cfg+"containsWorker:iteration:done-once", c.P.Pos(call.Pos()),
					"req.wg.Done() is not called twice in one iteration", "req.wg.Done() can be called twice for one request (negative WaitGroup counter panics)", x.Trace()...)
				return []St{s.Set("wgdone", "1")}
			}
			return []St{s}
		},
	})
	b.InlineOwnHelpers()
	x := NewExec(c.P.FlowOf(fi), b)
	x.Run(newSt())
	R.Check(n > 0, "R14i", c.Cfg+"containsWorker:iterations", "", "iteration ends of the worker loop were analysed", "none found")
}

// ---------------------------------------------------------------- R20f

func prefixOnlyJoined(c *Ctx) {
	R := c.R
	R.Rule("R20f", "E3", "the configured object prefix reaches the object key only through path.Join (which cleans it) or a comparison: the published key for prefix P is Join(P, ...), not P + \"/\" + ...", 4)
	n := 0
	for _, key := range []string{"s3proxy.objectKeyV1", "s3proxy.objectKeyV2", "azblobproxy.objectKeyV1", "azblobproxy.objectKeyV2"} {
		fi := c.P.MustFunc(R, "R20f", key)
		if fi == nil {
			continue
		}
		info := fi.Pkg.TypesInfo
		if fi.Decl.Type.Params == nil || len(fi.Decl.Type.Params.List) == 0 || len(fi.Decl.Type.Params.List[0].Names) == 0 {
			continue
		}
		prefix := info.Defs[fi.Decl.Type.Params.List[0].Names[0]]
		bad := ""
		var parents []ast.Node
		ast.Inspect(fi.Decl.Body, func(m ast.Node) bool {
			if m == nil {
				parents = parents[:len(parents)-1]
				return true
			}
			if id, ok := m.(*ast.Ident); ok && info.Uses[id] == prefix && len(parents) > 0 {
				okUse := false
				switch p := parents[len(parents)-1].(type) {
				case *ast.BinaryExpr:
					okUse = p.Op == token.EQL || p.Op == token.NEQ
				case *ast.CallExpr:
					full := fullCalleeName(info, p)
					okUse = full == "path.Join"
				}
				if !okUse {
					bad = fmt.Sprintf("%s: %s", c.P.Pos(id.Pos()), exprStr(parents[len(parents)-1].(ast.Expr)))
				}
			}
			parents = append(parents, m)
			return true
		})
		n++
		R.Check(bad == "", "R20f", c.Cfg+key+":prefix-joined", c.P.Pos(fi.Decl.Pos()), "the prefix is only compared or passed to path.Join",
			"the prefix is used in "+bad+": a prefix with a trailing or doubled slash yields a different object name than the published path.Join form, objects written by other releases are not found")
	}
	R.Check(n == 4, "R20f", c.Cfg+"objectKey:functions", "", "the four object-key functions were analysed", fmt.Sprintf("%d found", n))
}
