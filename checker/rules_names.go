package main

// File names, object keys, resource names and key spaces:
//   R04d path provenance of file operations in cache/disk
//   R04e / R09d / R20d writer <-> reader <-> loader name agreement; published file naming
//   R09b oldest first, R09c migration names, R09e tolerated foreign entries, R09f backlog awaited
//   R12g / R20e backend object keys, URLs, gRPC resource names
//   R15a key and directory tables

import (
	"fmt"
	"go/ast"
	"go/token"
	"go/types"
	"regexp"
	"sort"
	"strings"
)

const sampleHash = "0123456789abcdef0123456789abcdef0123456789abcdef0123456789abcdef"

func instantiate(tpl string, vals map[string]string) string {
	out := tpl
	for k, v := range vals {
		out = strings.ReplaceAll(out, "<"+k+">", v)
	}
	return out
}

var publishedFileNames = map[string]string{
	"hash=...,kind=RAW":              "raw.v2/<hash[:2]>/<hash>-<random>",
	"kind=AC":                        "ac.v2/<hash[:2]>/<hash>-<random>",
	"kind=CAS,legacy=true":           "cas.v2/<hash[:2]>/<hash>-<random>.v1",
	"kind=CAS,legacy=false":          "cas.v2/<hash[:2]>/<hash>-<size>-<random>",
	"kind=RAW":                       "raw.v2/<hash[:2]>/<hash>-<random>",
	"base:kind=RAW":                  "raw.v2/<hash[:2]>/<hash>",
	"base:kind=AC":                   "ac.v2/<hash[:2]>/<hash>",
	"base:kind=CAS,legacy=true":      "cas.v2/<hash[:2]>/<hash>",
	"base:kind=CAS,legacy=false":     "cas.v2/<hash[:2]>/<hash>-<size>",
}

func pickCase(cases []tplCase, kind string, legacy string) (string, bool) {
	found := ""
	n := 0
	for _, tc := range cases {
		if !strings.Contains(","+tc.Cond+",", ",kind="+kind+",") {
			continue
		}
		if legacy != "" && !strings.Contains(","+tc.Cond+",", ",legacy="+legacy+",") {
			continue
		}
		if found != "" && found != tc.Tpl {
			return "", false
		}
		found = tc.Tpl
		n++
	}
	return found, n > 0
}

func nameRules(c *Ctx, want map[string]bool) {
	R := c.R
	dpkg := c.P.Pkg("/cache/disk")
	if dpkg == nil {
		R.Fail("R04e", c.Cfg+"anchor:cache/disk", "", "package does not load")
		return
	}
	info := dpkg.TypesInfo
	var loc, locBase []tplCase
	if fi := c.P.MustFunc(R, "R04e", "disk.(*diskCache).FileLocation"); fi != nil {
		loc = templatesOf(c, c.P.FlowOf(fi), "R04e")
	}
	if fi := c.P.MustFunc(R, "R04e", "disk.(*diskCache).FileLocationBase"); fi != nil {
		locBase = templatesOf(c, c.P.FlowOf(fi), "R04e")
	}
	// tempfile.Create: name = base + "-" + random [+ ".v1"]
	createTpl := map[string]string{}
	if fi := c.P.MustFunc(R, "R04e", "tempfile.(*Creator).Create"); fi != nil {
		tinfo := fi.Pkg.TypesInfo
		env := newTplEnv(tinfo, &ast.BlockStmt{})
		// roles: the base is Create's string parameter, legacy its bool parameter, the random part a
		// local produced by a method of the creator; the name is what os.OpenFile is given
		var baseObj, legacyObj, randomObj, nameObj types.Object
		for i := 0; ; i++ {
			po := paramObj(fi, i)
			if po == nil {
				break
			}
			switch po.Type().String() {
			case "string":
				baseObj = po
			case "bool":
				legacyObj = po
			}
		}
		var nameDef ast.Expr
		ast.Inspect(fi.Decl.Body, func(n ast.Node) bool {
			switch n := n.(type) {
			case *ast.AssignStmt:
				if len(n.Lhs) == 1 && len(n.Rhs) == 1 {
					if call, ok := ast.Unparen(n.Rhs[0]).(*ast.CallExpr); ok {
						if sel, ok := call.Fun.(*ast.SelectorExpr); ok && tinfo.TypeOf(call) != nil && tinfo.TypeOf(call).String() == "string" {
							if ro := identObj(tinfo, sel.X); ro != nil && fi.Decl.Recv != nil && len(fi.Decl.Recv.List[0].Names) == 1 && ro == tinfo.Defs[fi.Decl.Recv.List[0].Names[0]] {
								randomObj = identObj(tinfo, n.Lhs[0])
							}
						}
					}
				}
			case *ast.CallExpr:
				if fullCalleeName(tinfo, n) == "os.OpenFile" && len(n.Args) == 3 {
					nameObj = identObj(tinfo, n.Args[0])
				}
			}
			return true
		})
		norm := func(tpl string) string {
			if baseObj != nil {
				tpl = strings.ReplaceAll(tpl, "<"+baseObj.Name()+">", "<base>")
			}
			if randomObj != nil {
				tpl = strings.ReplaceAll(tpl, "<"+randomObj.Name()+">", "<random>")
			}
			return tpl
		}
		ast.Inspect(fi.Decl.Body, func(n ast.Node) bool {
			switch n := n.(type) {
			case *ast.IfStmt:
				// if legacy { name = ... } else { name = ... }
				if legacyObj == nil || identObj(tinfo, n.Cond) != legacyObj {
					return true
				}
				get := func(b *ast.BlockStmt) string {
					for _, st := range b.List {
						if as, ok := st.(*ast.AssignStmt); ok && len(as.Lhs) == 1 && nameObj != nil && identObj(tinfo, as.Lhs[0]) == nameObj {
							return norm(env.eval(as.Rhs[0]))
						}
					}
					return ""
				}
				createTpl["true"] = get(n.Body)
				if el, ok := n.Else.(*ast.BlockStmt); ok {
					createTpl["false"] = get(el)
				}
			case *ast.AssignStmt:
				if len(n.Lhs) == 1 && len(n.Rhs) == 1 && nameObj != nil && identObj(tinfo, n.Lhs[0]) == nameObj {
					nameDef = n.Rhs[0]
				}
			}
			return true
		})
		// name := helper(base, random, legacy): the helper's templates per value of its bool parameter
		if createTpl["true"] == "" && createTpl["false"] == "" && nameDef != nil {
			if call, ok := ast.Unparen(nameDef).(*ast.CallExpr); ok {
				if h := c.P.Func(calleeKey(tinfo, call)); h != nil && h.Pkg == fi.Pkg && h.Decl.Body != nil {
					for _, tc := range templatesOf(c, c.P.FlowOf(h), "R04e") {
						tpl := tc.Tpl
						val := ""
						for i, a := range call.Args {
							po := paramObj(h, i)
							if po == nil {
								continue
							}
							if po.Type().String() == "bool" {
								if strings.Contains(tc.Cond, po.Name()+"=true") {
									val = "true"
								} else if strings.Contains(tc.Cond, po.Name()+"=false") {
									val = "false"
								}
								continue
							}
							tpl = strings.ReplaceAll(tpl, "<"+po.Name()+">", env.eval(a))
						}
						if val != "" {
							createTpl[val] = norm(tpl)
						}
					}
				}
			}
		}
		// created exclusively: O_CREATE|O_EXCL
		excl := false
		if o, ok := fi.Pkg.Types.Scope().Lookup("flags").(*types.Const); ok {
			// os.O_RDWR | os.O_CREATE | os.O_EXCL == 0x2|0x40|0x80 on linux
			excl = o.Val().ExactString() == "194"
		}
		R.Check(excl, "R04e", c.Cfg+"tempfile.Create:O_EXCL", c.P.Pos(fi.Decl.Pos()), "new files are opened with O_RDWR|O_CREATE|O_EXCL (a name collision is retried, never overwritten)", "tempfile flags are not O_RDWR|O_CREATE|O_EXCL")
	}

	type combo struct{ kind, legacy string }
	combos := []combo{{"RAW", ""}, {"AC", ""}, {"CAS", "true"}, {"CAS", "false"}}
	// the loader's grammar
	var loaderRe *regexp.Regexp
	var scan *FuncInfo
	if scan = c.P.MustFunc(R, "R04e", "disk.(*diskCache).scanDir"); scan != nil {
		for _, call := range callsIn(scan.Decl.Body, true) {
			if fullCalleeName(info, call) == "regexp.MustCompile" {
				if pat, ok := constString(info, call.Args[0]); ok && strings.Contains(pat, "{64}") {
					loaderRe, _ = regexp.Compile(pat)
				}
			}
		}
	}
	if want["R04e"] {
		R.Rule("R04e", "E6", "writer <-> reader <-> loader name agreement: for each (kind, legacy) the name Create gives to FileLocationBase(...) is the name FileLocation(...) computes; every such name matches the loader's grammar with the capture groups landing on (hash, size, random, legacy) as scanDir assigns them", 11)
		R.Check(loaderRe != nil, "R04e", c.Cfg+"scanDir:regexp", "", "the loader's file-name grammar was found", "no file-name regexp found in scanDir")
		for _, cb := range combos {
			name := "kind=" + cb.kind
			if cb.legacy != "" {
				name += ",legacy=" + cb.legacy
			}
			l, ok1 := pickCase(loc, cb.kind, cb.legacy)
			b, ok2 := pickCase(locBase, cb.kind, cb.legacy)
			leg := "false"
			if cb.kind == "CAS" && cb.legacy == "true" {
				leg = "true"
			}
			created := strings.ReplaceAll(createTpl[leg], "<base>", b)
			R.Check(ok1 && ok2 && created == l && l != "", "R04e", c.Cfg+"name:"+name+":create=location", "", fmt.Sprintf("Create(FileLocationBase, legacy) gives %q, which is FileLocation", l),
				fmt.Sprintf("the writer creates %q but the reader/remover computes %q for the same entry: entries written can not be opened or removed", created, l))
			if loaderRe != nil && l != "" {
				inst := instantiate(l, map[string]string{"hash[:2]": sampleHash[:2], "hash": sampleHash, "size": "12345", "random": "6789012"})
				base := inst[strings.LastIndex(inst, "/")+1:]
				sm := loaderRe.FindStringSubmatch(base)
				okRe := len(sm) == 5 && sm[1] == sampleHash && sm[3] == "6789012"
				if okRe {
					if cb.kind == "CAS" && cb.legacy == "false" {
						okRe = sm[2] == "12345" && sm[4] == ""
					} else if cb.kind == "CAS" {
						okRe = sm[2] == "" && sm[4] == ".v1"
					} else {
						okRe = sm[2] == "" && sm[4] == ""
					}
				}
				R.Check(okRe, "R04e", c.Cfg+"name:"+name+":loader-accepts", "", fmt.Sprintf("the loader's grammar parses %q into (hash, size, random, legacy) correctly", base),
					fmt.Sprintf("the loader's grammar does not parse %q into the right groups (%q): entries written by this build are refused or mis-indexed at the next start", base, sm))
			}
		}
		// how scanDir uses the groups
		if scan != nil {
			uses := map[string]string{}
			sinfo := scan.Pkg.TypesInfo
			smObj := submatchVar(scan)
			var hashObj, prefixObj types.Object
			groupIdx := func(e ast.Expr) int64 {
				if ix, ok := ast.Unparen(e).(*ast.IndexExpr); ok && smObj != nil && identObj(sinfo, ix.X) == smObj {
					if k, ok := constInt(sinfo, ix.Index); ok {
						return k
					}
				}
				return -1
			}
			ast.Inspect(scan.Decl.Body, func(n ast.Node) bool {
				if as, ok := n.(*ast.AssignStmt); ok && len(as.Rhs) == 1 && len(as.Lhs) >= 1 {
					if groupIdx(as.Rhs[0]) == 1 {
						hashObj = identObj(sinfo, as.Lhs[0])
					}
				}
				return true
			})
			ast.Inspect(scan.Decl.Body, func(n ast.Node) bool {
				if as, ok := n.(*ast.AssignStmt); ok && len(as.Rhs) == 1 {
					rhs := ast.Unparen(as.Rhs[0])
					for _, l := range as.Lhs {
						ls := exprStr(l)
						switch {
						case hashObj != nil && identObj(sinfo, l) == hashObj && groupIdx(rhs) == 1:
							uses["hash"] = "group 1"
						case strings.HasSuffix(ls, ".size"):
							if call, ok := rhs.(*ast.CallExpr); ok && fullCalleeName(sinfo, call) == "strconv.ParseInt" && len(call.Args) == 3 && groupIdx(call.Args[0]) == 2 {
								uses["size"] = "ParseInt(group 2)"
							}
						case strings.HasSuffix(ls, ".random") && groupIdx(rhs) == 3:
							uses["random"] = "group 3"
						case strings.HasSuffix(ls, ".legacy"):
							if be, ok := rhs.(*ast.BinaryExpr); ok && be.Op == token.EQL && groupIdx(be.X) == 4 {
								if cs, ok := constString(sinfo, be.Y); ok && cs == ".v1" {
									uses["legacy"] = `group 4 == ".v1"`
								}
							}
						case strings.HasSuffix(ls, ".sizeOnDisk"):
							if call, ok := rhs.(*ast.CallExpr); ok && strings.HasSuffix(fullCalleeName(sinfo, call), "FileInfo).Size") {
								uses["sizeOnDisk"] = "FileInfo.Size()"
							}
						case strings.HasSuffix(ls, ".lookupKey"):
							if be, ok := rhs.(*ast.BinaryExpr); ok && be.Op == token.ADD && hashObj != nil && identObj(sinfo, be.Y) == hashObj {
								if po := identObj(sinfo, be.X); po != nil {
									prefixObj = po
									uses["key"] = "prefix + hash"
								}
							}
						}
					}
				}
				return true
			})
			_ = prefixObj
			R.Check(len(uses) == 6, "R04e", c.Cfg+"scanDir:group-use", c.P.Pos(scan.Decl.Pos()), "scanDir takes hash, logical size, random suffix and legacy flag from groups 1-4, the size on disk from the file and the key from prefix+hash", fmt.Sprintf("recognised only %v", uses))
		}
	}
	if want["R20d"] {
		R.Rule("R20d", "E6", "file naming equals the published v2 layout: cas.v2/<hh>/<hash>-<size>-<rand>, cas.v2/<hh>/<hash>-<rand>.v1, ac.v2/<hh>/<hash>-<rand>, raw.v2/<hh>/<hash>-<rand>; the loader accepts any alphanumeric suffix", 5)
		for _, cb := range combos {
			name := "kind=" + cb.kind
			if cb.legacy != "" {
				name += ",legacy=" + cb.legacy
			}
			l, _ := pickCase(loc, cb.kind, cb.legacy)
			R.Check(l == publishedFileNames[name], "R20d", c.Cfg+"published:"+name, "", "FileLocation for "+name+" is "+publishedFileNames[name], "FileLocation for "+name+" is "+l+" (a directory written by another 2.x release is no longer read, and vice versa)")
		}
		if loaderRe != nil {
			ok := loaderRe.MatchString(sampleHash+"-AbC09xyz") && loaderRe.MatchString(sampleHash+"-Zz9.v1") && !loaderRe.MatchString(sampleHash+"-")
			R.Check(ok, "R20d", c.Cfg+"published:suffix-alphabet", "", "the loader accepts any [0-9a-zA-Z]+ suffix", "the loader's grammar rejects suffixes other releases may have written (or accepts an empty one)")
		}
	}
	if want["R15a"] {
		R.Rule("R15a", "E7", "key and directory tables are injective and inverted consistently: EntryKind.String / DirName map the three kinds to three distinct names none of which is a prefix of another, LookupKey is String()+\"/\"+hash, getElementPath's and scanDir's prefix tables invert them", 8)
		kinds := map[string]map[string]string{}
		for _, m := range []string{"String", "DirName"} {
			kinds[m] = map[string]string{}
			if fi := c.P.MustFunc(R, "R15a", "cache.(EntryKind)."+m); fi != nil {
				for _, tc := range templatesOf(c, c.P.FlowOf(fi), "R15a") {
					for _, k := range []string{"AC", "CAS", "RAW"} {
						if strings.Contains(tc.Cond, "="+k) && !strings.Contains(tc.Cond, "|") {
							kinds[m][k] = tc.Tpl
						}
					}
				}
			}
			vals := []string{}
			for _, v := range kinds[m] {
				vals = append(vals, v)
			}
			sort.Strings(vals)
			okInj := len(kinds[m]) == 3
			for i := range vals {
				for j := range vals {
					if i != j && strings.HasPrefix(vals[j], vals[i]) {
						okInj = false
					}
				}
			}
			R.Check(okInj, "R15a", c.Cfg+"EntryKind."+m+":injective", "", fmt.Sprintf("EntryKind.%s maps AC, CAS, RAW to three distinct, prefix-free names %v", m, kinds[m]), fmt.Sprintf("EntryKind.%s table is %v: two key spaces share a name or one name is a prefix of another", m, kinds[m]))
		}
		want3 := map[string]string{"AC": "ac", "CAS": "cas", "RAW": "raw"}
		for k, v := range want3 {
			R.Check(kinds["String"][k] == v && kinds["DirName"][k] == v+".v2", "R15a", c.Cfg+"EntryKind:"+k, "", fmt.Sprintf("kind %s is %q / %q", k, v, v+".v2"), fmt.Sprintf("kind %s is %q / %q", k, kinds["String"][k], kinds["DirName"][k]))
		}
		if fi := c.P.MustFunc(R, "R15a", "cache.LookupKey"); fi != nil {
			cs := templatesOf(c, c.P.FlowOf(fi), "R15a")
			R.Check(len(cs) == 1 && cs[0].Tpl == "<kind.String>/<hash>", "R15a", c.Cfg+"LookupKey", c.P.Pos(fi.Decl.Pos()), "LookupKey(kind, hash) is kind.String() + \"/\" + hash", "LookupKey is "+tplTable(cs))
		}
		// getElementPath prefix dispatch
		if fi := c.P.MustFunc(R, "R15a", "disk.(*diskCache).getElementPath"); fi != nil {
			got, dflt := prefixTable(c, fi, func(e ast.Expr) (string, bool) {
				if t := info.TypeOf(e); t != nil && strings.HasSuffix(t.String(), "cache.EntryKind") {
					return exprStr(e), true
				}
				return "", false
			})
			// an arm may be left to the default (the kind a key has when no other prefix matches)
			for _, p := range []string{"cas", "ac", "raw"} {
				if _, ok := got[p]; !ok && dflt != "" {
					got[p] = dflt
					dflt = ""
				}
			}
			ok := got["cas"] == "cache.CAS" && got["ac"] == "cache.AC" && got["raw"] == "cache.RAW" && len(got) == 3
			R.Check(ok, "R15a", c.Cfg+"getElementPath:prefix-table", c.P.Pos(fi.Decl.Pos()), "getElementPath maps the key prefixes cas/ac/raw back to their kinds", fmt.Sprintf("prefix table is %v", got))
			// the path is built from FileLocation with the entry's own fields
			okLoc := false
			for _, call := range callsIn(fi.Decl.Body, false) {
				if calleeKey(info, call) == "disk.(*diskCache).FileLocation" && len(call.Args) == 5 {
					val := paramObj(fi, 1)
					fieldOf := func(e ast.Expr, name string) bool {
						sel, ok := ast.Unparen(e).(*ast.SelectorExpr)
						return ok && sel.Sel.Name == name && val != nil && identObj(info, sel.X) == val
					}
					okLoc = len(call.Args) == 5 && fieldOf(call.Args[1], "legacy") && fieldOf(call.Args[3], "size") && fieldOf(call.Args[4], "random")
				}
			}
			R.Check(okLoc, "R15a", c.Cfg+"getElementPath:location", c.P.Pos(fi.Decl.Pos()), "getElementPath is dir + FileLocation(kind, value.legacy, hash, value.size, value.random)", "getElementPath does not build the path from the entry's own fields")
		}
		if scan != nil {
			got0, _ := prefixTable(c, scan, func(e ast.Expr) (string, bool) { return constString(info, e) })
			got := map[string]string{}
			for p, v := range got0 {
				if strings.HasSuffix(p, ".v2/") {
					got[p] = v
				}
			}
			ok := len(got) == 3
			for k, v := range want3 {
				if got[kinds["DirName"][k]+"/"] != v+"/" {
					ok = false
				}
			}
			R.Check(ok, "R15a", c.Cfg+"scanDir:dir-to-key-prefix", c.P.Pos(scan.Decl.Pos()), "scanDir maps each DirName()+\"/\" to the matching String()+\"/\" key prefix", fmt.Sprintf("directory table is %v", got))
		}
	}
	if want["R09c"] {
		R.Rule("R09c", "E6", "migration produces loadable names: the destination names of migrateDirectory / migrateV1Subdir match the loader's grammar, carry .v1 exactly for CAS and land in <kind>.v2/<hh>/", 4)
		suffixes := map[string][]string{}
		for _, key := range []string{"disk.migrateDirectory", "disk.migrateV1Subdir"} {
			fi := c.P.MustFunc(R, "R09c", key)
			if fi == nil {
				continue
			}
			ast.Inspect(fi.Decl.Body, func(n ast.Node) bool {
				if bl, ok := n.(*ast.BasicLit); ok && bl.Kind == token.STRING {
					if v, ok := constString(info, bl); ok && strings.HasPrefix(v, "-") && len(v) > 3 {
						suffixes[key] = append(suffixes[key], v)
					}
				}
				return true
			})
		}
		all := append(append([]string{}, suffixes["disk.migrateDirectory"]...), suffixes["disk.migrateV1Subdir"]...)
		R.Check(len(all) == 3, "R09c", c.Cfg+"migration:suffixes", "", fmt.Sprintf("the three migration suffixes were found: %v", all), fmt.Sprintf("found %v", all))
		if loaderRe != nil {
			for _, sfx := range all {
				name := sampleHash + sfx
				casOnly := strings.HasSuffix(sfx, ".v1")
				sm := loaderRe.FindStringSubmatch(name)
				ok := len(sm) == 5 && (sm[4] == ".v1") == casOnly
				R.Check(ok, "R09c", c.Cfg+"migration:name:"+sfx, "", "a migrated name <hash>"+sfx+" is accepted by the loader", "the loader does not accept <hash>"+sfx)
				if !casOnly {
					// migrateDirectory appends ".v1" for CAS
					sm2 := loaderRe.FindStringSubmatch(name + ".v1")
					R.Check(len(sm2) == 5 && sm2[4] == ".v1", "R09c", c.Cfg+"migration:name:"+sfx+".v1", "", "with the CAS suffix .v1 the name is accepted as a legacy entry", "not accepted")
				}
			}
		}
		if fv := c.P.Func("disk.migrateV1Subdir"); fv != nil {
			inCAS, outCAS := []string{}, []string{}
			var casBlocks []*ast.BlockStmt
			ast.Inspect(fv.Decl.Body, func(n ast.Node) bool {
				if is, ok := n.(*ast.IfStmt); ok {
					if be, ok := ast.Unparen(is.Cond).(*ast.BinaryExpr); ok && be.Op == token.EQL && (selName(be.Y) == "CAS" || selName(be.X) == "CAS") {
						casBlocks = append(casBlocks, is.Body)
					}
				}
				return true
			})
			ast.Inspect(fv.Decl.Body, func(n ast.Node) bool {
				if bl, ok := n.(*ast.BasicLit); ok && bl.Kind == token.STRING {
					if v, ok := constString(info, bl); ok && strings.HasPrefix(v, "-") && len(v) > 3 {
						in := false
						for _, b := range casBlocks {
							if bl.Pos() >= b.Pos() && bl.End() <= b.End() {
								in = true
							}
						}
						if in {
							inCAS = append(inCAS, v)
						} else {
							outCAS = append(outCAS, v)
						}
					}
				}
				return true
			})
			ok := len(inCAS) >= 1 && len(outCAS) >= 1
			for _, v := range inCAS {
				if !strings.HasSuffix(v, ".v1") {
					ok = false
				}
			}
			for _, v := range outCAS {
				if strings.HasSuffix(v, ".v1") {
					ok = false
				}
			}
			R.Check(ok, "R09c", c.Cfg+"migrateV1Subdir:v1-exactly-for-cas", c.P.Pos(fv.Decl.Pos()), "in the v1 sub-directory migration the CAS branch gives names ending in .v1 and the other branch does not", fmt.Sprintf("CAS branch suffixes %v, other suffixes %v", inCAS, outCAS))
		}
		// ".v1" is appended exactly when kind == CAS, and targets are kind.DirName()/<hh>
		if fi := c.P.Func("disk.migrateDirectory"); fi != nil {
			v1OnlyCAS, target := false, false
			ast.Inspect(fi.Decl.Body, func(n ast.Node) bool {
				if is, ok := n.(*ast.IfStmt); ok && strings.ReplaceAll(exprStr(is.Cond), " ", "") == "kind==cache.CAS" {
					for _, st := range is.Body.List {
						if as, ok := st.(*ast.AssignStmt); ok && as.Tok == token.ADD_ASSIGN && exprStr(as.Rhs[0]) == `".v1"` {
							v1OnlyCAS = true
						}
					}
				}
				if as, ok := n.(*ast.AssignStmt); ok && len(as.Lhs) == 1 && exprStr(as.Lhs[0]) == "targetDir" {
					target = strings.ReplaceAll(exprStr(as.Rhs[0]), " ", "") == "path.Join(baseDir,kind.DirName())"
				}
				return true
			})
			// every destination lands in <target>/<first two characters of the name>/
			shardOK, nJoin := true, 0
			var targetObj types.Object
			ast.Inspect(fi.Decl.Body, func(n ast.Node) bool {
				if as, ok := n.(*ast.AssignStmt); ok && len(as.Lhs) == 1 && len(as.Rhs) == 1 {
					if call, ok := ast.Unparen(as.Rhs[0]).(*ast.CallExpr); ok && strings.HasSuffix(fullCalleeName(info, call), "path.Join") || ok && strings.HasSuffix(fullCalleeName(info, call), "filepath.Join") {
						for _, a := range call.Args {
							if c2, ok := ast.Unparen(a).(*ast.CallExpr); ok && strings.HasSuffix(fullCalleeName(info, c2), "EntryKind).DirName") {
								targetObj = identObj(info, as.Lhs[0])
							}
						}
					}
				}
				return true
			})
			ast.Inspect(fi.Decl.Body, func(n ast.Node) bool {
				call, ok := n.(*ast.CallExpr)
				if !ok || !(strings.HasSuffix(fullCalleeName(info, call), "path.Join") || strings.HasSuffix(fullCalleeName(info, call), "filepath.Join")) || len(call.Args) < 2 {
					return true
				}
				if targetObj == nil || identObj(info, call.Args[0]) != targetObj {
					return true
				}
				nJoin++
				se, ok := ast.Unparen(call.Args[1]).(*ast.SliceExpr)
				if !ok || se.Low != nil || se.High == nil {
					shardOK = false
					return true
				}
				if k, isC := constInt(info, se.High); !isC || k != 2 {
					shardOK = false
				}
				return true
			})
			R.Check(shardOK && nJoin >= 2, "R09c", c.Cfg+"migrateDirectory:shard-dir", c.P.Pos(fi.Decl.Pos()), "migrated files and sub-directories go to <kind>.v2/<first two hex characters>/", fmt.Sprintf("%d destination joins, two-character shard everywhere: %v", nJoin, shardOK))
			R.Check(v1OnlyCAS && target, "R09c", c.Cfg+"migrateDirectory:v1-and-target", c.P.Pos(fi.Decl.Pos()), ".v1 is appended exactly for CAS and files move under kind.DirName()", fmt.Sprintf("v1-for-CAS=%v target-dir=%v", v1OnlyCAS, target))
		}
	}
	if want["R09b"] {
		R.Rule("R09b", "E2+E3", "oldest first: scanResult.Less orders by ascending access time, Swap swaps both slices, and the index is built by adding entries in ascending order (Add pushes to the front, so the oldest ends at the back)", 3)
		// expressions with the two index parameters written $0 / $1 (and the receiver $r), so that
		// neither their names nor the receiver's matter
		indexShape := func(fi *FuncInfo, e ast.Expr) string {
			finfo := fi.Pkg.TypesInfo
			p0, p1 := paramObj(fi, 0), paramObj(fi, 1)
			var recv types.Object
			if fi.Decl.Recv != nil && len(fi.Decl.Recv.List) == 1 && len(fi.Decl.Recv.List[0].Names) == 1 {
				recv = finfo.Defs[fi.Decl.Recv.List[0].Names[0]]
			}
			var render func(e ast.Expr) string
			render = func(e ast.Expr) string {
				switch e := ast.Unparen(e).(type) {
				case *ast.Ident:
					switch o := identObj(finfo, e); {
					case o != nil && o == p0:
						return "$0"
					case o != nil && o == p1:
						return "$1"
					case o != nil && o == recv:
						return "$r"
					}
					return e.Name
				case *ast.SelectorExpr:
					return render(e.X) + "." + e.Sel.Name
				case *ast.IndexExpr:
					return render(e.X) + "[" + render(e.Index) + "]"
				case *ast.StarExpr:
					return "*" + render(e.X)
				}
				return exprStr(e)
			}
			return render(e)
		}
		swap01 := func(s string) string {
			return strings.NewReplacer("$0", "$1", "$1", "$0").Replace(s)
		}
		if fi := c.P.MustFunc(R, "R09b", "disk.(scanResult).Less"); fi != nil {
			ok := false
			// the (only) value returned is X[i].Before(X[j]) for the access-time expression X
			var rets []*ast.ReturnStmt
			ast.Inspect(fi.Decl.Body, func(m ast.Node) bool {
				if r, k := m.(*ast.ReturnStmt); k {
					rets = append(rets, r)
				}
				return true
			})
			if len(rets) == 1 && len(rets[0].Results) == 1 {
				if call, k := ast.Unparen(rets[0].Results[0]).(*ast.CallExpr); k && fullCalleeName(info, call) == "time.(Time).Before" && len(call.Args) == 1 {
					if sel, k := call.Fun.(*ast.SelectorExpr); k {
						a, b := indexShape(fi, sel.X), indexShape(fi, call.Args[0])
						ok = strings.Contains(a, "[$0]") && !strings.Contains(a, "$1") && b == swap01(a)
					}
				}
			}
			R.Check(ok, "R09b", c.Cfg+"scanResult.Less", c.P.Pos(fi.Decl.Pos()), "Less(i, j) is ts[i].Before(ts[j]) (ascending access time)", "Less does not order by ascending access time")
		}
		if fi := c.P.MustFunc(R, "R09b", "disk.(scanResult).Swap"); fi != nil {
			swapped := map[string]bool{}
			ast.Inspect(fi.Decl.Body, func(m ast.Node) bool {
				if as, ok := m.(*ast.AssignStmt); ok && len(as.Lhs) == 2 && len(as.Rhs) == 2 {
					l0, l1 := indexShape(fi, as.Lhs[0]), indexShape(fi, as.Lhs[1])
					r0, r1 := indexShape(fi, as.Rhs[0]), indexShape(fi, as.Rhs[1])
					if strings.HasSuffix(l0, "[$0]") && l1 == swap01(l0) && r0 == l1 && r1 == l0 {
						swapped[strings.TrimSuffix(l0, "[$0]")] = true
					}
				}
				return true
			})
			// every slice field of the receiver's struct is swapped
			nSlices := 0
			if sig, ok := fi.Obj.Type().(*types.Signature); ok && sig.Recv() != nil {
				if st, ok := sig.Recv().Type().Underlying().(*types.Struct); ok {
					for i := 0; i < st.NumFields(); i++ {
						if _, isSlice := st.Field(i).Type().Underlying().(*types.Slice); isSlice {
							nSlices++
						}
					}
				}
			}
			R.Check(len(swapped) == nSlices && nSlices >= 2, "R09b", c.Cfg+"scanResult.Swap", c.P.Pos(fi.Decl.Pos()), "Swap swaps items and metadata together", fmt.Sprintf("Swap exchanges %d of the %d parallel slices", len(swapped), nSlices))
		}
		if fi := c.P.MustFunc(R, "R09b", "disk.(*diskCache).loadExistingFiles"); fi != nil {
			sorted, asc := false, false
			var sortPos, loopPos token.Pos
			var sortedRoot types.Object
			mentions := func(e ast.Expr, o types.Object) bool {
				hit := false
				ast.Inspect(e, func(m ast.Node) bool {
					if id, ok := m.(*ast.Ident); ok && o != nil && identObj(info, id) == o {
						hit = true
					}
					return true
				})
				return hit
			}
			for _, body := range helperBodies(c, fi) {
				ast.Inspect(body, func(m ast.Node) bool {
					if call, ok := m.(*ast.CallExpr); ok && (fullCalleeName(info, call) == "sort.Sort" || fullCalleeName(info, call) == "sort.Stable") && len(call.Args) == 1 {
						sorted = true
						sortPos = call.Pos()
						sortedRoot = identObj(info, rootOfSel(call.Args[0]))
					}
					var loopBody *ast.BlockStmt
					var idx, val types.Object
					ascending := false
					switch f := m.(type) {
					case *ast.ForStmt:
						// for i := 0; i < len(X); i++
						if as, ok := f.Init.(*ast.AssignStmt); ok && len(as.Lhs) == 1 && len(as.Rhs) == 1 {
							if k, isC := constInt(info, as.Rhs[0]); isC && k == 0 {
								idx = identObj(info, as.Lhs[0])
							}
						}
						if inc, ok := f.Post.(*ast.IncDecStmt); ok && inc.Tok == token.INC && idx != nil && identObj(info, inc.X) == idx {
							if be, ok := ast.Unparen(f.Cond).(*ast.BinaryExpr); ok {
								lo, hi := be.X, be.Y
								if be.Op == token.GTR {
									lo, hi = be.Y, be.X
								}
								if (be.Op == token.LSS || be.Op == token.GTR) && identObj(info, lo) == idx {
									if call, ok := ast.Unparen(hi).(*ast.CallExpr); ok && exprStr(call.Fun) == "len" {
										ascending = true
									}
								}
							}
						}
						loopBody = f.Body
					case *ast.RangeStmt:
						// ranging over a slice visits it in ascending index order
						if _, isSlice := info.TypeOf(f.X).Underlying().(*types.Slice); isSlice {
							ascending = true
							if f.Key != nil {
								idx = identObj(info, f.Key)
							}
							if f.Value != nil {
								val = identObj(info, f.Value)
							}
						}
						loopBody = f.Body
					}
					if loopBody == nil {
						return true
					}
					for _, call := range callsIn(loopBody, false) {
						if calleeKey(info, call) == "disk.(*SizedLRU).Add" && len(call.Args) == 2 {
							loopPos = m.Pos()
							// key and item of the same position: both are indexed by the loop variable (or are
							// the range value / derived from the same index through locals of the loop body)
							perIndex := func(e ast.Expr) bool {
								if mentions(e, idx) || mentions(e, val) {
									return true
								}
								// a local of the loop body defined from the indexed slices
								if o := identObj(info, rootOfSel(stripStar(e))); o != nil {
									def := false
									ast.Inspect(loopBody, func(q ast.Node) bool {
										if as, ok := q.(*ast.AssignStmt); ok && len(as.Lhs) == len(as.Rhs) {
											for i, l := range as.Lhs {
												if identObj(info, l) == o && (mentions(as.Rhs[i], idx) || mentions(as.Rhs[i], val)) {
													def = true
												}
											}
										}
										return true
									})
									return def
								}
								return false
							}
							asc = ascending && perIndex(call.Args[0]) && perIndex(call.Args[1])
						}
					}
					return true
				})
			}
			_ = sortedRoot
			R.Check(sorted && asc && sortPos < loopPos, "R09b", c.Cfg+"loadExistingFiles:ascending-insert", c.P.Pos(fi.Decl.Pos()), "the scan result is sorted and then added to the index from index 0 upwards (oldest first)", fmt.Sprintf("sorted=%v ascending-loop=%v", sorted, asc))
		}
	}
	if want["R09e"] {
		R.Rule("R09e", "E7", "tolerated foreign entries: lost+found directories and .DS_Store files are the only entries skipped; every other unexpected entry makes start-up fail", 3)
		if scan != nil {
			// every `continue` in scanDir is guarded by a comparison with lost+found or .ds_store
			bad := 0
			total := 0
			ast.Inspect(scan.Decl.Body, func(n ast.Node) bool {
				is, ok := n.(*ast.IfStmt)
				if !ok || len(is.Body.List) != 1 {
					return true
				}
				if br, ok := is.Body.List[0].(*ast.BranchStmt); ok && br.Tok == token.CONTINUE {
					total++
					cs := strings.ReplaceAll(exprStr(is.Cond), " ", "")
					if !(strings.HasSuffix(cs, "==lostAndFound") || strings.HasSuffix(cs, "==lowercaseDSStoreFile")) {
						bad++
					}
				}
				return true
			})
			R.Check(bad == 0 && total >= 4, "R09e", c.Cfg+"scanDir:skips", c.P.Pos(scan.Decl.Pos()), fmt.Sprintf("all %d skips in scanDir are for lost+found or .ds_store", total), fmt.Sprintf("%d of %d skips are for something else", bad, total))
			lf, _ := constString(info, identNamedIn(scan.Decl.Body, "lostAndFound"))
			ds := ""
			if o, ok := dpkg.Types.Scope().Lookup("lowercaseDSStoreFile").(*types.Const); ok {
				ds = o.Val().ExactString()
			}
			R.Check(lf == "lost+found" && ds == `".ds_store"`, "R09e", c.Cfg+"scanDir:names", "", "the tolerated names are lost+found and .ds_store", "tolerated names are "+lf+" and "+ds)
			// unmatched file names are errors
			errOnMismatch := false
			ast.Inspect(scan.Decl.Body, func(n ast.Node) bool {
				if is, ok := n.(*ast.IfStmt); ok {
					if be, ok := ast.Unparen(is.Cond).(*ast.BinaryExpr); ok && be.Op == token.NEQ {
						if k, isC := constInt(scan.Pkg.TypesInfo, be.Y); isC && k == 5 {
							if call, ok := ast.Unparen(be.X).(*ast.CallExpr); ok && exprStr(call.Fun) == "len" && len(call.Args) == 1 {
								if smo := submatchVar(scan); smo != nil && identObj(scan.Pkg.TypesInfo, call.Args[0]) == smo {
									if ret, isRet := is.Body.List[len(is.Body.List)-1].(*ast.ReturnStmt); isRet && len(ret.Results) > 0 && !isNilIdent(scan.Pkg.TypesInfo, ret.Results[len(ret.Results)-1]) {
										errOnMismatch = true
									}
								}
							}
						}
					}
				}
				return true
			})
			R.Check(errOnMismatch, "R09e", c.Cfg+"scanDir:unrecognised-file-is-error", "", "a file name that does not match the grammar aborts start-up rather than being indexed or silently dropped", "the grammar mismatch branch does not return an error")
		}
	}
	if want["R09f"] {
		R.Rule("R09f", "E2", "backlog awaited: loadExistingFiles returns nil only once queuedEvictionsSize is 0", 1)
		if fi := c.P.MustFunc(R, "R09f", "disk.(*diskCache).loadExistingFiles"); fi != nil {
			ok := false
			for _, body := range helperBodies(c, fi) {
				ast.Inspect(body, func(n ast.Node) bool {
					f, k := n.(*ast.ForStmt)
					if !k || f.Cond == nil {
						return true
					}
					// <lru>.queuedEvictionsSize.Load() > 0  (either operand order, != 0 as well)
					be, k := ast.Unparen(f.Cond).(*ast.BinaryExpr)
					if !k {
						return true
					}
					load, zero := be.X, be.Y
					op := be.Op
					if kz, isC := constInt(info, be.X); isC && kz == 0 {
						load, zero = be.Y, be.X
						if op == token.LSS {
							op = token.GTR
						}
					}
					if kz, isC := constInt(info, zero); !isC || kz != 0 || (op != token.GTR && op != token.NEQ) {
						return true
					}
					if call, k := ast.Unparen(load).(*ast.CallExpr); k {
						if sel, k := call.Fun.(*ast.SelectorExpr); k && sel.Sel.Name == "Load" {
							if lruFieldOf(info, sel.X) == "queuedEvictionsSize" {
								ok = true
							}
						}
					}
					return true
				})
			}
			R.Check(ok, "R09f", c.Cfg+"loadExistingFiles:wait-backlog", c.P.Pos(fi.Decl.Pos()), "loadExistingFiles loops until the eviction backlog is empty before returning", "the wait loop on queuedEvictionsSize was not found")
		}
	}
}

func identNamedIn(body ast.Node, name string) ast.Expr {
	var out ast.Expr = &ast.Ident{Name: "_"}
	ast.Inspect(body, func(n ast.Node) bool {
		if vs, ok := n.(*ast.ValueSpec); ok {
			for i, nm := range vs.Names {
				if nm.Name == name && i < len(vs.Values) {
					out = vs.Values[i]
				}
			}
		}
		return true
	})
	return out
}

// ---------- R04d ----------

func pathProvenance(c *Ctx) {
	R := c.R
	R.Rule("R04d", "E3", "path provenance: every os.Remove / os.Open / os.OpenFile in cache/disk (migration code excepted) operates on a path derived from FileLocation / getElementPath or on the Name() of a file created by tempfile.Create", 7)
	frozen := map[string]string{
		"disk.migrateDirectory": "works on legacy (pre-v2) names by construction",
		"disk.migrateV1Subdir":  "works on legacy (pre-v2) names by construction",
	}
	n := 0
	for _, fi := range c.P.FuncsInPkg("/cache/disk") {
		if strings.HasSuffix(c.P.Fset.Position(fi.Decl.Pos()).Filename, "_test.go") {
			continue
		}
		info := fi.Pkg.TypesInfo
		var p *provCtx
		ord := map[string]int{}
		for _, call := range callsIn(fi.Decl.Body, true) {
			name := fullCalleeName(info, call)
			if name != "os.Remove" && name != "os.Open" && name != "os.OpenFile" && name != "os.RemoveAll" {
				continue
			}
			ord[name]++
			key := fmt.Sprintf("%s%s:%s#%d", c.Cfg, fi.Key, name, ord[name])
			if why, ok := frozen[fi.Key]; ok {
				R.OK("R04d", key, c.P.Pos(call.Pos()), "frozen exception: "+why)
				continue
			}
			n++
			if p == nil {
				p = newProvCtx(c, fi)
			}
			ok, why := pathOK(c, p, fi, call.Args[0], 0)
			R.Check(ok, "R04d", key, c.P.Pos(call.Pos()), name+"("+exprStr(call.Args[0])+") operates on a cache entry path (FileLocation / getElementPath / a created temp file)", why)
		}
	}
	R.Count("file operations of cache/disk checked for path provenance", n)
}

func pathOK(c *Ctx, p *provCtx, fi *FuncInfo, e ast.Expr, depth int) (bool, string) {
	info := fi.Pkg.TypesInfo
	e = ast.Unparen(e)
	switch e := e.(type) {
	case *ast.CallExpr:
		k := calleeKey(info, e)
		full := fullCalleeName(info, e)
		switch {
		case k == "disk.(*diskCache).getElementPath":
			return true, ""
		case full == "path.Join" || full == "path/filepath.Join":
			if len(e.Args) == 2 && strings.HasSuffix(exprStr(e.Args[0]), ".dir") {
				if inner, ok := ast.Unparen(e.Args[1]).(*ast.CallExpr); ok {
					ik := calleeKey(info, inner)
					if ik == "disk.(*diskCache).FileLocation" || ik == "disk.(*diskCache).FileLocationBase" {
						return true, ""
					}
				}
			}
			return false, "the path is " + exprStr(e) + ", which is not the cache directory joined with a FileLocation: the operation hits a file that is not the entry's file"
		case full == "os.(File).Name":
			return true, ""
		}
		return false, "path comes from " + exprStr(e.Fun)
	case *ast.Ident:
		o := identObj(info, e)
		if o == nil {
			return false, "unresolved identifier"
		}
		defs := p.defs[o]
		if len(defs) == 0 && len(p.tups[o]) == 0 {
			// parameter: check the callers
			if depth > 1 {
				return false, "path parameter chain too deep"
			}
			idx := -1
			i := 0
			for _, fld := range fi.Decl.Type.Params.List {
				for _, n := range fld.Names {
					if fi.Pkg.TypesInfo.Defs[n] == o {
						idx = i
					}
					i++
				}
			}
			if idx < 0 {
				return false, "path variable " + e.Name + " has no definition"
			}
			callers := 0
			for _, cf := range c.P.FuncsInPkg("/cache/disk") {
				if strings.HasSuffix(c.P.Fset.Position(cf.Decl.Pos()).Filename, "_test.go") {
					continue
				}
				var cp *provCtx
				for _, call := range callsIn(cf.Decl.Body, true) {
					if Callee(cf.Pkg.TypesInfo, call) == fi.Obj && idx < len(call.Args) {
						callers++
						if cp == nil {
							cp = newProvCtx(c, cf)
						}
						if ok, why := pathOK(c, cp, cf, call.Args[idx], depth+1); !ok {
							return false, "caller " + cf.Key + " passes a path that " + why
						}
					}
				}
			}
			if callers == 0 {
				return false, "path parameter " + e.Name + " has no callers to derive it from"
			}
			return true, ""
		}
		for _, d := range defs {
			if ok, why := pathOK(c, p, fi, d, depth); !ok {
				return false, why
			}
		}
		for _, t := range p.tups[o] {
			if fullCalleeName(info, t.call) == "os.(File).Name" {
				continue
			}
			return false, "path comes from " + exprStr(t.call.Fun)
		}
		return true, ""
	}
	return false, "unrecognised path expression " + exprStr(e)
}

// ---------- R12g / R20e ----------

func backendNames(c *Ctx) {
	R := c.R
	R.Rule("R12g", "E6", "backend key mapping: objectKeyV1/V2 of the S3 and Azure backends are template-identical; cas.v2 appears exactly for (CAS, zstd); the HTTP URL and gRPC resource-name templates are the published ones and the gRPC templates are accepted by this server's own resource-name grammar", 10)
	want := map[string]map[string]string{
		"objectKeyV2": {"kind=CAS,prefix=empty": "cas.v2/<hash[:2]>/<hash>", "kind=CAS,prefix=nonempty": "<prefix>/cas.v2/<hash[:2]>/<hash>", "other,prefix=empty": "<kind.String>/<hash[:2]>/<hash>", "other,prefix=nonempty": "<prefix>/<kind.String>/<hash[:2]>/<hash>"},
		"objectKeyV1": {"prefix=empty": "<kind.String>/<hash[:2]>/<hash>", "prefix=nonempty": "<prefix>/<kind.String>/<hash[:2]>/<hash>"},
	}
	tables := map[string]string{}
	for _, pkg := range []string{"s3proxy", "azblobproxy"} {
		for _, fn := range []string{"objectKeyV1", "objectKeyV2"} {
			fi := c.P.MustFunc(R, "R12g", pkg+"."+fn)
			if fi == nil {
				continue
			}
			cs := templatesOf(c, c.P.FlowOf(fi), "R12g")
			tables[pkg+"."+fn] = tplTable(cs)
			for cond, tpl := range want[fn] {
				found := false
				for _, tc := range cs {
					match := true
					for _, part := range strings.Split(cond, ",") {
						if part == "other" {
							if strings.Contains(tc.Cond, "kind=CAS") && !strings.Contains(tc.Cond, "|") {
								match = false
							}
							if !strings.Contains(tc.Cond, "kind=") {
								match = false
							}
							continue
						}
						if !strings.Contains(","+tc.Cond+",", ","+part+",") {
							match = false
						}
					}
					if match && tc.Tpl == tpl {
						found = true
					}
				}
				R.Check(found, "R12g", c.Cfg+pkg+"."+fn+":"+cond, c.P.Pos(fi.Decl.Pos()), fmt.Sprintf("%s.%s gives %q for %s", pkg, fn, tpl, cond), fmt.Sprintf("%s.%s does not give %q for %s; its table is %s", pkg, fn, tpl, cond, tplTable(cs)))
			}
		}
	}
	for _, fn := range []string{"objectKeyV1", "objectKeyV2"} {
		R.Check(tables["s3proxy."+fn] == tables["azblobproxy."+fn] && tables["s3proxy."+fn] != "", "R12g", c.Cfg+"siblings:"+fn, "", "the S3 and the Azure backend compute identical "+fn+" tables", "s3: "+tables["s3proxy."+fn]+"  azblob: "+tables["azblobproxy."+fn])
	}
	// v2mode selects V2
	for _, key := range []string{"s3proxy.New", "azblobproxy.New"} {
		fi := c.P.MustFunc(R, "R12g", key)
		if fi == nil {
			continue
		}
		ok := false
		ast.Inspect(fi.Decl.Body, func(n ast.Node) bool {
			if is, k := n.(*ast.IfStmt); k && exprStr(is.Cond) == "c.v2mode" {
				a := callsIn(is.Body, true)
				var b []*ast.CallExpr
				if el, k := is.Else.(*ast.BlockStmt); k {
					b = callsIn(el, true)
				}
				has := func(cs []*ast.CallExpr, name string) bool {
					for _, cl := range cs {
						if strings.HasSuffix(calleeKey(fi.Pkg.TypesInfo, cl), "."+name) {
							return true
						}
					}
					return false
				}
				ok = has(a, "objectKeyV2") && has(b, "objectKeyV1")
			}
			return true
		})
		v2 := false
		ast.Inspect(fi.Decl.Body, func(n ast.Node) bool {
			if kv, k := n.(*ast.KeyValueExpr); k && exprStr(kv.Key) == "v2mode" {
				v2 = strings.ReplaceAll(exprStr(kv.Value), " ", "") == `storageMode=="zstd"`
			}
			return true
		})
		R.Check(ok && v2, "R12g", c.Cfg+key+":v2-iff-zstd", c.P.Pos(fi.Decl.Pos()), "the v2 key function is used exactly when storage mode is zstd", fmt.Sprintf("selection=%v v2mode-definition=%v", ok, v2))
	}
	// HTTP: requestURL closures
	if fi := c.P.MustFunc(R, "R12g", "httpproxy.New"); fi != nil {
		info := fi.Pkg.TypesInfo
		fl := c.P.FlowOf(fi)
		ast.Inspect(fi.Decl.Body, func(n ast.Node) bool {
			cc, ok := n.(*ast.CaseClause)
			if !ok || len(cc.List) != 1 {
				return true
			}
			mode, _ := constString(info, cc.List[0])
			for _, st := range cc.Body {
				as, ok := st.(*ast.AssignStmt)
				if !ok || !strings.HasSuffix(exprStr(as.Lhs[0]), ".requestURL") {
					continue
				}
				lit, ok := as.Rhs[0].(*ast.FuncLit)
				if !ok {
					continue
				}
				cs := templatesOf(c, fl.Lit(lit), "R12g")
				get := func(kindCAS bool) string {
					for _, tc := range cs {
						isCAS := strings.Contains(tc.Cond, "kind=CAS") && !strings.Contains(tc.Cond, "|")
						if len(cs) == 1 || isCAS == kindCAS {
							return tc.Tpl
						}
					}
					return ""
				}
				base := "<proxy.baseURL>"
				wantCAS, wantOther := base+"/<kind.String>/<hash>", base+"/<kind.String>/<hash>"
				if mode == "zstd" {
					wantCAS = base + "/cas.v2/<hash>"
				}
				R.Check(get(true) == wantCAS && get(false) == wantOther, "R12g", c.Cfg+"httpproxy.requestURL:"+mode, c.P.Pos(lit.Pos()), fmt.Sprintf("HTTP backend URLs in %s mode: CAS %q, other %q", mode, wantCAS, wantOther),
					fmt.Sprintf("HTTP backend URLs in %s mode are %s", mode, tplTable(cs)))
			}
			return true
		})
	}
	// gRPC: client templates vs the server grammar
	if fi := c.P.MustFunc(R, "R12g", "grpcproxy.(*remoteGrpcProxyCache).Get"); fi != nil {
		checkGrpcTemplates(c, fi, false)
	}
	if fi := c.P.MustFunc(R, "R12g", "grpcproxy.(*remoteGrpcProxyCache).UploadFile"); fi != nil {
		checkGrpcTemplates(c, fi, true)
	}
}

func checkGrpcTemplates(c *Ctx, fi *FuncInfo, write bool) {
	R := c.R
	info := fi.Pkg.TypesInfo
	what := "read"
	if write {
		what = "write"
	}
	bodies := helperBodies(c, fi)
	// the resource name is built by fmt.Sprintf(<template variable>, args...) in the function or in a
	// helper split off it; the template variable is assigned constant strings
	var sprintf *ast.CallExpr
	var tplObj types.Object
	for _, body := range bodies {
		ast.Inspect(body, func(n ast.Node) bool {
			if call, ok := n.(*ast.CallExpr); ok && fullCalleeName(info, call) == "fmt.Sprintf" && len(call.Args) >= 3 {
				if o := identObj(info, call.Args[0]); o != nil && o.Type().String() == "string" {
					if _, isConst := o.(*types.Const); !isConst {
						sprintf, tplObj = call, o
					}
				}
			}
			return true
		})
	}
	var consts []string
	v2Guarded := map[string]bool{}
	if tplObj != nil {
		for _, body := range bodies {
			var walk func(n ast.Node, underV2 bool)
			walk = func(n ast.Node, underV2 bool) {
				ast.Inspect(n, func(m ast.Node) bool {
					switch m := m.(type) {
					case *ast.IfStmt:
						// a test of the proxy's own zstd-mode flag (a bool field of the receiver)
						isV2 := false
						if sel, ok := ast.Unparen(m.Cond).(*ast.SelectorExpr); ok && info.TypeOf(sel) != nil && info.TypeOf(sel).String() == "bool" && fieldOf(info, sel) != "" {
							isV2 = true
						}
						if m.Init != nil {
							walk(m.Init, underV2)
						}
						walk(m.Body, underV2 || isV2)
						if m.Else != nil {
							walk(m.Else, underV2)
						}
						return false
					case *ast.AssignStmt:
						for i, l := range m.Lhs {
							if identObj(info, l) == tplObj && i < len(m.Rhs) {
								if v, ok := constString(info, m.Rhs[i]); ok {
									consts = append(consts, v)
									if underV2 {
										v2Guarded[v] = true
									}
								}
							}
						}
					case *ast.ValueSpec:
						for i, nm := range m.Names {
							if info.Defs[nm] == tplObj && i < len(m.Values) {
								if v, ok := constString(info, m.Values[i]); ok {
									consts = append(consts, v)
								}
							}
						}
					}
					return true
				})
			}
			walk(body, false)
		}
	}
	wantV1, wantV2 := "blobs/%s/%d", "compressed-blobs/zstd/%s/%d"
	if write {
		wantV1, wantV2 = "uploads/%s/blobs/%s/%d", "uploads/%s/compressed-blobs/zstd/%s/%d"
	}
	sort.Strings(consts)
	consts = uniq(consts)
	has := func(v string) bool {
		for _, x := range consts {
			if x == v {
				return true
			}
		}
		return false
	}
	R.Check(len(consts) == 2 && has(wantV1) && has(wantV2), "R12g", c.Cfg+"grpcproxy:"+what+":templates", c.P.Pos(fi.Decl.Pos()), fmt.Sprintf("gRPC %s resource names are %q (uncompressed) and %q (zstd)", what, wantV1, wantV2), fmt.Sprintf("templates are %q", consts))
	// the template is filled with (hash, logical size) [after a fresh upload id for writes]
	okArgs := false
	if sprintf != nil {
		args := sprintf.Args[1:]
		kindOf := func(e ast.Expr) string {
			e = ast.Unparen(e)
			t := info.TypeOf(e)
			if call, ok := e.(*ast.CallExpr); ok {
				if sel, ok := call.Fun.(*ast.SelectorExpr); ok && sel.Sel.Name == "String" {
					if inner, ok := ast.Unparen(sel.X).(*ast.CallExpr); ok && strings.HasSuffix(fullCalleeName(info, inner), "uuid.New") {
						return "uuid"
					}
				}
			}
			if sel, ok := e.(*ast.SelectorExpr); ok {
				switch sel.Sel.Name {
				case "Hash":
					return "hash"
				case "LogicalSize":
					return "size"
				}
			}
			if t != nil {
				switch t.String() {
				case "string":
					return "hash"
				case "int64":
					return "size"
				}
			}
			return "?"
		}
		var ks []string
		for _, a := range args {
			ks = append(ks, kindOf(a))
		}
		j := strings.Join(ks, ",")
		okArgs = (!write && j == "hash,size") || (write && j == "uuid,hash,size")
	}
	R.Check(okArgs, "R12g", c.Cfg+"grpcproxy:"+what+":args", c.P.Pos(fi.Decl.Pos()), "the template is filled with (hash, logical size) in that order", "the template arguments are not (hash, logical size)")
	R.Check(v2Guarded[wantV2] && !v2Guarded[wantV1], "R12g", c.Cfg+"grpcproxy:"+what+":zstd-iff-v2", c.P.Pos(fi.Decl.Pos()), "the compressed-blobs template is used exactly in zstd storage mode", "the compressed-blobs template is not selected by the proxy's zstd-mode flag alone")
	v1, v2 := wantV1, wantV2
	// server grammar accepts them: literal segments and field positions
	srv := "server.(*grpcServer).parseReadResource"
	if write {
		srv = "server.(*grpcServer).parseWriteResource"
	}
	sf := c.P.MustFunc(R, "R12g", srv)
	if sf == nil {
		return
	}
	sinfo := sf.Pkg.TypesInfo
	sbodies := helperBodies(c, sf)
	lits := map[string]bool{}
	for _, sb := range sbodies {
		ast.Inspect(sb, func(n ast.Node) bool {
			if bl, ok := n.(*ast.BasicLit); ok && bl.Kind == token.STRING {
				if v, ok := constString(sinfo, bl); ok {
					lits[v] = true
				}
			}
			return true
		})
	}
	for _, tpl := range []string{v1, v2} {
		ok := true
		for _, seg := range strings.Split(tpl, "/") {
			if !strings.HasPrefix(seg, "%") && !lits[seg] {
				ok = false
			}
		}
		R.Check(ok && tpl != "", "R12g", c.Cfg+"grpcproxy:"+what+":server-grammar:"+tpl, c.P.Pos(sf.Decl.Pos()), "every literal segment of "+tpl+" is a keyword of this server's resource-name grammar", "the server's parser does not know a literal segment of "+tpl)
	}
	// field positions in the server grammar: the segments after the keyword are read from the
	// split resource name at constant indices; the size is the one handed to strconv.ParseInt
	// (directly or through a helper's parameter)
	used, parsed := map[int64]bool{}, map[int64]bool{}
	isSegs := func(e ast.Expr) bool {
		o, ok := identObj(sinfo, e).(*types.Var)
		return ok && o.Type().String() == "[]string" && o.Parent() != o.Pkg().Scope()
	}
	// locals that copy a segment: sizeStr := rem[2]
	segLocal := map[types.Object]int64{}
	ast.Inspect(sf.Decl.Body, func(n ast.Node) bool {
		if as, ok := n.(*ast.AssignStmt); ok && len(as.Lhs) == len(as.Rhs) {
			for i, r := range as.Rhs {
				if ix, ok := ast.Unparen(r).(*ast.IndexExpr); ok && isSegs(ix.X) {
					if k, isC := constInt(sinfo, ix.Index); isC {
						if o := identObj(sinfo, as.Lhs[i]); o != nil {
							segLocal[o] = k
						}
					}
				}
			}
		}
		return true
	})
	segIndex := func(e ast.Expr) (int64, bool) {
		if ix, ok := ast.Unparen(e).(*ast.IndexExpr); ok && isSegs(ix.X) {
			return constInt(sinfo, ix.Index)
		}
		if o := identObj(sinfo, e); o != nil {
			k, ok := segLocal[o]
			return k, ok
		}
		return 0, false
	}
	for _, sb := range []*ast.BlockStmt{sf.Decl.Body} {
		ast.Inspect(sb, func(n ast.Node) bool {
			switch n := n.(type) {
			case *ast.IndexExpr:
				if k, isC := constInt(sinfo, n.Index); isC && isSegs(n.X) {
					used[k] = true
				}
			case *ast.CallExpr:
				isParse := fullCalleeName(sinfo, n) == "strconv.ParseInt"
				for i, a := range n.Args {
					k, isC := segIndex(a)
					if !isC {
						continue
					}
					if isParse && i == 0 {
						parsed[k] = true
					}
					// a helper that parses its i-th parameter
					if h := c.P.Func(calleeKey(sinfo, n)); h != nil && h.Pkg == sf.Pkg && h.Decl.Body != nil {
						po := paramObj(h, i)
						for _, hc := range callsIn(h.Decl.Body, true) {
							if fullCalleeName(sinfo, hc) == "strconv.ParseInt" && len(hc.Args) > 0 && po != nil && identObj(sinfo, hc.Args[0]) == po {
								parsed[k] = true
							}
						}
					}
				}
			}
			return true
		})
	}
	keys := func(m map[int64]bool) string {
		var ks []int
		for k := range m {
			ks = append(ks, int(k))
		}
		sort.Ints(ks)
		return fmt.Sprint(ks)
	}
	wantParsed, wantUsed := "[1 2]", []int64{0, 1, 2}
	if write {
		wantParsed, wantUsed = "[3 4]", []int64{2, 3, 4}
	}
	okUsed := true
	for _, k := range wantUsed {
		if !used[k] {
			okUsed = false
		}
	}
	R.Check(keys(parsed) == wantParsed && okUsed, "R12g", c.Cfg+"grpcproxy:"+what+":server-positions", c.P.Pos(sf.Decl.Pos()),
		"the server reads hash and size from the positions where the client templates put them (size parsed from segments "+wantParsed+")", "server reads segments "+keys(used)+" and parses the size from "+keys(parsed))
}

// submatchVar returns the variable that receives the result of
// (*regexp.Regexp).FindStringSubmatch in fi.
func submatchVar(fi *FuncInfo) types.Object {
	info := fi.Pkg.TypesInfo
	var out types.Object
	ast.Inspect(fi.Decl.Body, func(n ast.Node) bool {
		if as, ok := n.(*ast.AssignStmt); ok && len(as.Rhs) == 1 && len(as.Lhs) == 1 {
			if call, ok := ast.Unparen(as.Rhs[0]).(*ast.CallExpr); ok && strings.HasSuffix(fullCalleeName(info, call), "Regexp).FindStringSubmatch") {
				out = identObj(info, as.Lhs[0])
			}
		}
		return true
	})
	return out
}

// helperBodies returns the body of fi followed by the bodies of the unexported functions of its
// package that it (transitively) calls: what a refactoring may have split off.
func helperBodies(c *Ctx, fi *FuncInfo) []*ast.BlockStmt {
	bodies := []*ast.BlockStmt{fi.Decl.Body}
	seen := map[string]bool{fi.Key: true}
	for i := 0; i < len(bodies) && i < 10; i++ {
		for _, call := range callsIn(bodies[i], true) {
			h := c.P.Func(calleeKey(fi.Pkg.TypesInfo, call))
			if h == nil || seen[h.Key] || h.Pkg != fi.Pkg || ast.IsExported(h.Decl.Name.Name) || h.Decl.Body == nil {
				continue
			}
			seen[h.Key] = true
			bodies = append(bodies, h.Decl.Body)
		}
	}
	return bodies
}

// prefixTable extracts a table "string prefix -> value" written as a chain of
// `if strings.HasPrefix(x, P) { v = V }` / `{ return V }` statements or as the cases of a tag-less
// switch, in fi or in a helper split off it.  dflt is the value of a default clause or of the
// assignment / return that applies when no prefix matches ("" if there is none or several).
func prefixTable(c *Ctx, fi *FuncInfo, value func(e ast.Expr) (string, bool)) (map[string]string, string) {
	info := fi.Pkg.TypesInfo
	got := map[string]string{}
	dflts := map[string]bool{}
	valueOf := func(list []ast.Stmt) (string, bool) {
		for _, st := range list {
			switch st := st.(type) {
			case *ast.AssignStmt:
				if len(st.Lhs) == 1 && len(st.Rhs) == 1 {
					if v, ok := value(st.Rhs[0]); ok {
						return v, true
					}
				}
			case *ast.ReturnStmt:
				for _, r := range st.Results {
					if v, ok := value(r); ok {
						return v, true
					}
				}
			}
		}
		return "", false
	}
	prefixOf := func(e ast.Expr) (string, bool) {
		call, ok := ast.Unparen(e).(*ast.CallExpr)
		if !ok || fullCalleeName(info, call) != "strings.HasPrefix" || len(call.Args) != 2 {
			return "", false
		}
		return constString(info, call.Args[1])
	}
	for _, body := range helperBodies(c, fi) {
		tabled := false
		ast.Inspect(body, func(n ast.Node) bool {
			switch n := n.(type) {
			case *ast.IfStmt:
				if p, ok := prefixOf(n.Cond); ok {
					if v, ok := valueOf(n.Body.List); ok {
						got[p] = v
						tabled = true
					}
					if eb, ok := n.Else.(*ast.BlockStmt); ok {
						if v, ok := valueOf(eb.List); ok {
							dflts[v] = true
						}
					}
				}
			case *ast.SwitchStmt:
				if n.Tag != nil {
					return true
				}
				for _, cs := range n.Body.List {
					cc := cs.(*ast.CaseClause)
					if len(cc.List) == 0 {
						if v, ok := valueOf(cc.Body); ok {
							dflts[v] = true
						}
						continue
					}
					for _, e := range cc.List {
						if p, ok := prefixOf(e); ok {
							if v, ok := valueOf(cc.Body); ok {
								got[p] = v
								tabled = true
							}
						}
					}
				}
			}
			return true
		})
		if tabled {
			// the value that stands when no arm matched: an assignment or declaration before the
			// chain, or the return that follows it, at the top level of that body
			for _, st := range body.List {
				switch st := st.(type) {
				case *ast.AssignStmt, *ast.ReturnStmt:
					if v, ok := valueOf([]ast.Stmt{st}); ok {
						dflts[v] = true
					}
				case *ast.DeclStmt:
					if gd, ok := st.Decl.(*ast.GenDecl); ok {
						for _, sp := range gd.Specs {
							if vs, ok := sp.(*ast.ValueSpec); ok {
								for _, e := range vs.Values {
									if v, ok := value(e); ok {
										dflts[v] = true
									}
								}
							}
						}
					}
				}
			}
		}
	}
	for _, v := range got {
		delete(dflts, v)
	}
	dflt := ""
	if len(dflts) == 1 {
		for v := range dflts {
			dflt = v
		}
	}
	return got, dflt
}

func stripStar(e ast.Expr) ast.Expr {
	for {
		st, ok := ast.Unparen(e).(*ast.StarExpr)
		if !ok {
			return ast.Unparen(e)
		}
		e = st.X
	}
}
