package main

// Path rules over cache/disk: reservation pairing (R03a), temp-file pairing
// (R04a), verify -> commit -> acknowledge ordering (R01a/R07d/R08c), admission
// before file creation (R17f), guards before creating/committing a proxied
// entry (R12d/R12e/R18d), the central size guard (R18a), hit paths that never
// reserve (R17g).  One exploration of Put and get (with commit and
// availableOrTryProxy inlined) produces the obligations; each property picks
// the rules it owns.

import (
	"go/types"
	"sort"
	"fmt"
	"go/ast"
	"strings"
)

const (
	kReserve   = "disk.(*SizedLRU).Reserve"
	kUnreserve = "disk.(*SizedLRU).Unreserve"
	kAdd       = "disk.(*SizedLRU).Add"
	kCommit    = "disk.(*diskCache).commit"
	kAvail     = "disk.(*diskCache).availableOrTryProxy"
	kWriteFile = "disk.(*diskCache).writeAndCloseFile"
	kPut       = "disk.(*diskCache).Put"
	kGet       = "disk.(*diskCache).get"
	kCreate    = "tempfile.(*Creator).Create"
)

type diskFlow struct {
	c    *Ctx
	base *Base
	top  string // function being explored at top level
	obs  map[string]*Oblig
	cnt  map[string]int
}

func (d *diskFlow) note(ok bool, rule, key, pos, what, why string, trace []string) {
	id := rule + "|" + key
	if o := d.obs[id]; o != nil {
		if o.Status == "discharged" && !ok {
			o.Status, o.Detail, o.Trace, o.Pos = "violated", why, trace, pos
		}
		return
	}
	o := &Oblig{Rule: rule, Key: key, Pos: pos, What: what, Status: "discharged"}
	if !ok {
		o.Status, o.Detail, o.Trace = "violated", why, trace
	}
	d.obs[id] = o
}

var diskFlowCache = map[*Prog][]*Oblig{}

// diskFlowObligs explores Put and get once per program.
func diskFlowObligs(c *Ctx) []*Oblig {
	if o, ok := diskFlowCache[c.P]; ok {
		return o
	}
	d := &diskFlow{c: c, obs: map[string]*Oblig{}, cnt: map[string]int{}}
	d.base = NewBase(Hooks{Call: d.call, Cond: d.cond, Assign: d.assign, Exit: d.exit}, kCommit, kAvail)
	// helpers of the disk cache that (transitively) reserve, release, create, commit or talk to
	// the backend are interpreted in the context of their callers, whatever they are called:
	// extracting a few statements of Put or get into a method must not blind the rules
	for _, k := range diskHelpersToInline(c) {
		d.base.Inline[k] = true
	}
	var out []*Oblig
	for _, key := range []string{kPut, kGet, kAvail} {
		fi := c.P.Func(key)
		if fi == nil {
			out = append(out, &Oblig{Rule: "anchor", Key: "anchor:" + key, What: "anchor function " + key + " does not resolve", Status: "violated"})
			continue
		}
		d.top = key
		x := NewExec(c.P.FlowOf(fi), d.base)
		x.Run(newSt())
		if x.Aborted != "" {
			out = append(out, &Oblig{Rule: "anchor", Key: "explore:" + key, What: "exploration of " + key + " did not complete: " + x.Aborted + " (undecided is a failure)", Status: "violated"})
		}
		c.R.Count("abstract states explored in "+key, x.stats.States)
		c.R.Count("exits checked in "+key, x.stats.Exits)
		c.R.Count("callee bodies inlined from "+key, x.stats.Inlined)
	}
	for _, o := range d.obs {
		out = append(out, o)
	}
	diskFlowCache[c.P] = out
	return out
}

func (d *diskFlow) pos(n ast.Node) string { return d.c.P.Pos(n.Pos()) }

// siteKey names a call site by enclosing function + callee + ordinal.
func siteKey(x *Exec, call *ast.CallExpr, callee string) string {
	fn := x.Fn
	for fn.Outer != nil {
		fn = fn.Outer
	}
	n := 0
	ast.Inspect(fn.Body, func(m ast.Node) bool {
		if c, ok := m.(*ast.CallExpr); ok && c.Pos() <= call.Pos() {
			if k := calleeKey(fn.Info, c); k == callee {
				n++
			}
		}
		return true
	})
	short := callee[strings.LastIndex(callee, ".")+1:]
	return fmt.Sprintf("%s:%s#%d", fn.Name, short, n)
}

func (d *diskFlow) call(x *Exec, call *ast.CallExpr, lhs []ast.Expr, s St) ([]St, bool) {
	b := d.base
	info := x.Fn.Info
	key := calleeKey(info, call)
	switch key {
	case kReserve:
		site := siteKey(x, call, key)
		amt, _ := b.Term(x, call.Args[0], s)
		s = s.Set("reserveCalled", "1")
		d.note(s.Get("res") == "", "R03a", site+":fresh", d.pos(call), "no reservation is already held when Reserve is called", "a reservation is already held on this path (double reserve)", x.Trace())
		if d.top == kPut {
			// R18a: the size guard dominates the reservation.
			d.note(relIs(s, "$recv.maxBlobSize", "<", amt, false), "R18a", site+":guard", d.pos(call),
				"Reserve in Put is dominated by the rejection of size > maxBlobSize", "path reaches Reserve without having passed the size > c.maxBlobSize rejection", x.Trace())
		}
		return b.ForkErr(x, lhs, 0, s, func(ok St) St {
			if v, known := relLookup(ok, "#0", "<", amt); known && !v {
				return ok // Reserve(0) reserves nothing
			}
			return ok.Set("res", "held").Set("resamt", amt)
		}, nil), true
	case kUnreserve:
		site := siteKey(x, call, key)
		amt, _ := b.Term(x, call.Args[0], s)
		zero := false
		if v, known := relLookup(s, "#0", "<", amt); known && !v {
			zero = true
		}
		if !zero {
			d.note(s.Get("res") == "held" || s.Get("unresfail") != "", "R03a", site+":held", d.pos(call), "Unreserve releases a reservation that is held on every path reaching it",
				"Unreserve reached with no reservation held (double release drives the counters negative)", x.Trace())
			if s.Get("res") == "held" {
				d.note(s.Get("resamt") == amt || relIs(s, s.Get("resamt"), "==", amt, true), "R03a", site+":amount", d.pos(call), "Unreserve releases exactly the amount that was reserved",
					fmt.Sprintf("reserved %s but releases %s", s.Get("resamt"), amt), x.Trace())
			}
		}
		// Unreserve fails only when the counters are already inconsistent; on
		// that branch nothing is released and the error is surfaced.
		return b.ForkErr(x, lhs, 0, s, func(ok St) St { return ok.Set("res", "").Set("resamt", "") },
			func(bad St) St { return bad.Set("unresfail", "1") }), true
	case kCreate:
		site := siteKey(x, call, key)
		d.note(s.Get("file") == "", "R04a", site+":fresh", d.pos(call), "no temp file is pending when a new one is created", "a created file is still pending", x.Trace())
		// R17f: every new file is admitted first.
		sizeT := d.sizeTerm(x, s)
		admitted := s.Get("res") == "held"
		if !admitted && sizeT != "" {
			v1, k1 := relLookup(s, "#0", "<", sizeT)
			v2, k2 := relLookup(s, sizeT, "<", "#0")
			admitted = k1 && !v1 && k2 && !v2 // size == 0 needs no space
		}
		if !admitted && d.top == kGet {
			// in get the item's size is the one the backend announced
			if fs, ok := b.Term(x, roleIdent(x, "foundSize", "lhs:cache.(Proxy).Get:1", "lhs:cache.(Proxy).Contains:1"), s); ok {
				v1, k1 := relLookup(s, "#0", "<", fs)
				v2, k2 := relLookup(s, fs, "<", "#0")
				admitted = k1 && !v1 && k2 && !v2
			}
		}
		d.note(admitted, "R17f", site+":admitted", d.pos(call), "file creation is dominated by a successful Reserve of the item (or the item is empty)",
			"path creates a file without a reservation (admission against max_size / max_size_hard_limit bypassed)", x.Trace())
		if d.top == kGet {
			fs, _ := b.Term(x, roleIdent(x, "foundSize", "lhs:cache.(Proxy).Get:1", "lhs:cache.(Proxy).Contains:1"), s)
			d.note(relIs(s, "$recv.maxProxyBlobSize", "<", fs, false), "R12d", site+":maxproxy", d.pos(call), "file creation for a proxied entry is dominated by foundSize <= maxProxyBlobSize",
				"path creates the file without the foundSize > c.maxProxyBlobSize rejection", x.Trace())
			d.note(relIs(s, fs, "<", "#0", false), "R12d", site+":nonneg", d.pos(call), "file creation for a proxied entry is dominated by foundSize >= 0",
				"path creates the file with a possibly negative (unknown) backend size", x.Trace())
			d.note(s.Get("p:disk.isSizeMismatch("+sizeT+","+fs+")") == "F" || relIs(s, sizeT, "==", fs, true), "R12d", site+":mismatch", d.pos(call), "file creation for a proxied entry is dominated by the requested/found size comparison",
				"path creates the file without isSizeMismatch(size, foundSize) having been rejected", x.Trace())
		}
		return b.ForkErr(x, lhs, 2, s, func(ok St) St {
			if len(lhs) > 0 {
				if t, k := b.Term(x, lhs[0], ok); k {
					ok = ok.Set("n:"+t, "nonnil").Set("v:"+t, "tf")
				}
			}
			return ok.Set("file", "created")
		}, func(bad St) St {
			if len(lhs) > 0 {
				if t, k := b.Term(x, lhs[0], bad); k {
					bad = bad.Set("n:"+t, "nil")
				}
			}
			return bad
		}), true
	case "os.Remove":
		if t, ok := b.Term(x, call.Args[0], s); ok && s.Get("v:"+t) == "tfname" {
			site := siteKey(x, call, key)
			d.note(s.Get("file") != "committed", "R04a", site+":notcommitted", d.pos(call), "the deferred clean-up never removes a committed file",
				"os.Remove of the new file after it was indexed", x.Trace())
			if s.Get("file") == "created" {
				s = s.Set("file", "removed")
			}
		}
		return []St{s}, true
	case kWriteFile:
		site := siteKey(x, call, key)
		d.note(s.Get("file") == "created", "R01a", site+":file", d.pos(call), "writeAndCloseFile writes the file created for this upload", "no created file on this path", x.Trace())
		// arguments: hash and size are Put's own parameters
		if d.top == kPut && len(call.Args) == 6 {
			fn := x.Fn
			okArgs := isParamNamed(fn, call.Args[1], "r") && isParamNamed(fn, call.Args[2], "kind") && isParamNamed(fn, call.Args[3], "hash") && isParamNamed(fn, call.Args[4], "size")
			d.note(okArgs, "R01c", site+":args", d.pos(call), "the verifier receives Put's own reader, kind, hash and size parameters",
				"writeAndCloseFile is not called with Put's (r, kind, hash, size)", nil)
		}
		return b.ForkErr(x, lhs, 1, s, func(ok St) St { return ok.Set("wrote", "ok") }, nil), true
	case kCommit:
		site := siteKey(x, call, key)
		if d.top == kPut {
			d.note(s.Get("wrote") == "ok", "R01a", site+":afterverify", d.pos(call), "commit (index insertion) is dominated by writeAndCloseFile returning nil (bytes verified, synced, closed)",
				"commit reachable without a successful writeAndCloseFile", x.Trace())
		}
		if d.top == kGet {
			valid := s.Get("validated") == "header"
			if !valid && s.Get("validated") == "length" {
				// the comparison must leave exactly copied == foundSize on this path
				fs, _ := b.Term(x, roleIdent(x, "foundSize", "lhs:cache.(Proxy).Get:1", "lhs:cache.(Proxy).Contains:1"), s)
				valid = relIs(s, s.Get("copied"), "==", fs, true) || s.Get("validated-by") == "isSizeMismatch"
			}
			d.note(valid, "R12e", site+":validated", d.pos(call),
				"commit of a proxied entry is dominated by a validation of what was stored (casblob header check against the stated size for compressed CAS, byte count against the stated size otherwise)",
				"path commits a backend stream whose length was never compared with the size it is indexed under (a short stream poisons the cache): validated="+s.Get("validated"), x.Trace())
		}
		d.note(s.Get("file") == "created", "R04a", site+":file", d.pos(call), "commit is reached with the created temp file pending", "no created file pending at commit", x.Trace())
		return nil, false // inline
	case "io.Copy":
		if d.top == kGet && len(call.Args) == 2 {
			if t, ok := b.Term(x, call.Args[0], s); ok && s.Get("v:"+t) == "tf" {
				// bytes from the backend written to the new file; remember the count variable
				st := s.Set("validated", "unchecked-length")
				if len(lhs) > 0 {
					if ct, ok := b.Term(x, lhs[0], s); ok {
						st = st.Set("copied", ct)
					}
				}
				for _, l := range lhs {
					st = b.AssignValue(x, l, nil, st)
				}
				return []St{st}, true
			}
		}
	case "casblob.GetZstdReadCloser", "casblob.GetUncompressedReadCloser":
		if d.top == kGet && x.Fn.Name == kGet {
			// validates the header against expectedSize (3rd argument)
			fs, _ := b.Term(x, roleIdent(x, "foundSize", "lhs:cache.(Proxy).Get:1", "lhs:cache.(Proxy).Contains:1"), s)
			at, _ := b.Term(x, call.Args[2], s)
			return b.ForkErr(x, lhs, 1, s, func(ok St) St {
				if at == fs && fs != "" {
					return ok.Set("validated", "header")
				}
				return ok
			}, nil), true
		}
	case "cache.(Proxy).Put":
		site := siteKey(x, call, key)
		d.note(s.Get("wrote") == "ok", "R12c", site+":afterwrite", d.pos(call), "the backend upload is started only after writeAndCloseFile succeeded", "proxy.Put reachable before the file is verified", x.Trace())
		d.note(s.Get("proxyput") == "", "R12c", site+":once", d.pos(call), "proxy.Put is called at most once per upload", "proxy.Put can be reached twice on one path", x.Trace())
		return []St{s.Set("proxyput", "done")}, true
	case "cache.(Proxy).Get":
		site := siteKey(x, call, key)
		sizeT := d.sizeTerm(x, s)
		d.note(relIs(s, "$recv.maxProxyBlobSize", "<", sizeT, false), "R18d", site+":reqsize", d.pos(call), "proxy.Get is dominated by requested size <= maxProxyBlobSize",
			"proxy.Get reachable for a request larger than max_proxy_blob_size", x.Trace())
		d.note(s.Get("n:$recv.proxy") == "nonnil", "R12a", site+":proxynonnil", d.pos(call), "proxy.Get is dominated by c.proxy != nil", "c.proxy may be nil here", x.Trace())
	}
	return nil, false
}

func identNamed(x *Exec, name string) ast.Expr {
	// finds an identifier use/def of a local named `name` in the current function (by scope lookup)
	fn := x.Fn
	for fn.Outer != nil {
		fn = fn.Outer
	}
	var found *ast.Ident
	ast.Inspect(fn.Body, func(n ast.Node) bool {
		if found != nil {
			return false
		}
		if id, ok := n.(*ast.Ident); ok && id.Name == name {
			if fn.Info.Defs[id] != nil {
				found = id
			}
		}
		return true
	})
	if found == nil {
		if fn.Type.Params != nil {
			for _, f := range fn.Type.Params.List {
				for _, n := range f.Names {
					if n.Name == name {
						return n
					}
				}
			}
		}
		return &ast.Ident{Name: "_"}
	}
	return found
}

func isParamNamed(fn *FlowFn, e ast.Expr, name string) bool {
	for fn.Outer != nil {
		fn = fn.Outer
	}
	o := identObj(fn.Info, e)
	if o == nil || fn.Type.Params == nil {
		return false
	}
	for _, f := range fn.Type.Params.List {
		for _, n := range f.Names {
			if fn.Info.Defs[n] == o && n.Name == name {
				return true
			}
		}
	}
	return false
}

// sizeTerm is the term of the top-level function's `size` parameter.
func (d *diskFlow) sizeTerm(x *Exec, s St) string {
	y := x
	for y.Parent != nil {
		y = y.Parent
	}
	fn := y.Fn
	for fn.Outer != nil {
		fn = fn.Outer
	}
	if fn.Type.Params == nil {
		return ""
	}
	for _, f := range fn.Type.Params.List {
		for _, n := range f.Names {
			if n.Name == "size" {
				if o := fn.Info.Defs[n]; o != nil {
					return objID(o)
				}
			}
		}
	}
	return ""
}

func (d *diskFlow) cond(x *Exec, cond ast.Expr, truth bool, s St) ([]St, bool) {
	call, ok := ast.Unparen(cond).(*ast.CallExpr)
	if !ok {
		// length validation for uncompressed proxied entries: a comparison of the
		// copied byte count with foundSize on the path to commit.
		if be, ok := ast.Unparen(cond).(*ast.BinaryExpr); ok && d.top == kGet && s.Get("validated") == "unchecked-length" {
			ct := s.Get("copied")
			lt, ok1 := d.base.Term(x, be.X, s)
			rt, ok2 := d.base.Term(x, be.Y, s)
			fs, _ := d.base.Term(x, roleIdent(x, "foundSize", "lhs:cache.(Proxy).Get:1", "lhs:cache.(Proxy).Contains:1"), s)
			if ok1 && ok2 && ct != "" && ((lt == ct && rt == fs) || (lt == fs && rt == ct)) {
				// fallthrough to the generic refinement, but remember the comparison happened
				outs := d.base.refineNoHook(x, cond, truth, s)
				for i := range outs {
					outs[i] = outs[i].Set("validated", "length")
				}
				return outs, true
			}
		}
		return nil, false
	}
	if calleeKey(x.Fn.Info, call) == kAdd {
		site := siteKey(x, call, kAdd)
		if x.Fn.Name == kCommit {
			d.note(s.Get("res") == "", "R03a", site+":unreserved", d.pos(call), "the reservation is released before the entry is added (reserve -> write -> unreserve+add under one lock)",
				"Add reached while the reservation is still counted (double counting)", x.Trace())
		}
		if truth {
			if s.Get("file") == "created" {
				return []St{s.Set("file", "committed")}, true
			}
			return []St{s}, true
		}
		return []St{s}, true
	}
	if canonPred(x.Fn.P, calleeKey(x.Fn.Info, call)) == "disk.isSizeMismatch" && d.top == kGet && s.Get("validated") == "unchecked-length" && len(call.Args) == 2 {
		ct := s.Get("copied")
		a0, _ := d.base.Term(x, call.Args[0], s)
		a1, _ := d.base.Term(x, call.Args[1], s)
		fs, _ := d.base.Term(x, roleIdent(x, "foundSize", "lhs:cache.(Proxy).Get:1", "lhs:cache.(Proxy).Contains:1"), s)
		if ct != "" && ((a0 == ct && a1 == fs) || (a0 == fs && a1 == ct)) {
			outs := d.base.refineNoHook(x, cond, truth, s)
			for i := range outs {
				if !truth {
					outs[i] = outs[i].Set("validated", "length").Set("validated-by", "isSizeMismatch")
				}
			}
			return outs, true
		}
	}
	return nil, false
}

// refineNoHook runs the generic refinement without consulting the Cond hook.
func (b *Base) refineNoHook(x *Exec, cond ast.Expr, truth bool, s St) []St {
	h := b.H.Cond
	b.H.Cond = nil
	defer func() { b.H.Cond = h }()
	return b.Refine(x, cond, truth, s)
}

// readerParam returns the io.Reader parameter of the outermost function of fn.
func readerParam(fn *FlowFn) types.Object {
	for fn.Outer != nil {
		fn = fn.Outer
	}
	if fn.Type.Params == nil {
		return nil
	}
	for _, f := range fn.Type.Params.List {
		if t := fn.Info.TypeOf(f.Type); t != nil && t.String() == "io.Reader" {
			for _, n := range f.Names {
				return fn.Info.Defs[n]
			}
		}
	}
	return nil
}

func (d *diskFlow) assign(x *Exec, as *ast.AssignStmt, s St) []St {
	// Put's reader is given up (r = nil disarms the deferred drain) only once it was consumed
	if d.top == kPut && x.Parent == nil {
		if rp := readerParam(x.Fn); rp != nil {
			for i, lhs := range as.Lhs {
				if identObj(x.Fn.Info, lhs) != rp {
					continue
				}
				isNil := len(as.Rhs) == len(as.Lhs) && exprStr(ast.Unparen(as.Rhs[i])) == "nil"
				d.cnt["rassign"]++
				site := fmt.Sprintf("%s:reader-assign#%d", kPut, stmtOrdinal(x.Fn, as))
				d.note(isNil && s.Get("wrote") == "ok", "R14j", site+":after-consumed", d.pos(as),
					"Put gives up its reader (which disarms the deferred drain) only after writeAndCloseFile read it to the end",
					"Put's reader parameter is reassigned on a path where it was not consumed: the deferred io.Copy(io.Discard, r) no longer drains it, a pipe writer feeding Put (SpliceBlob, ByteStream.Write) blocks for ever", x.Trace())
			}
		}
	}
	// blobFile = tf.Name()
	if len(as.Lhs) == 1 && len(as.Rhs) == 1 {
		if call, ok := ast.Unparen(as.Rhs[0]).(*ast.CallExpr); ok && fullCalleeName(x.Fn.Info, call) == "os.(File).Name" {
			if sel, ok := call.Fun.(*ast.SelectorExpr); ok {
				if rt, ok := d.base.Term(x, sel.X, s); ok && s.Get("v:"+rt) == "tf" {
					if lt, ok := d.base.Term(x, as.Lhs[0], s); ok {
						return []St{s.Set("v:"+lt, "tfname")}
					}
				}
			}
		}
	}
	return []St{s}
}

func (d *diskFlow) exit(x *Exec, ret *ast.ReturnStmt, s St) {
	fn := x.Fn
	key := "exit"
	pos := d.c.P.Pos(fn.Body.Rbrace)
	if ret != nil {
		pos = d.pos(ret)
		key = fmt.Sprintf("return#%d", returnOrdinal(fn, ret))
	}
	switch d.top {
	case kPut, kGet:
		d.note(s.Get("res") == "" || s.Get("unresfail") != "", "R03a", fn.Name+":"+key+":released", pos, "no reservation is held when the function returns (after the deferred clean-up ran)",
			"reservation still held at this exit: reserved bytes leak (res="+s.Get("res")+")", x.Trace())
		f := s.Get("file")
		d.note(f == "" || f == "committed" || f == "removed", "R04a", fn.Name+":"+key+":nofile", pos, "a created file is either indexed or removed when the function returns",
			"file created but neither committed nor removed at this exit (left on disk)", x.Trace())
		errNil := RetNil(fn, s, -1)
		if d.top == kPut {
			if errNil != "nonnil" {
				empty := false
				for k, v := range s.m {
					if strings.HasPrefix(k, "p:") && strings.Contains(k, "e3b0c44298fc1c149afbf4c8996fb92427ae41e4649b934ca495991b7852b855") && v == "T" {
						empty = true
					}
				}
				if empty {
					// the shortcut is exactly (kind == CAS, size == 0, hash == emptySha256): the
					// signature of Put is pinned by the disk.Cache interface (ctx, kind, hash, size, r)
					top := fn
					for top.Outer != nil {
						top = top.Outer
					}
					isCAS, k1 := relLookup(s, "#1", "==", paramTerm(top, 1))
					empty = k1 && isCAS && relIs(s, "#0", "==", paramTerm(top, 3), true)
				}
				d.note(f == "committed" || empty, "R01a", fn.Name+":"+key+":acked", pos,
					"a nil (success) return of Put is reached only after commit indexed the verified file (or on the empty-blob shortcut)",
					"Put can return success on a path where nothing was verified and indexed, and which is not the (CAS, size 0, empty SHA-256) shortcut (file="+f+", wrote="+s.Get("wrote")+")", x.Trace())
			} else {
				d.note(true, "R01a", fn.Name+":"+key+":acked", pos, "error return", "", nil)
			}
		}
		if d.top == kGet {
			// a non-nil reader that came from the backend implies committed
			if (RetNil(fn, s, 0) == "nonnil" || RetNil(fn, s, 2) == "nil") && s.Get("validated") != "" {
				d.note(f == "committed", "R12e", fn.Name+":"+key+":served", pos, "a proxied entry is served only after it was committed", "reader returned for an uncommitted backend stream", x.Trace())
			}
		}
	case kAvail:
		if RetNil(fn, s, 0) != "nil" {
			d.note(s.Get("reserveCalled") == "", "R17g", fn.Name+":"+key+":hit-no-reserve", pos, "a local hit is returned without calling Reserve (reads are not subject to admission)",
				"hit path passes through Reserve", x.Trace())
		} else {
			d.note(true, "R17g", fn.Name+":"+key+":hit-no-reserve", pos, "not a hit exit", "", nil)
		}
		// R03a summary: reservation held <=> returned tryProxy and size > 0
		tp := RetBool(fn, s, 2)
		held := s.Get("res") == "held"
		if held {
			d.note(tp == "true", "R03a", fn.Name+":"+key+":summary", pos, "availableOrTryProxy returns with a reservation held only together with tryProxy == true",
				"returns holding a reservation while tryProxy is "+tp+": the caller will never release it", x.Trace())
		} else {
			d.note(true, "R03a", fn.Name+":"+key+":summary", pos, "no reservation held at this exit", "", nil)
		}
	}
}

func returnOrdinal(fn *FlowFn, ret *ast.ReturnStmt) int {
	n := 0
	if ret == nil {
		return 0 // falling off the end of the function
	}
	ast.Inspect(fn.Body, func(m ast.Node) bool {
		if _, ok := m.(*ast.FuncLit); ok {
			return false
		}
		if r, ok := m.(*ast.ReturnStmt); ok && r.Pos() <= ret.Pos() {
			n++
		}
		return true
	})
	return n
}

// takeRules copies the obligations of the named rules into the report.
func takeRules(c *Ctx, obs []*Oblig, rules ...string) {
	want := map[string]bool{}
	for _, r := range rules {
		want[r] = true
	}
	for _, o := range obs {
		if want[o.Rule] || o.Rule == "anchor" {
			cp := *o
			cp.Key = c.Cfg + cp.Key
			c.R.add(&cp)
		}
	}
}

// relIs reports whether the relation l op r is known to have the given value.
func relIs(s St, l, op, r string, want bool) bool {
	v, known := relLookup(s, l, op, r)
	return known && v == want
}


// roleIdent finds a variable of the current (outermost) function by its role
// rather than by its name: "param:<i>" is the i-th parameter, "lhs:<callee>:<i>"
// the i-th left-hand side of an assignment from a call of <callee>.  The name is
// only the last resort (and what diagnostics print).
func roleIdent(x *Exec, name string, roles ...string) ast.Expr {
	fn := x.Fn
	for fn.Outer != nil {
		fn = fn.Outer
	}
	for _, role := range roles {
		parts := strings.Split(role, ":")
		switch parts[0] {
		case "param":
			want := 0
			fmt.Sscan(parts[1], &want)
			i := 0
			if fn.Type.Params != nil {
				for _, f := range fn.Type.Params.List {
					for _, n := range f.Names {
						if i == want {
							return n
						}
						i++
					}
				}
			}
		case "lhs":
			idx := 0
			fmt.Sscan(parts[len(parts)-1], &idx)
			callee := strings.Join(parts[1:len(parts)-1], ":")
			var found ast.Expr
			ast.Inspect(fn.Body, func(n ast.Node) bool {
				if found != nil {
					return false
				}
				if as, ok := n.(*ast.AssignStmt); ok && len(as.Rhs) == 1 && idx < len(as.Lhs) {
					if call, ok := ast.Unparen(as.Rhs[0]).(*ast.CallExpr); ok && calleeKey(fn.Info, call) == callee {
						if id, ok := as.Lhs[idx].(*ast.Ident); ok && id.Name != "_" {
							found = id
						}
					}
				}
				return true
			})
			if found != nil {
				return found
			}
		}
	}
	return identNamed(x, name)
}


// diskHelpersToInline returns the unexported functions and methods of
// cache/disk, other than the explored entry points and the callees the rules
// model by a summary, from which one of the tracked primitives is reachable.
func diskHelpersToInline(c *Ctx) []string {
	prims := map[string]bool{kReserve: true, kUnreserve: true, kCreate: true, kCommit: true, kAdd: true,
		"cache.(Proxy).Get": true, "cache.(Proxy).Put": true, "disk.(*diskCache).writeAndCloseFile": true}
	skip := map[string]bool{kPut: true, kGet: true, kAvail: true, kCommit: true, "disk.(*diskCache).writeAndCloseFile": true,
		"disk.(*diskCache).loadExistingFiles": true, "disk.New": true}
	calls := map[string][]string{}
	var fns []*FuncInfo
	for _, fi := range c.P.FuncsInPkg("/cache/disk") {
		if strings.HasSuffix(c.P.Fset.Position(fi.Decl.Pos()).Filename, "_test.go") || fi.Decl.Body == nil {
			continue
		}
		fns = append(fns, fi)
		for _, call := range callsIn(fi.Decl.Body, true) {
			if k := calleeKey(fi.Pkg.TypesInfo, call); k != "" {
				calls[fi.Key] = append(calls[fi.Key], k)
			}
		}
	}
	reaches := map[string]bool{}
	for changed := true; changed; {
		changed = false
		for _, fi := range fns {
			if reaches[fi.Key] {
				continue
			}
			for _, k := range calls[fi.Key] {
				if prims[k] || reaches[k] {
					reaches[fi.Key] = true
					changed = true
					break
				}
			}
		}
	}
	var out []string
	for _, fi := range fns {
		if !reaches[fi.Key] || skip[fi.Key] || strings.HasPrefix(fi.Key, "disk.(*SizedLRU).") || strings.HasPrefix(fi.Key, "disk.(*metricsDecorator).") {
			continue
		}
		if fi.Obj.Exported() {
			continue // entry points of the Cache interface call get/Put, not the other way round
		}
		out = append(out, fi.Key)
	}
	sort.Strings(out)
	return out
}

// stmtOrdinal numbers the assignments to the reader parameter in source order
// (keys must not depend on line numbers).
func stmtOrdinal(fn *FlowFn, as *ast.AssignStmt) int {
	n := 0
	ast.Inspect(fn.Body, func(m ast.Node) bool {
		if a, ok := m.(*ast.AssignStmt); ok && a.Pos() <= as.Pos() && len(a.Lhs) == len(as.Lhs) && exprStr(a.Lhs[0]) == exprStr(as.Lhs[0]) {
			n++
		}
		return true
	})
	return n
}
