package main

func init() {
	register(&PropCheck{ID: "C05", Explanation: "debug", Trusted: commonTrusted, Run: func(c *Ctx) {
		lruWriters(c)
		lruAccounting(c)
		lruMisc(c, map[string]bool{"R05a": true, "R03f": true, "R04c": true, "R17c": true, "R17e": true, "R01b": true, "R05e": true})
		staleHandles(c)
	}})
}
