package main

func init() {
	register(&PropCheck{ID: "C16", Explanation: "debug", Trusted: commonTrusted, Run: func(c *Ctx) {
		multiExecutorWrites(c)
		workerWrites(c)
		pipeRules(c)
		channelCapacity(c)
		noFatalOnRequestPaths(c)
	}})
}
