package main

// Rules anchored in cache/disk/lru.go: who-may-write the counters (R03b),
// conservation per mutation (R03c), eviction-loop guard <=> fit (R03d / R05c),
// stale handles (R03e / R07c), /status mapping (R03f), eviction queueing
// (R04b, R04c), recency (R05a, R05b, R05d, R05e), hard limit (R17a-c, R17e),
// who-may-index (R01b).

import (
	"fmt"
	"go/ast"
	"go/token"
	"go/types"
	"sort"
	"strings"
)

var lruCounterFields = map[string]bool{"currentSize": true, "uncompressedSize": true, "reservedSize": true}

func lruFieldOf(info *types.Info, e ast.Expr) string {
	sel, ok := ast.Unparen(e).(*ast.SelectorExpr)
	if !ok {
		return ""
	}
	f := fieldOf(info, sel)
	if strings.HasPrefix(f, "disk.SizedLRU.") {
		// the recency list and the index map are recognised by their types, whatever they are called
		if s := info.Selections[sel]; s != nil {
			ts := s.Obj().Type().String()
			switch {
			case ts == "*container/list.List":
				return "ll"
			case strings.HasPrefix(ts, "map[") && strings.HasSuffix(ts, "]*container/list.Element"):
				return "cache"
			}
		}
		return strings.TrimPrefix(f, "disk.SizedLRU.")
	}
	return ""
}

// lruHelperSet returns the unexported functions of cache/disk reachable from fi that the LRU
// rules do not model as primitives: what a refactoring may have split off an anchor.
func lruHelperSet(c *Ctx, fi *FuncInfo) (map[string]bool, []*ast.BlockStmt) {
	modelled := map[string]bool{"disk.(*SizedLRU).removeElement": true, "disk.(*SizedLRU).appendEvictionToQueue": true,
		"disk.(*SizedLRU).calcTotalDiskSizeAndUpdatePeak": true, "disk.roundUp4k": true, sumLargerKey(c.P): true,
		"disk.(*SizedLRU).Add": true, "disk.(*SizedLRU).Reserve": true, "disk.(*SizedLRU).Unreserve": true}
	set := map[string]bool{}
	bodies := []*ast.BlockStmt{fi.Decl.Body}
	seen := map[string]bool{fi.Key: true}
	for i := 0; i < len(bodies) && i < 8; i++ {
		for _, call := range callsIn(bodies[i], true) {
			h := c.P.Func(calleeKey(fi.Pkg.TypesInfo, call))
			if h == nil || seen[h.Key] || h.Pkg != fi.Pkg || ast.IsExported(h.Decl.Name.Name) || modelled[h.Key] || h.Decl.Body == nil {
				continue
			}
			seen[h.Key] = true
			set[h.Key] = true
			bodies = append(bodies, h.Decl.Body)
		}
	}
	return set, bodies
}

// sumLargerKey returns the key of the function playing the role of sumLargerThan.
func sumLargerKey(p *Prog) string {
	canonPred(p, "x")
	for k, v := range p.predAlias {
		if v == "disk.sumLargerThan" {
			return k
		}
	}
	return "disk.sumLargerThan"
}

// enclosingFuncs maps every node position to the function declaration containing it.
func funcContaining(p *Prog, pkgSuffix string, pos token.Pos) *FuncInfo {
	for _, fi := range p.FuncsInPkg(pkgSuffix) {
		if fi.Decl.Pos() <= pos && pos < fi.Decl.End() {
			return fi
		}
	}
	return nil
}

func lruWriters(c *Ctx) {
	R := c.R
	R.Rule("R03b", "E4/E7", "stores to SizedLRU.currentSize / uncompressedSize / reservedSize occur only in Add, removeElement, Reserve, Unreserve; the index (map and list) is mutated only in Add and removeElement", 8)
	pkg := c.P.Pkg("/cache/disk")
	if pkg == nil {
		R.Fail("R03b", c.Cfg+"anchor:cache/disk", "", "package does not load")
		return
	}
	allowed := map[string]map[string]bool{
		"currentSize":      {"disk.(*SizedLRU).Add": true, "disk.(*SizedLRU).removeElement": true, "disk.(*SizedLRU).Reserve": true, "disk.(*SizedLRU).Unreserve": true},
		"uncompressedSize": {"disk.(*SizedLRU).Add": true, "disk.(*SizedLRU).removeElement": true},
		"reservedSize":     {"disk.(*SizedLRU).Reserve": true, "disk.(*SizedLRU).Unreserve": true},
	}
	info := pkg.TypesInfo
	ord := map[string]int{}
	check := func(lhs ast.Expr, pos token.Pos) {
		f := lruFieldOf(info, lhs)
		if !lruCounterFields[f] {
			return
		}
		fi := funcContaining(c.P, "/cache/disk", pos)
		name := "?"
		if fi != nil {
			name = fi.Key
		}
		if strings.HasSuffix(c.P.Fset.Position(pos).Filename, "_test.go") {
			return
		}
		ord[name+f]++
		R.Check(allowed[f][name], "R03b", fmt.Sprintf("%s%s:store:%s#%d", c.Cfg, name, f, ord[name+f]), c.P.Pos(pos),
			"store to SizedLRU."+f+" is in one of the accounting functions", "SizedLRU."+f+" is written in "+name+", outside the functions that keep the accounting invariant")
	}
	for _, file := range pkg.Syntax {
		ast.Inspect(file, func(n ast.Node) bool {
			switch n := n.(type) {
			case *ast.AssignStmt:
				for _, l := range n.Lhs {
					check(l, n.Pos())
				}
			case *ast.IncDecStmt:
				check(n.X, n.Pos())
			case *ast.UnaryExpr:
				if n.Op == token.AND {
					if f := lruFieldOf(info, n.X); lruCounterFields[f] {
						R.Fail("R03b", c.Cfg+"addr:"+f, c.P.Pos(n.Pos()), "the address of SizedLRU."+f+" is taken (writes can no longer be attributed)")
					}
				}
			case *ast.CallExpr:
				// index mutations: delete(c.cache, k), c.ll.Remove / PushFront / MoveToFront, c.cache[k] = v
				name := fullCalleeName(info, n)
				fi := funcContaining(c.P, "/cache/disk", n.Pos())
				fn := "?"
				if fi != nil {
					fn = fi.Key
				}
				if strings.HasSuffix(c.P.Fset.Position(n.Pos()).Filename, "_test.go") {
					return true
				}
				switch {
				case name == "builtin.delete" && len(n.Args) == 2 && lruFieldOf(info, n.Args[0]) == "cache":
					R.Check(fn == "disk.(*SizedLRU).removeElement", "R03b", c.Cfg+fn+":delete(cache)", c.P.Pos(n.Pos()), "entries leave the index map only in removeElement", "delete on SizedLRU.cache in "+fn)
				case name == "container/list.(List).Remove":
					if sel, ok := n.Fun.(*ast.SelectorExpr); ok && lruFieldOf(info, sel.X) == "ll" {
						R.Check(fn == "disk.(*SizedLRU).removeElement", "R03b", c.Cfg+fn+":ll.Remove", c.P.Pos(n.Pos()), "entries leave the LRU list only in removeElement", "ll.Remove in "+fn)
					}
				case name == "container/list.(List).PushFront" || name == "container/list.(List).PushBack" || name == "container/list.(List).InsertBefore" || name == "container/list.(List).InsertAfter":
					if sel, ok := n.Fun.(*ast.SelectorExpr); ok && lruFieldOf(info, sel.X) == "ll" {
						R.Check(fn == "disk.(*SizedLRU).Add" && name == "container/list.(List).PushFront", "R03b", c.Cfg+fn+":ll.insert", c.P.Pos(n.Pos()), "entries enter the LRU list only in Add, at the front", name+" in "+fn)
					}
				}
			}
			return true
		})
	}
	// SizedLRU.cache is touched only inside lru.go (all lookups go through Get)
	R.Rule("R05a", "E2+E4", "every hit refreshes recency: SizedLRU.Get moves the element to the front before returning it; Add pushes new entries to the front and moves overwritten ones to the front; the index map is accessed only by SizedLRU methods; the lookup sites of diskCache are enumerated", 6)
	for _, file := range pkg.Syntax {
		fname := c.P.Fset.Position(file.Pos()).Filename
		if strings.HasSuffix(fname, "_test.go") {
			continue
		}
		ast.Inspect(file, func(n ast.Node) bool {
			sel, ok := n.(*ast.SelectorExpr)
			if !ok {
				return true
			}
			if f := fieldOf(info, sel); f == "disk.SizedLRU.cache" || f == "disk.SizedLRU.ll" {
				fi := funcContaining(c.P, "/cache/disk", sel.Pos())
				okFn := fi != nil && (strings.HasPrefix(fi.Key, "disk.(*SizedLRU).") || fi.Key == "disk.NewSizedLRU")
				name := "?"
				if fi != nil {
					name = fi.Key
				}
				R.Check(okFn, "R05a", c.Cfg+"access:"+name+":"+strings.TrimPrefix(f, "disk.SizedLRU."), c.P.Pos(sel.Pos()), "the index ("+f+") is accessed only by SizedLRU's own methods",
					f+" accessed from "+name+": a lookup that bypasses SizedLRU.Get does not refresh recency")
			}
			return true
		})
	}
}

type lruFlow struct {
	c        *Ctx
	base     *Base
	fn       string
	loopCond map[ast.Expr]bool
	hlCond   map[ast.Expr]bool
	eTerm    string
}

func paramTerm(fl *FlowFn, idx int) string {
	i := 0
	if fl.Type.Params == nil {
		return ""
	}
	for _, fld := range fl.Type.Params.List {
		for _, n := range fld.Names {
			if i == idx {
				if o := fl.Info.Defs[n]; o != nil {
					return objID(o)
				}
			}
			i++
		}
	}
	return ""
}

func linEq(got string, want map[string]int64) bool {
	g := parseLin(got)
	if g.C != 0 || len(g.T) != len(want) {
		return false
	}
	for k, v := range want {
		if g.T[k] != v {
			return false
		}
	}
	return true
}

func lruAccounting(c *Ctx) {
	R := c.R
	R.Rule("R03c", "E5", "conservation per mutation: the net effect of Add / removeElement / Reserve / Unreserve on currentSize, uncompressedSize, reservedSize is the 4 KiB-rounded size of exactly the entry that enters or leaves (resp. the reserved amount), on every exit; failing exits change nothing", 12)
	R.Rule("R03d", "E5", "eviction loops: the loop guard is the strict negation of the fit condition currentSize + delta <= maxSize for exactly the delta added after the loop (bound and minimal eviction)", 3)
	R.Rule("R03e", "E2+E3", "a list element obtained in one critical section and removed in a later one is stale; this is safe only because removeElement re-validates that the element is still the indexed one before it touches list, map, counters or the eviction queue", 3)
	R.Rule("R04b", "E2+E3", "every removal from the index queues the removed entry's file for deletion; an overwrite queues a copy of the old value taken before the store that replaces it", 3)
	R.Rule("R04g", "E2", "a refused Add leaves the index untouched: on every path to a false return of Add no entry was pushed, moved, stored in the map or overwritten (the caller deletes the file of a refused entry, so an entry indexed on such a path would have no file)", 2)
	R.Rule("R05b", "E3", "eviction victims are taken from the back of the LRU list", 2)
	R.Rule("R05d", "E2", "an item that cannot fit is rejected before anything is evicted (Add: rounded size > maxSize; Reserve: size > maxSize and size + reserved > maxSize)", 2)
	R.Rule("R17a", "E2", "Reserve: the hard-limit rejection (507) dominates every eviction and every counter store", 3)

	for _, key := range []string{"disk.(*SizedLRU).Add", "disk.(*SizedLRU).removeElement", "disk.(*SizedLRU).Reserve", "disk.(*SizedLRU).Unreserve"} {
		fi := c.P.MustFunc(R, "R03c", key)
		if fi == nil {
			continue
		}
		fl := c.P.FlowOf(fi)
		l := &lruFlow{c: c, fn: key, loopCond: map[ast.Expr]bool{}, hlCond: map[ast.Expr]bool{}}
		// helpers a refactoring may have split off are scanned and interpreted with the anchor
		helperSet, scanBodies := lruHelperSet(c, fi)
		isLruHelper := func(h *FuncInfo) bool { return helperSet[h.Key] }
		for _, scanBody := range scanBodies {
			ast.Inspect(scanBody, func(n ast.Node) bool {
				switch n := n.(type) {
				case *ast.ForStmt:
					if n.Cond != nil {
						for _, call := range callsIn(n.Body, false) {
							if calleeKey(fi.Pkg.TypesInfo, call) == "disk.(*SizedLRU).removeElement" {
								l.loopCond[n.Cond] = true
							}
						}
					}
				case *ast.IfStmt:
					if strings.Contains(exprStr(n.Cond), "maxSizeHardLimit") {
						l.hlCond[n.Cond] = true
						// the rejecting branch returns 507
						ok := false
						ast.Inspect(n.Body, func(m ast.Node) bool {
							if kv, k := m.(*ast.KeyValueExpr); k && exprStr(kv.Key) == "Code" && exprStr(kv.Value) == "http.StatusInsufficientStorage" {
								ok = true
							}
							return true
						})
						R.Check(ok, "R17a", c.Cfg+key+":limit-branch:507", c.P.Pos(n.Pos()), "the hard-limit branch rejects with http.StatusInsufficientStorage", "the branch guarded by maxSizeHardLimit does not return a 507 cache.Error")
						// shape of the test: limit > 0 && total > uint64(limit)
						be, isAnd := ast.Unparen(n.Cond).(*ast.BinaryExpr)
						shape := false
						if isAnd && be.Op == token.LAND {
							l1, ok1 := ast.Unparen(be.X).(*ast.BinaryExpr)
							l2, ok2 := ast.Unparen(be.Y).(*ast.BinaryExpr)
							if ok1 && ok2 && l1.Op == token.GTR && exprStr(l1.Y) == "0" && strings.HasSuffix(exprStr(l1.X), ".maxSizeHardLimit") &&
								l2.Op == token.GTR && strings.Contains(exprStr(l2.Y), ".maxSizeHardLimit") {
								shape = true
								// the compared total is the result of calcTotalDiskSizeAndUpdatePeak(<size parameter>)
								tot := identObj(fi.Pkg.TypesInfo, l2.X)
								def := false
								for _, sb := range scanBodies {
									ast.Inspect(sb, func(m ast.Node) bool {
										if as, k := m.(*ast.AssignStmt); k && len(as.Lhs) == 1 && len(as.Rhs) == 1 && identObj(fi.Pkg.TypesInfo, as.Lhs[0]) == tot && tot != nil {
											if call, k := as.Rhs[0].(*ast.CallExpr); k && calleeKey(fi.Pkg.TypesInfo, call) == "disk.(*SizedLRU).calcTotalDiskSizeAndUpdatePeak" && len(call.Args) == 1 {
												if o := identObj(fi.Pkg.TypesInfo, call.Args[0]); o != nil && sizeParamOf(c, fi, o) {
													def = true
												}
											}
										}
										return true
									})
								}
								R.Check(def, "R17b", c.Cfg+key+":limit-operand", c.P.Pos(n.Pos()), "the value compared with the hard limit is calcTotalDiskSizeAndUpdatePeak(size) for the requested size", "the compared total is not derived from calcTotalDiskSizeAndUpdatePeak(size)")
							}
						}
						R.Check(shape, "R17a", c.Cfg+key+":limit-test-shape", c.P.Pos(n.Pos()), "the admission test is `limit > 0 && total > limit` (strict: a total equal to the limit is admitted; limit <= 0 disables)", "unrecognised or weakened hard-limit test: "+exprStr(n.Cond))
					}
				}
				return true
			})
		}
		l.base = NewBase(Hooks{PreAssign: l.preAssign, Assign: l.assign, Cond: l.cond, EveryCall: l.everyCall, Exit: l.exit})
		l.base.AutoInline = isLruHelper
		l.eTerm = paramTerm(fl, 0)
		x := NewExec(fl, l.base)
		x.Run(newSt())
		if x.Aborted != "" {
			R.Fail("R03c", c.Cfg+key+":explore", "", "exploration did not complete: "+x.Aborted)
		}
		R.Count("abstract states explored (lru accounting)", x.stats.States)
		if key == "disk.(*SizedLRU).Add" || key == "disk.(*SizedLRU).Reserve" {
			R.Check(len(l.loopCond) == 1, "R03d", c.Cfg+key+":has-eviction-loop", c.P.Pos(fi.Decl.Pos()), key+" has exactly one eviction loop", fmt.Sprintf("found %d loops calling removeElement", len(l.loopCond)))
		}
		if key == "disk.(*SizedLRU).Reserve" {
			R.Check(len(l.hlCond) == 1, "R17a", c.Cfg+key+":has-limit-test", c.P.Pos(fi.Decl.Pos()), "Reserve has exactly one hard-limit test", fmt.Sprintf("found %d", len(l.hlCond)))
		}
	}
	// sumLargerThan(a, b, c) == a+b > c || a+b <= 0
	if fi := c.P.MustFunc(R, "R03d", sumLargerKey(c.P)); fi != nil {
		fl := c.P.FlowOf(fi)
		a, b, cc := paramTerm(fl, 0), paramTerm(fl, 1), paramTerm(fl, 2)
		var base *Base
		good := true
		n := 0
		base = NewBase(Hooks{
			PreAssign: func(x *Exec, as *ast.AssignStmt, s St) St { return base.LinPre(x, as, s) },
			Assign:    func(x *Exec, as *ast.AssignStmt, s St) []St { return []St{base.LinPost(x, as, s)} },
			Exit: func(x *Exec, ret *ast.ReturnStmt, s St) {
				if ret == nil || len(ret.Results) != 1 {
					good = false
					return
				}
				judge := func(res string, s St) {
					n++
					// find the sum variable
					sumT := ""
					for k, v := range s.m {
						if strings.HasPrefix(k, "lin:") && linEq(v, map[string]int64{a: 1, b: 1}) {
							sumT = k[4:]
						}
					}
					if sumT == "" {
						good = false
						return
					}
					gt, k1 := relLookup(s, cc, "<", sumT)
					le0, k2 := relLookup(s, sumT, "<=", "#0")
					switch res {
					case "true":
						if !((k1 && gt) || (k2 && le0)) {
							good = false
						}
					case "false":
						if !(k1 && !gt && k2 && !le0) {
							good = false
						}
					default:
						good = false
					}
				}
				if res := base.Bool(x, ret.Results[0], s); res == "true" || res == "false" {
					judge(res, s)
					return
				}
				// a boolean expression is returned: judge it under each of its truth values
				for _, st := range base.Refine(x, ret.Results[0], true, s) {
					judge("true", st)
				}
				for _, st := range base.Refine(x, ret.Results[0], false, s) {
					judge("false", st)
				}
			},
		})
		x := NewExec(fl, base)
		x.Run(newSt())
		R.Check(good && n >= 3, "R03d", c.Cfg+"disk.sumLargerThan:summary", c.P.Pos(fi.Decl.Pos()), "sumLargerThan(a,b,c) is true exactly when a+b > c or a+b <= 0 (overflow)", "the summary a+b > c || a+b <= 0 does not hold on every return")
	}
}

func (l *lruFlow) preAssign(x *Exec, as *ast.AssignStmt, s St) St {
	info := x.Fn.Info
	R := l.c.R
	for i, lhs := range as.Lhs {
		f := lruFieldOf(info, lhs)
		if !lruCounterFields[f] {
			continue
		}
		var delta Lin
		switch as.Tok {
		case token.ADD_ASSIGN:
			delta = l.base.LinEval(x, as.Rhs[i], s)
		case token.SUB_ASSIGN:
			delta = linConst(0).Add(l.base.LinEval(x, as.Rhs[i], s), -1)
		case token.ASSIGN:
			delta = l.base.LinEval(x, as.Rhs[i], s).Add(linAtom("$recv."+f), -1)
		default:
			delta = linAtom("?" + exprStr(as.Rhs[i]))
		}
		cur := parseLin(s.Get("d:" + f))
		s = s.Set("d:"+f, cur.Add(delta, 1).String())
		if s.Get("d:"+f) == "0" {
			s = s.Set("d:"+f, "")
		}
		site := fmt.Sprintf("%s%s:store:%s", l.c.Cfg, l.fn, f)
		if l.fn == "disk.(*SizedLRU).Reserve" {
			R.Check(s.Get("hl") == "passed", "R17a", site+":after-limit", l.c.P.Pos(as.Pos()), "counter store in Reserve is dominated by the hard-limit test", "counter updated on a path that did not pass the hard-limit test", x.Trace()...)
		}
		if l.fn == "disk.(*SizedLRU).removeElement" {
			R.Check(l.revalidated(s), "R03e", site+":revalidated", l.c.P.Pos(as.Pos()), "the counter update in removeElement is dominated by the test that the element is still the one indexed under its key",
				"removeElement updates "+f+" without checking that the element is still indexed: removing a stale handle twice subtracts its size twice (accounted size goes negative)", x.Trace()...)
		}
		// R03d: the delta added after the eviction loop is the one the guard tested
		if f == "currentSize" && (l.fn == "disk.(*SizedLRU).Add" || l.fn == "disk.(*SizedLRU).Reserve") && as.Tok == token.ADD_ASSIGN {
			if g := s.Get("loopdelta"); g != "" {
				R.Check(g == delta.String(), "R03d", site+":delta=guard", l.c.P.Pos(as.Pos()), "the amount added to currentSize after the eviction loop is the amount the loop guard made room for",
					fmt.Sprintf("loop guard tested %s but %s is added", g, delta.String()), x.Trace()...)
			}
		}
	}
	// stores that replace the value of an indexed entry
	if l.fn == "disk.(*SizedLRU).Add" && as.Tok == token.ASSIGN {
		for _, lhs := range as.Lhs {
			if ix, ok := ast.Unparen(lhs).(*ast.IndexExpr); ok && lruFieldOf(info, ix.X) == "cache" {
				s = s.Set("mapstore", "1")
			}
			if t, ok := l.base.Term(x, lhs, s); ok && strings.HasSuffix(t, ".Value.(*entry).value") {
				R.Check(s.Get("queuedOld") != "" || s.Get("oldcopy") != "", "R04b", l.c.Cfg+l.fn+":overwrite:copy-before-store", l.c.P.Pos(as.Pos()),
					"the old value of an overwritten entry is copied (for the eviction queue) before it is replaced", "the entry value is overwritten before a copy of the old value was taken: the old file is never deleted", x.Trace()...)
				s = s.Set("overwritten", "1")
			}
		}
	}
	return l.base.LinPre(x, as, s)
}

func (l *lruFlow) assign(x *Exec, as *ast.AssignStmt, s St) []St {
	s = l.base.LinPost(x, as, s)
	info := x.Fn.Info
	// ee, ok := c.cache[key]
	if len(as.Lhs) == 2 && len(as.Rhs) == 1 {
		if ix, ok := ast.Unparen(as.Rhs[0]).(*ast.IndexExpr); ok && lruFieldOf(info, ix.X) == "cache" {
			kt, _ := l.base.Term(x, ix.Index, s)
			if t, ok := l.base.LTerm(x, as.Lhs[0], s); ok {
				s = s.Set("v:"+t, "cachecur|"+kt)
			}
			if t, ok := l.base.LTerm(x, as.Lhs[1], s); ok {
				s = s.Set("v:"+t, "cacheok")
			}
		}
	}
	if len(as.Lhs) == 1 && len(as.Rhs) == 1 {
		// ele := c.ll.Back()
		if call, ok := ast.Unparen(as.Rhs[0]).(*ast.CallExpr); ok && fullCalleeName(info, call) == "container/list.(List).Back" {
			if sel, ok := call.Fun.(*ast.SelectorExpr); ok && lruFieldOf(info, sel.X) == "ll" {
				if t, ok := l.base.LTerm(x, as.Lhs[0], s); ok {
					s = s.Set("v:"+t, "back")
				}
			}
		}
		// kvCopy := &entry{kv.key, kv.value}
		r := ast.Unparen(as.Rhs[0])
		if u, ok := r.(*ast.UnaryExpr); ok && u.Op == token.AND {
			r = ast.Unparen(u.X)
		}
		if cl, ok := r.(*ast.CompositeLit); ok && len(cl.Elts) == 2 && strings.HasSuffix(info.TypeOf(cl).String(), "disk.entry") {
			v := cl.Elts[1]
			if kv, ok := v.(*ast.KeyValueExpr); ok {
				v = kv.Value
			}
			if vt, ok := l.base.Term(x, v, s); ok && strings.HasSuffix(vt, ".Value.(*entry).value") && s.Get("overwritten") == "" {
				if t, ok := l.base.LTerm(x, as.Lhs[0], s); ok {
					s = s.Set("v:"+t, "oldcopy").Set("oldcopy", "1")
				}
			}
		}
	}
	return []St{s}
}

func (l *lruFlow) revalidated(s St) bool {
	okTrue, curEq := false, false
	for k, v := range s.m {
		if strings.HasPrefix(k, "v:") && v == "cacheok" && s.Get("b:"+k[2:]) == "true" {
			okTrue = true
		}
		if strings.HasPrefix(k, "v:") && strings.HasPrefix(v, "cachecur|") {
			t := k[2:]
			a, b := t, l.eTerm
			if a > b {
				a, b = b, a
			}
			if eq, known := relLookup(s, a, "==", b); known && eq && strings.HasSuffix(v, ".key") {
				curEq = true
			}
		}
	}
	return okTrue && curEq
}

func (l *lruFlow) cond(x *Exec, cond ast.Expr, truth bool, s St) ([]St, bool) {
	R := l.c.R
	if l.loopCond[cond] {
		// normalise the guard to  currentSize + delta > maxSize
		var lhs Lin
		rhs := ""
		strict := false
		switch e := ast.Unparen(cond).(type) {
		case *ast.BinaryExpr:
			// a > b and b < a are the same guard: normalise to big > small, then
			// move everything except maxSize to the left
			big, small := e.X, e.Y
			if e.Op == token.LSS || e.Op == token.LEQ {
				big, small = e.Y, e.X
			}
			d := l.base.LinEval(x, big, s).Add(l.base.LinEval(x, small, s), -1)
			if d.T["$recv.maxSize"] == -1 {
				rhs = "$recv.maxSize"
				lhs = d.Add(linAtom("$recv.maxSize"), 1)
			} else {
				lhs = l.base.LinEval(x, big, s)
				rhs, _ = l.base.Term(x, small, s)
			}
			strict = e.Op == token.GTR || e.Op == token.LSS
		case *ast.CallExpr:
			if canonPred(x.Fn.P, calleeKey(x.Fn.Info, e)) == "disk.sumLargerThan" && len(e.Args) == 3 {
				lhs = l.base.LinEval(x, e.Args[0], s).Add(l.base.LinEval(x, e.Args[1], s), 1)
				rhs, _ = l.base.Term(x, e.Args[2], s)
				strict = true
			}
		}
		delta := lhs.Add(linAtom("$recv.currentSize"), -1)
		okShape := strict && rhs == "$recv.maxSize" && lhs.T["$recv.currentSize"] == 1
		R.Check(okShape, "R03d", l.c.Cfg+l.fn+":loop-guard", l.c.P.Pos(cond.Pos()), "the eviction loop runs exactly while currentSize + delta > maxSize (strict)",
			"unrecognised or weakened eviction guard: "+exprStr(cond)+" (a non-strict guard evicts when the item would exactly fit; a wrong operand breaks the bound)", x.Trace()...)
		s = s.Set("loopdelta", delta.String())
		return l.base.refineNoHook(x, cond, truth, s), true
	}
	if l.hlCond[cond] {
		outs := l.base.refineNoHook(x, cond, truth, s)
		if !truth {
			for i := range outs {
				outs[i] = outs[i].Set("hl", "passed")
			}
		}
		return outs, true
	}
	return nil, false
}

func (l *lruFlow) everyCall(x *Exec, call *ast.CallExpr, s St) []St {
	info := x.Fn.Info
	R := l.c.R
	key := calleeKey(info, call)
	full := fullCalleeName(info, call)
	switch {
	case key == "disk.(*SizedLRU).removeElement" && l.fn != "disk.(*SizedLRU).removeElement":
		site := fmt.Sprintf("%s%s:removeElement", l.c.Cfg, l.fn)
		if t, ok := l.base.LTerm(x, call.Args[0], s); ok {
			R.Check(s.Get("v:"+t) == "back", "R05b", site+":victim-from-back", l.c.P.Pos(call.Pos()), "the eviction victim is c.ll.Back()", "the evicted element is not taken from the back of the list (not least-recently-used)", x.Trace()...)
		}
		if l.fn == "disk.(*SizedLRU).Reserve" {
			R.Check(s.Get("hl") == "passed", "R17a", site+":after-limit", l.c.P.Pos(call.Pos()), "eviction in Reserve is dominated by the hard-limit test", "entries can be evicted for a request that is then refused (or before the limit was tested)", x.Trace()...)
			size := rootParamTerm(x, 0)
			big := relIs(s, "$recv.maxSize", "<", size, false)
			sum := s.Get("p:disk.sumLargerThan("+size+",$recv.reservedSize,$recv.maxSize)") == "F"
			R.Check(big && sum, "R05d", site+":after-oversize-tests", l.c.P.Pos(call.Pos()), "eviction in Reserve is dominated by the rejections size > maxSize and size + reserved > maxSize",
				fmt.Sprintf("eviction reachable without the oversize rejections (size>maxSize rejected=%v, size+reserved>maxSize rejected=%v)", big, sum), x.Trace()...)
		}
		if l.fn == "disk.(*SizedLRU).Add" {
			okBig := false
			for k, v := range s.m {
				if strings.HasPrefix(k, "p:$recv.maxSize<") && v == "F" {
					if lv := s.Get("lin:" + k[len("p:$recv.maxSize<"):]); strings.Contains(lv, "r4k(") && strings.Contains(lv, ".sizeOnDisk") {
						okBig = true
					}
				}
			}
			R.Check(okBig, "R05d", site+":after-oversize-test", l.c.P.Pos(call.Pos()), "eviction in Add is dominated by the rejection of roundUp4k(sizeOnDisk) > maxSize", "eviction reachable for an item that is larger than the cache", x.Trace()...)
		}
	case full == "container/list.(List).Remove" || full == "builtin.delete":
		if l.fn == "disk.(*SizedLRU).removeElement" {
			R.Check(l.revalidated(s), "R03e", fmt.Sprintf("%s%s:%s:revalidated", l.c.Cfg, l.fn, full[strings.LastIndex(full, ".")+1:]), l.c.P.Pos(call.Pos()),
				"the index mutation in removeElement is dominated by the test that the element is still the one indexed under its key", "removeElement mutates the index for an element that may already have been removed (stale handle)", x.Trace()...)
			s = s.Set("removed", "1")
		}
	case key == "disk.(*SizedLRU).appendEvictionToQueue":
		if t, ok := l.base.Term(x, call.Args[0], s); ok {
			if l.fn == "disk.(*SizedLRU).removeElement" && t == l.eTerm+".Value.(*entry)" {
				s = s.Set("queued", "1")
			}
		}
		if t, ok := l.base.LTerm(x, call.Args[0], s); ok && s.Get("v:"+t) == "oldcopy" {
			s = s.Set("queuedOld", "1")
		}
	case full == "container/list.(List).MoveToFront":
		s = s.Set("tofront", "1")
	case full == "container/list.(List).PushFront":
		s = s.Set("tofront", "1")
	}
	return []St{s}
}

func (l *lruFlow) exit(x *Exec, ret *ast.ReturnStmt, s St) {
	R := l.c.R
	fl := x.Fn
	key := "end"
	pos := l.c.P.Pos(fl.Body.Rbrace)
	if ret != nil {
		key = fmt.Sprintf("return#%d", returnOrdinal(fl, ret))
		pos = l.c.P.Pos(ret.Pos())
	}
	cur, unc, res := s.Get("d:currentSize"), s.Get("d:uncompressedSize"), s.Get("d:reservedSize")
	zero := cur == "" && unc == "" && res == ""
	site := fmt.Sprintf("%s%s:%s", l.c.Cfg, l.fn, key)
	got := fmt.Sprintf("Δcurrent=[%s] Δuncompressed=[%s] Δreserved=[%s]", cur, unc, res)
	p0 := paramTerm(fl, 0)
	switch l.fn {
	case "disk.(*SizedLRU).removeElement":
		if s.Get("removed") == "" {
			R.Check(zero, "R03c", site+":noop", pos, "an exit of removeElement that does not remove the element changes no counter", got, x.Trace()...)
			return
		}
		e := p0 + ".Value.(*entry).value"
		ok := linEq(cur, map[string]int64{"r4k(" + e + ".sizeOnDisk)": -1}) && linEq(unc, map[string]int64{"r4k(" + e + ".size)": -1}) && res == ""
		R.Check(ok, "R03c", site+":delta", pos, "removeElement(e): Δcurrent = -roundUp4k(e.sizeOnDisk), Δuncompressed = -roundUp4k(e.size), Δreserved = 0", got, x.Trace()...)
		R.Check(s.Get("queued") == "1", "R04b", site+":queued", pos, "the removed entry is handed to appendEvictionToQueue", "the entry leaves the index without its file being queued for deletion (file stays on disk for ever)", x.Trace()...)
	case "disk.(*SizedLRU).Add":
		if ret == nil || len(ret.Results) != 1 {
			R.Fail("R03c", site+":shape", pos, "unrecognised return in Add")
			return
		}
		if l.base.Bool(x, ret.Results[0], s) != "true" {
			R.Check(zero && s.Get("tofront") == "" && s.Get("overwritten") == "", "R03c", site+":rejected", pos, "a false return of Add changes neither the counters nor the index", got, x.Trace()...)
			R.Check(s.Get("tofront") == "" && s.Get("overwritten") == "" && s.Get("mapstore") == "" && s.Get("queuedOld") == "", "R04g", site+":index-untouched", pos,
				"Add refuses before it touches the list, the map, an entry's value or the eviction queue",
				fmt.Sprintf("Add returns false after the index was changed (list insert/move=%v, map store=%v, value overwritten=%v, old file queued=%v): the caller removes the refused file, the entry stays indexed without one",
					s.Get("tofront") != "", s.Get("mapstore") != "", s.Get("overwritten") != "", s.Get("queuedOld") != ""), x.Trace()...)
			return
		}
		v := paramTerm(fl, 1)
		overwrite := s.Get("overwritten") != ""
		var ok bool
		if !overwrite {
			ok = linEq(cur, map[string]int64{"r4k(" + v + ".sizeOnDisk)": 1}) && linEq(unc, map[string]int64{"r4k(" + v + ".size)": 1}) && res == ""
			R.Check(ok, "R03c", site+":new-key", pos, "Add of a new key: Δcurrent = +roundUp4k(value.sizeOnDisk), Δuncompressed = +roundUp4k(value.size)", got, x.Trace()...)
		} else {
			// old value must be the one read before the store
			ok = false
			gc, gu := parseLin(cur), parseLin(unc)
			if gc.T["r4k("+v+".sizeOnDisk)"] == 1 && gu.T["r4k("+v+".size)"] == 1 && len(gc.T) == 2 && len(gu.T) == 2 && gc.C == 0 && gu.C == 0 && res == "" {
				okc, oku := false, false
				for a, k := range gc.T {
					if k == -1 && strings.HasPrefix(a, "r4k(old:") && strings.HasSuffix(a, ".Value.(*entry).value.sizeOnDisk)") {
						okc = true
					}
				}
				for a, k := range gu.T {
					if k == -1 && strings.HasPrefix(a, "r4k(old:") && strings.HasSuffix(a, ".Value.(*entry).value.size)") {
						oku = true
					}
				}
				ok = okc && oku
			}
			R.Check(ok, "R03c", site+":overwrite", pos, "Add over an existing key: Δcurrent = roundUp4k(new.sizeOnDisk) - roundUp4k(old.sizeOnDisk), Δuncompressed likewise, old read before the store that replaces it", got, x.Trace()...)
			R.Check(s.Get("queuedOld") == "1", "R04b", site+":overwrite-queued", pos, "the old value's file is queued for deletion when a key is overwritten", "overwrite path does not queue the copy of the old value: the predecessor file is never removed", x.Trace()...)
		}
		R.Check(s.Get("tofront") == "1", "R05a", site+":front", pos, "an added or overwritten entry is moved to the front of the LRU list", "entry is not moved to the front on this path", x.Trace()...)
	case "disk.(*SizedLRU).Reserve", "disk.(*SizedLRU).Unreserve":
		sign := int64(1)
		if l.fn == "disk.(*SizedLRU).Unreserve" {
			sign = -1
		}
		if RetNil(fl, s, 0) == "nonnil" {
			R.Check(zero, "R03c", site+":error", pos, "an error return changes no counter", got, x.Trace()...)
			return
		}
		if relIs(s, "#0", "==", p0, true) {
			R.Check(zero, "R03c", site+":zero", pos, "size 0 changes no counter", got, x.Trace()...)
			return
		}
		ok := linEq(cur, map[string]int64{p0: sign}) && linEq(res, map[string]int64{p0: sign}) && unc == ""
		R.Check(ok, "R03c", site+":delta", pos, fmt.Sprintf("Δcurrent = Δreserved = %+d*size", sign), got, x.Trace()...)
	}
}

// ---------- remaining lru.go rules on the AST ----------

func lruMisc(c *Ctx, want map[string]bool) {
	R := c.R
	pkg := c.P.Pkg("/cache/disk")
	if pkg == nil {
		return
	}
	info := pkg.TypesInfo
	if want["R05a"] {
		// Get: the hit return is dominated by MoveToFront of the element found
		if fi := c.P.MustFunc(R, "R05a", "disk.(*SizedLRU).Get"); fi != nil {
			var base *Base
			hits := 0
			base = NewBase(Hooks{
				Assign: func(x *Exec, as *ast.AssignStmt, s St) []St {
					if len(as.Lhs) == 2 && len(as.Rhs) == 1 {
						if ix, ok := ast.Unparen(as.Rhs[0]).(*ast.IndexExpr); ok && lruFieldOf(info, ix.X) == "cache" {
							if t, ok := base.LTerm(x, as.Lhs[0], s); ok {
								s = s.Set("v:"+t, "found")
							}
						}
					}
					return []St{s}
				},
				EveryCall: func(x *Exec, call *ast.CallExpr, s St) []St {
					if fullCalleeName(info, call) == "container/list.(List).MoveToFront" && len(call.Args) == 1 {
						if t, ok := base.LTerm(x, call.Args[0], s); ok && s.Get("v:"+t) == "found" {
							s = s.Set("moved", "1")
						}
					}
					return []St{s}
				},
				Exit: func(x *Exec, ret *ast.ReturnStmt, s St) {
					if ret == nil || len(ret.Results) != 2 || isNilIdent(info, ret.Results[1]) {
						return
					}
					hits++
					R.Check(s.Get("moved") == "1", "R05a", fmt.Sprintf("%sdisk.(*SizedLRU).Get:return#%d:refreshed", c.Cfg, returnOrdinal(x.Fn, ret)), c.P.Pos(ret.Pos()),
						"the hit return of Get is dominated by MoveToFront of the element found", "Get returns a hit without refreshing its recency (a frequently read entry gets evicted first)", x.Trace()...)
				},
			})
			x := NewExec(c.P.FlowOf(fi), base)
			x.Run(newSt())
			R.Check(hits >= 1, "R05a", c.Cfg+"disk.(*SizedLRU).Get:has-hit-return", "", "Get has a hit return", "no hit return recognised")
		}
		// the lookup sites in diskCache
		sites := 0
		for _, fi := range c.P.FuncsInPkg("/cache/disk") {
			if !strings.HasPrefix(fi.Key, "disk.(*diskCache).") {
				continue
			}
			for _, call := range callsIn(fi.Decl.Body, true) {
				if calleeKey(info, call) == "disk.(*SizedLRU).Get" {
					sites++
					R.OK("R05a", fmt.Sprintf("%slookup-site:%s#%d", c.Cfg, fi.Key, sites), c.P.Pos(call.Pos()), "index lookup through SizedLRU.Get (refreshes recency)")
				}
			}
		}
		R.Check(sites >= 4, "R05a", c.Cfg+"lookup-sites", "", "the four lookup sites (availableOrTryProxy x2, Contains, findMissingLocalCAS) go through SizedLRU.Get", fmt.Sprintf("found %d", sites))
	}
	if want["R03f"] {
		R.Rule("R03f", "E3", "/status reports the counters: Stats() returns (TotalSize, ReservedSize, Len, UncompressedSize) under the lock, each accessor returns its counter, StatusPageHandler maps them to the matching JSON fields", 8)
		acc := map[string]string{"TotalSize": "currentSize", "ReservedSize": "reservedSize", "UncompressedSize": "uncompressedSize", "MaxSize": "maxSize"}
		for m, f := range acc {
			fi := c.P.MustFunc(R, "R03f", "disk.(*SizedLRU)."+m)
			if fi == nil {
				continue
			}
			ok := false
			if len(fi.Decl.Body.List) == 1 {
				if r, k := fi.Decl.Body.List[0].(*ast.ReturnStmt); k && len(r.Results) == 1 && lruFieldOf(info, r.Results[0]) == f {
					ok = true
				}
			}
			R.Check(ok, "R03f", c.Cfg+"accessor:"+m, c.P.Pos(fi.Decl.Pos()), m+"() returns SizedLRU."+f, m+"() does not simply return "+f)
		}
		if fi := c.P.MustFunc(R, "R03f", "disk.(*SizedLRU).Len"); fi != nil {
			ok := false
			if len(fi.Decl.Body.List) == 1 {
				if r, k := fi.Decl.Body.List[0].(*ast.ReturnStmt); k && len(r.Results) == 1 {
					if call, k := r.Results[0].(*ast.CallExpr); k && fullCalleeName(info, call) == "builtin.len" && lruFieldOf(info, call.Args[0]) == "cache" {
						ok = true
					}
				}
			}
			R.Check(ok, "R03f", c.Cfg+"accessor:Len", c.P.Pos(fi.Decl.Pos()), "Len() returns len(cache)", "Len() does not return len(c.cache)")
		}
		if fi := c.P.MustFunc(R, "R03f", "disk.(*diskCache).Stats"); fi != nil {
			var ret *ast.ReturnStmt
			ast.Inspect(fi.Decl.Body, func(n ast.Node) bool {
				if r, ok := n.(*ast.ReturnStmt); ok {
					ret = r
				}
				return true
			})
			wantM := []string{"TotalSize", "ReservedSize", "Len", "UncompressedSize"}
			ok := ret != nil && len(ret.Results) == 4
			if ok {
				for i, r := range ret.Results {
					call, k := r.(*ast.CallExpr)
					if !k || calleeKey(info, call) != "disk.(*SizedLRU)."+wantM[i] {
						ok = false
					}
				}
			}
			R.Check(ok, "R03f", c.Cfg+"disk.(*diskCache).Stats:tuple", c.P.Pos(fi.Decl.Pos()), "Stats returns (TotalSize, ReservedSize, Len, UncompressedSize) in this order", "Stats' result tuple does not match its documented order")
			names := []string{}
			if fi.Decl.Type.Results != nil {
				for _, f := range fi.Decl.Type.Results.List {
					for _, n := range f.Names {
						names = append(names, n.Name)
					}
				}
			}
			R.Check(strings.Join(names, ",") == "totalSize,reservedSize,numItems,uncompressedSize", "R03f", c.Cfg+"disk.(*diskCache).Stats:names", c.P.Pos(fi.Decl.Pos()), "Stats' named results are (totalSize, reservedSize, numItems, uncompressedSize)", "got "+strings.Join(names, ","))
		}
		if fi := c.P.MustFunc(R, "R03f", "server.(*httpCache).StatusPageHandler"); fi != nil {
			sinfo := fi.Pkg.TypesInfo
			// variables bound to the 4-tuple
			bound := map[types.Object]int{}
			ast.Inspect(fi.Decl.Body, func(n ast.Node) bool {
				if as, ok := n.(*ast.AssignStmt); ok && len(as.Lhs) == 4 && len(as.Rhs) == 1 {
					if call, ok := as.Rhs[0].(*ast.CallExpr); ok && calleeKey(sinfo, call) == "disk.(Cache).Stats" {
						for i, l := range as.Lhs {
							if o := identObj(sinfo, l); o != nil {
								bound[o] = i
							}
						}
					}
				}
				return true
			})
			wantField := map[string]int{"CurrSize": 0, "ReservedSize": 1, "NumFiles": 2, "UncompressedSize": 3}
			seen := 0
			ast.Inspect(fi.Decl.Body, func(n ast.Node) bool {
				kv, ok := n.(*ast.KeyValueExpr)
				if !ok {
					return true
				}
				k, _ := kv.Key.(*ast.Ident)
				if k == nil {
					return true
				}
				if idx, ok := wantField[k.Name]; ok {
					seen++
					o := identObj(sinfo, kv.Value)
					got, isBound := bound[o]
					R.Check(o != nil && isBound && got == idx, "R03f", c.Cfg+"status-field:"+k.Name, c.P.Pos(kv.Pos()), "status field "+k.Name+" is fed from the matching element of Stats()", "status field "+k.Name+" is fed from "+exprStr(kv.Value))
				}
				if k.Name == "MaxSize" {
					seen++
					call, ok := kv.Value.(*ast.CallExpr)
					R.Check(ok && calleeKey(sinfo, call) == "disk.(Cache).MaxSize", "R03f", c.Cfg+"status-field:MaxSize", c.P.Pos(kv.Pos()), "status field MaxSize is cache.MaxSize()", "got "+exprStr(kv.Value))
				}
				return true
			})
			R.Check(seen == 5, "R03f", c.Cfg+"status-fields", c.P.Pos(fi.Decl.Pos()), "all five size fields of the status page are populated", fmt.Sprintf("found %d", seen))
		}
	}
	if want["R04c"] {
		R.Rule("R04c", "E3", "the background remover deletes exactly the queued entry's file: performQueuedEvictions calls onEvict(kv.key, kv.value) for every queued entry and the callback installed by loadExistingFiles removes getElementPath(key, value)", 3)
		if fi := c.P.MustFunc(R, "R04c", "disk.(*SizedLRU).performQueuedEvictions"); fi != nil {
			ok := false
			ast.Inspect(fi.Decl.Body, func(n ast.Node) bool {
				rs, k := n.(*ast.RangeStmt)
				if !k || rs.Value == nil {
					return true
				}
				v := identObj(info, rs.Value)
				// the call is a statement of the loop body itself and nothing
				// before it can skip it (continue / break / return / goto)
				var direct []*ast.CallExpr
				for _, st := range rs.Body.List {
					if es, k := st.(*ast.ExprStmt); k {
						if call, k := es.X.(*ast.CallExpr); k {
							direct = append(direct, call)
							continue
						}
					}
					skip := false
					ast.Inspect(st, func(m ast.Node) bool {
						switch m.(type) {
						case *ast.BranchStmt, *ast.ReturnStmt:
							skip = true
						case *ast.FuncLit:
							return false
						}
						return true
					})
					if skip {
						break
					}
				}
				for _, call := range direct {
					if sel, k := call.Fun.(*ast.SelectorExpr); k && lruFieldOf(info, sel) == "onEvict" && len(call.Args) == 2 {
						a0, k0 := call.Args[0].(*ast.SelectorExpr)
						a1, k1 := call.Args[1].(*ast.SelectorExpr)
						if k0 && k1 && identObj(info, a0.X) == v && identObj(info, a1.X) == v && a0.Sel.Name == "key" && a1.Sel.Name == "value" {
							ok = true
						}
					}
				}
				return true
			})
			R.Check(ok, "R04c", c.Cfg+"performQueuedEvictions:onEvict", c.P.Pos(fi.Decl.Pos()), "every queued entry kv is passed to onEvict(kv.key, kv.value)", "performQueuedEvictions does not call onEvict(kv.key, kv.value) for each queued entry")
		}
		if fi := c.P.MustFunc(R, "R04c", "disk.(*diskCache).loadExistingFiles"); fi != nil {
			ok, wired := false, false
			var cb types.Object
			ast.Inspect(fi.Decl.Body, func(n ast.Node) bool {
				if as, k := n.(*ast.AssignStmt); k && len(as.Lhs) == 1 && len(as.Rhs) == 1 {
					if lit, k := as.Rhs[0].(*ast.FuncLit); k && lit.Type.Params != nil && len(lit.Type.Params.List) == 2 {
						// body: f := c.getElementPath(key, value); c.removeFile(f)
						var pathVar types.Object
						pk := identObj(info, lit.Type.Params.List[0].Names[0])
						pv := identObj(info, lit.Type.Params.List[1].Names[0])
						for _, call := range callsIn(lit.Body, false) {
							switch calleeKey(info, call) {
							case "disk.(*diskCache).getElementPath":
								if len(call.Args) == 2 && identObj(info, call.Args[0]) == pk && identObj(info, call.Args[1]) == pv {
									ast.Inspect(lit.Body, func(m ast.Node) bool {
										if a2, k := m.(*ast.AssignStmt); k && len(a2.Rhs) == 1 && a2.Rhs[0] == ast.Expr(call) {
											pathVar = identObj(info, a2.Lhs[0])
										}
										return true
									})
								}
							case "disk.(*diskCache).removeFile", "os.Remove":
								if len(call.Args) == 1 && pathVar != nil && identObj(info, call.Args[0]) == pathVar {
									ok = true
									cb = identObj(info, as.Lhs[0])
								}
							}
						}
					}
				}
				if call, k := n.(*ast.CallExpr); k && calleeKey(info, call) == "disk.NewSizedLRU" && len(call.Args) >= 2 && cb != nil && identObj(info, call.Args[1]) == cb {
					wired = true
				}
				return true
			})
			R.Check(ok, "R04c", c.Cfg+"loadExistingFiles:onEvict-callback", c.P.Pos(fi.Decl.Pos()), "the eviction callback removes getElementPath(key, value)", "the callback does not remove the path computed from the evicted (key, value)")
			R.Check(wired, "R04c", c.Cfg+"loadExistingFiles:onEvict-wired", c.P.Pos(fi.Decl.Pos()), "that callback is the one handed to NewSizedLRU", "NewSizedLRU is not given the removal callback")
		}
	}
	if want["R17c"] {
		R.Rule("R17b", "E5", "what is compared with the hard limit: calcTotalDiskSizeAndUpdatePeak(n) returns currentSize + queuedEvictionsSize + n and Reserve passes the requested size", 2)
		R.Rule("R17c", "E2+E5", "backlog bookkeeping: appendEvictionToQueue adds the entry's sizeOnDisk to queuedEvictionsSize; performQueuedEvictions subtracts the same field after onEvict ran for that entry", 2)
		if fi := c.P.MustFunc(R, "R17b", "disk.(*SizedLRU).calcTotalDiskSizeAndUpdatePeak"); fi != nil {
			fl := c.P.FlowOf(fi)
			var base *Base
			good, n := true, 0
			base = NewBase(Hooks{
				PreAssign: func(x *Exec, as *ast.AssignStmt, s St) St { return base.LinPre(x, as, s) },
				Assign:    func(x *Exec, as *ast.AssignStmt, s St) []St { return []St{base.LinPost(x, as, s)} },
				Exit: func(x *Exec, ret *ast.ReturnStmt, s St) {
					if ret == nil || len(ret.Results) != 1 {
						good = false
						return
					}
					n++
					v := base.LinEval(x, ret.Results[0], s)
					if !linEq(v.String(), map[string]int64{"$recv.currentSize": 1, "load($recv.queuedEvictionsSize)": 1, paramTerm(fl, 0): 1}) {
						good = false
					}
				},
			})
			x := NewExec(fl, base)
			x.Run(newSt())
			R.Check(good && n > 0, "R17b", c.Cfg+"calcTotalDiskSizeAndUpdatePeak:sum", c.P.Pos(fi.Decl.Pos()), "returns currentSize + queuedEvictionsSize + sizeOfNewFile", "the returned total is not currentSize + queuedEvictionsSize.Load() + the new file's size")
		}
		if fi := c.P.MustFunc(R, "R17c", "disk.(*SizedLRU).appendEvictionToQueue"); fi != nil {
			ok := false
			for _, call := range callsIn(fi.Decl.Body, false) {
				if sel, k := call.Fun.(*ast.SelectorExpr); k && sel.Sel.Name == "Add" && lruFieldOf(info, sel.X) == "queuedEvictionsSize" && len(call.Args) == 1 {
					if exprStr(call.Args[0]) == fi.Decl.Type.Params.List[0].Names[0].Name+".value.sizeOnDisk" {
						ok = true
					}
				}
			}
			R.Check(ok, "R17c", c.Cfg+"appendEvictionToQueue:add", c.P.Pos(fi.Decl.Pos()), "queuedEvictionsSize grows by the queued entry's sizeOnDisk", "appendEvictionToQueue does not add e.value.sizeOnDisk to queuedEvictionsSize")
		}
		if fi := c.P.MustFunc(R, "R17c", "disk.(*SizedLRU).performQueuedEvictions"); fi != nil {
			ok := false
			ast.Inspect(fi.Decl.Body, func(n ast.Node) bool {
				rs, k := n.(*ast.RangeStmt)
				if !k || rs.Value == nil {
					return true
				}
				v := exprStr(rs.Value)
				evictAt, subAt := token.NoPos, token.NoPos
				for _, call := range callsIn(rs.Body, false) {
					if sel, k := call.Fun.(*ast.SelectorExpr); k {
						if lruFieldOf(info, sel) == "onEvict" {
							evictAt = call.Pos()
						}
						if sel.Sel.Name == "Add" && lruFieldOf(info, sel.X) == "queuedEvictionsSize" && len(call.Args) == 1 && exprStr(call.Args[0]) == "-"+v+".value.sizeOnDisk" {
							subAt = call.Pos()
						}
					}
				}
				ok = evictAt.IsValid() && subAt.IsValid() && evictAt < subAt
				return true
			})
			R.Check(ok, "R17c", c.Cfg+"performQueuedEvictions:subtract-after-evict", c.P.Pos(fi.Decl.Pos()), "queuedEvictionsSize shrinks by kv.value.sizeOnDisk after onEvict ran for kv", "the backlog is decremented before the file is removed, by another amount, or not at all")
		}
	}
	if want["R17e"] {
		R.Rule("R17e", "E2+E3", "off means off: the hard limit reaches SizedLRU only when > 0, main passes MaxSizeHardLimit GiB, and 507 is produced nowhere else in cache/disk except for size + reserved > maxSize", 4)
		// stores to maxSizeHardLimit
		n := 0
		for _, file := range pkg.Syntax {
			if strings.HasSuffix(c.P.Fset.Position(file.Pos()).Filename, "_test.go") {
				continue
			}
			ast.Inspect(file, func(m ast.Node) bool {
				is, ok := m.(*ast.IfStmt)
				if ok {
					for _, st := range is.Body.List {
						if as, k := st.(*ast.AssignStmt); k && len(as.Lhs) == 1 && lruFieldOf(info, as.Lhs[0]) == "maxSizeHardLimit" {
							n++
							be, k := is.Cond.(*ast.BinaryExpr)
							R.Check(k && be.Op == token.GTR && exprStr(be.Y) == "0" && exprStr(be.X) == exprStr(as.Rhs[0]), "R17e", c.Cfg+"store:maxSizeHardLimit", c.P.Pos(as.Pos()),
								"SizedLRU.maxSizeHardLimit is set only from a configured value > 0", "maxSizeHardLimit stored under condition "+exprStr(is.Cond))
						}
					}
				}
				return true
			})
		}
		R.Check(n == 1, "R17e", c.Cfg+"store:maxSizeHardLimit:count", "", "exactly one guarded store to maxSizeHardLimit", fmt.Sprintf("found %d guarded stores", n))
		// 507 sites
		var sites []string
		for _, file := range pkg.Syntax {
			if strings.HasSuffix(c.P.Fset.Position(file.Pos()).Filename, "_test.go") {
				continue
			}
			ast.Inspect(file, func(m ast.Node) bool {
				if kv, ok := m.(*ast.KeyValueExpr); ok && exprStr(kv.Key) == "Code" && exprStr(kv.Value) == "http.StatusInsufficientStorage" {
					fi := funcContaining(c.P, "/cache/disk", kv.Pos())
					if fi != nil {
						k := fi.Key
						if rf := c.P.Func("disk.(*SizedLRU).Reserve"); rf != nil {
							if hs, _ := lruHelperSet(c, rf); hs[k] {
								k = rf.Key // split off Reserve
							}
						}
						sites = append(sites, k)
					}
				}
				return true
			})
		}
		sort.Strings(sites)
		R.Check(strings.Join(sites, ",") == "disk.(*SizedLRU).Reserve,disk.(*SizedLRU).Reserve", "R17e", c.Cfg+"507-sites", "", "http.StatusInsufficientStorage is produced only twice, both in Reserve (reserved space full; hard limit)", "507 sites: "+strings.Join(sites, ","))
		// main passes GiB
		if fm := c.P.MustFunc(R, "R17e", "main.run"); fm != nil {
			ok := false
			for _, call := range callsIn(fm.Decl.Body, true) {
				if calleeKey(fm.Pkg.TypesInfo, call) == "disk.WithMaxSizeHardLimit" && len(call.Args) == 1 {
					a := strings.ReplaceAll(exprStr(call.Args[0]), " ", "")
					ok = a == "int64(c.MaxSizeHardLimit)*1024*1024*1024"
				}
			}
			R.Check(ok, "R17e", c.Cfg+"main.run:WithMaxSizeHardLimit", c.P.Pos(fm.Decl.Pos()), "main passes int64(c.MaxSizeHardLimit) GiB", "WithMaxSizeHardLimit is not given c.MaxSizeHardLimit in GiB")
		}
	}
	if want["R01b"] {
		R.Rule("R01b", "E4", "who may index: SizedLRU.Add is called only from commit and loadExistingFiles; commit only from Put and get", 4)
		callers := map[string][]string{}
		for _, fi := range c.P.FuncsInPkg("/cache/disk") {
			if strings.HasSuffix(c.P.Fset.Position(fi.Decl.Pos()).Filename, "_test.go") {
				continue
			}
			for _, call := range callsIn(fi.Decl.Body, true) {
				k := calleeKey(info, call)
				if k == "disk.(*SizedLRU).Add" || k == "disk.(*diskCache).commit" {
					callers[k] = append(callers[k], fi.Key)
				}
			}
		}
		for k, wantC := range map[string]string{"disk.(*SizedLRU).Add": "disk.(*diskCache).commit,disk.(*diskCache).loadExistingFiles", "disk.(*diskCache).commit": "disk.(*diskCache).Put,disk.(*diskCache).get"} {
			sort.Strings(callers[k])
			for _, cl := range callers[k] {
				R.Check(strings.Contains(wantC, cl), "R01b", c.Cfg+"caller:"+k+"<-"+cl, "", cl+" is an allowed caller of "+k, cl+" inserts into the index without going through the verified Put/get paths")
			}
			R.Check(strings.Join(callers[k], ",") == wantC, "R01b", c.Cfg+"callers:"+k, "", "callers of "+k+" are exactly "+wantC, "callers: "+strings.Join(callers[k], ","))
		}
	}
	if want["R05e"] {
		R.Rule("R05e", "E3", "two-phase sizing: Put reserves the logical size and commit adds an item with size = logical size and sizeOnDisk = bytes written", 2)
		if fi := c.P.MustFunc(R, "R05e", "disk.(*diskCache).commit"); fi != nil {
			// commit(key, legacy, tempfile, reservedSize, logicalSize, sizeOnDisk, random)
			ok := false
			ast.Inspect(fi.Decl.Body, func(n ast.Node) bool {
				if cl, k := n.(*ast.CompositeLit); k && strings.HasSuffix(info.TypeOf(cl).String(), "disk.lruItem") {
					m := map[string]types.Object{}
					for _, el := range cl.Elts {
						if kv, k := el.(*ast.KeyValueExpr); k {
							m[exprStr(kv.Key)] = identObj(info, kv.Value)
						}
					}
					ok = m["size"] != nil && m["size"] == paramObj(fi, 4) && m["sizeOnDisk"] == paramObj(fi, 5) && m["legacy"] == paramObj(fi, 1) && m["random"] == paramObj(fi, 6)
				}
				return true
			})
			R.Check(ok, "R05e", c.Cfg+"commit:item-fields", c.P.Pos(fi.Decl.Pos()), "the indexed item carries (size: logical size, sizeOnDisk: size on disk, legacy, random) as passed by the caller, parameter by parameter", "commit builds the lruItem from other values")
		}
		if fi := c.P.MustFunc(R, "R05e", "disk.(*diskCache).Put"); fi != nil {
			ok := false
			written := lhsObjOfCall(fi, "disk.(*diskCache).writeAndCloseFile", 0)
			random := lhsObjOfCall(fi, "tempfile.(*Creator).Create", 1)
			size := paramObj(fi, 3)
			for _, call := range callsIn(fi.Decl.Body, false) {
				if calleeKey(info, call) == "disk.(*diskCache).commit" && len(call.Args) == 7 {
					ok = size != nil && identObj(info, call.Args[3]) == size && identObj(info, call.Args[4]) == size &&
						written != nil && identObj(info, call.Args[5]) == written && random != nil && identObj(info, call.Args[6]) == random
				}
			}
			R.Check(ok, "R05e", c.Cfg+"Put:commit-args", c.P.Pos(fi.Decl.Pos()), "Put commits (reserved = size, logical = size, sizeOnDisk = bytes written by writeAndCloseFile, random = the suffix tempfile.Create chose)", "unexpected arguments to commit in Put")
		}
	}
}

// staleHandles: R03e at the call sites of RemoveElement in diskCache.
func staleHandles(c *Ctx) {
	R := c.R
	fi := c.P.MustFunc(R, "R03e", kAvail)
	if fi == nil {
		return
	}
	pkg := fi.Pkg
	isMu := func(call *ast.CallExpr, m string) bool {
		if fullCalleeName(pkg.TypesInfo, call) != "sync.(Mutex)."+m {
			return false
		}
		sel, _ := call.Fun.(*ast.SelectorExpr)
		inner, ok := ast.Unparen(sel.X).(*ast.SelectorExpr)
		return ok && fieldOf(pkg.TypesInfo, inner) == "disk.diskCache.mu"
	}
	var base *Base
	n := 0
	base = NewBase(Hooks{
		Call: func(x *Exec, call *ast.CallExpr, lhs []ast.Expr, s St) ([]St, bool) {
			if isMu(call, "Lock") {
				ep := s.Get("epoch")
				return []St{s.Set("epoch", ep+"i")}, true
			}
			if calleeKey(x.Fn.Info, call) == "disk.(*SizedLRU).Get" && len(lhs) == 2 {
				st := s
				for _, l := range lhs {
					st = base.AssignValue(x, l, nil, st)
				}
				if t, ok := base.LTerm(x, lhs[1], st); ok {
					st = st.Set("el:"+t, "e"+s.Get("epoch"))
				}
				return []St{st}, true
			}
			if calleeKey(x.Fn.Info, call) == "disk.(*SizedLRU).RemoveElement" && len(call.Args) == 1 {
				n++
				t, _ := base.LTerm(x, call.Args[0], s)
				fresh := s.Get("el:"+t) == "e"+s.Get("epoch")
				site := fmt.Sprintf("%s%s:RemoveElement#%d", c.Cfg, kAvail, callOrdinal(x, call))
				if fresh {
					R.OK("R03e", site, c.P.Pos(call.Pos()), "the element was obtained in the same critical section (fresh handle)")
				} else {
					R.OK("R03e", site, c.P.Pos(call.Pos()), "stale handle (obtained before the lock was released and re-taken): safe only through removeElement's re-validation, which is checked separately")
					R.Count("stale RemoveElement handles relying on re-validation", 1)
				}
			}
			return nil, false
		},
	})
	x := NewExec(c.P.FlowOf(fi), base)
	x.Run(newSt())
	R.Check(n >= 2, "R03e", c.Cfg+kAvail+":RemoveElement-sites", "", "both RemoveElement call sites of availableOrTryProxy were analysed", fmt.Sprintf("found %d", n))
}

// paramObj returns the object of the idx-th parameter of fi (nil if absent).
func paramObj(fi *FuncInfo, idx int) types.Object {
	i := 0
	if fi.Decl.Type.Params == nil {
		return nil
	}
	for _, f := range fi.Decl.Type.Params.List {
		for _, n := range f.Names {
			if i == idx {
				return fi.Pkg.TypesInfo.Defs[n]
			}
			i++
		}
	}
	return nil
}

// lhsObjOfCall returns the variable that receives the idx-th result of the
// (first) assignment from a call of callee in fi.
func lhsObjOfCall(fi *FuncInfo, callee string, idx int) types.Object {
	info := fi.Pkg.TypesInfo
	var out types.Object
	ast.Inspect(fi.Decl.Body, func(n ast.Node) bool {
		if out != nil {
			return false
		}
		if as, ok := n.(*ast.AssignStmt); ok && len(as.Rhs) == 1 && idx < len(as.Lhs) {
			if call, ok := ast.Unparen(as.Rhs[0]).(*ast.CallExpr); ok && calleeKey(info, call) == callee {
				out = identObj(info, as.Lhs[idx])
			}
		}
		return true
	})
	return out
}

// sizeParamOf: o is the first parameter of anchor fi, or a parameter of a helper of fi to which fi
// (directly) passes its own first parameter.
func sizeParamOf(c *Ctx, fi *FuncInfo, o types.Object) bool {
	p0 := paramObj(fi, 0)
	if o == p0 {
		return true
	}
	info := fi.Pkg.TypesInfo
	for _, call := range callsIn(fi.Decl.Body, true) {
		h := c.P.Func(calleeKey(info, call))
		if h == nil || h.Pkg != fi.Pkg {
			continue
		}
		for i, a := range call.Args {
			if identObj(info, a) == p0 && paramObj(h, i) == o {
				return true
			}
		}
	}
	return false
}

// rootParamTerm is the term of parameter idx of the function at the root of the inlining chain.
func rootParamTerm(x *Exec, idx int) string {
	for x.Parent != nil {
		x = x.Parent
	}
	return paramTerm(x.Fn, idx)
}
