package main

// Concurrency-shaped rules:
//   R07e no unsynchronised writes from closures that several goroutines can run
//   R07f worker writes are disjoint and awaited
//   R14e pipes are terminated
//   R14f goroutines can always finish (channel capacity per path)
//   R14g no process-terminating call is reachable from a request handler

import (
	"fmt"
	"go/ast"
	"go/token"
	"go/types"
	"sort"
	"strings"
)

func inLoopStmt(root ast.Node, n ast.Node) bool {
	found := false
	ast.Inspect(root, func(m ast.Node) bool {
		switch m := m.(type) {
		case *ast.ForStmt:
			if m.Body.Pos() <= n.Pos() && n.End() <= m.Body.End() {
				found = true
			}
		case *ast.RangeStmt:
			if m.Body.Pos() <= n.Pos() && n.End() <= m.Body.End() {
				found = true
			}
		}
		return !found
	})
	return found
}

func multiExecutorWrites(c *Ctx) {
	R := c.R
	R.Rule("R07e", "E3", "a closure that more than one goroutine can run at a time (handed to the contains-worker pool through a channel, or started by `go` inside a loop) does not write a captured variable except through sync/atomic, a mutex or a channel", 2)
	n := 0
	for _, pkgS := range []string{"/cache/disk", "/server"} {
		for _, fi := range c.P.FuncsInPkg(pkgS) {
			if strings.HasSuffix(c.P.Fset.Position(fi.Decl.Pos()).Filename, "_test.go") {
				continue
			}
			info := fi.Pkg.TypesInfo
			// literals assigned to variables
			litVar := map[types.Object]*ast.FuncLit{}
			ast.Inspect(fi.Decl.Body, func(m ast.Node) bool {
				if as, ok := m.(*ast.AssignStmt); ok && len(as.Lhs) == len(as.Rhs) {
					for i, r := range as.Rhs {
						if l, ok := r.(*ast.FuncLit); ok {
							if o := identObj(info, as.Lhs[i]); o != nil {
								litVar[o] = l
							}
						}
					}
				}
				return true
			})
			multi := map[*ast.FuncLit]string{}
			ast.Inspect(fi.Decl.Body, func(m ast.Node) bool {
				switch m := m.(type) {
				case *ast.GoStmt:
					if l, ok := m.Call.Fun.(*ast.FuncLit); ok && inLoopStmt(fi.Decl.Body, m) {
						multi[l] = "started by a go statement inside a loop"
					}
				case *ast.SendStmt:
					// a struct literal carrying the closure is sent to a channel drained by workers
					if cl, ok := ast.Unparen(m.Value).(*ast.CompositeLit); ok && inLoopStmt(fi.Decl.Body, m) {
						for _, el := range cl.Elts {
							v := el
							if kv, ok := el.(*ast.KeyValueExpr); ok {
								v = kv.Value
							}
							if l, ok := v.(*ast.FuncLit); ok {
								multi[l] = "sent to a worker pool through " + exprStr(m.Chan)
							}
							if o := identObj(info, v); o != nil && litVar[o] != nil {
								multi[litVar[o]] = "sent to a worker pool through " + exprStr(m.Chan) + " (as " + o.Name() + ")"
							}
						}
					}
				}
				return true
			})
			var lits []*ast.FuncLit
			for l := range multi {
				lits = append(lits, l)
			}
			sort.Slice(lits, func(i, j int) bool { return lits[i].Pos() < lits[j].Pos() })
			for li, l := range lits {
				n++
				var bad []string
				locks := false
				for _, call := range callsIn(l.Body, false) {
					if strings.HasSuffix(fullCalleeName(info, call), ".Lock") {
						locks = true
					}
				}
				check := func(lhs ast.Expr, pos token.Pos) {
					o := identObj(info, lhs)
					if o == nil {
						return
					}
					if v, ok := o.(*types.Var); ok && !(o.Pos() >= l.Pos() && o.Pos() < l.End()) && v.Parent() != v.Pkg().Scope() && !locks {
						bad = append(bad, fmt.Sprintf("%s written at %s", o.Name(), c.P.Pos(pos)))
					}
				}
				ast.Inspect(l.Body, func(m ast.Node) bool {
					switch m := m.(type) {
					case *ast.AssignStmt:
						for _, lh := range m.Lhs {
							check(lh, m.Pos())
						}
					case *ast.IncDecStmt:
						check(m.X, m.Pos())
					}
					return true
				})
				R.Check(len(bad) == 0, "R07e", fmt.Sprintf("%s%s:closure#%d", c.Cfg, fi.Key, li+1), c.P.Pos(l.Pos()), "closure that is "+multi[l]+" writes no captured variable without synchronisation",
					"closure that is "+multi[l]+" writes captured variable(s) without synchronisation (data race between workers and the reader): "+strings.Join(bad, "; "))
			}
		}
	}
	R.Count("multi-executor closures found", n)
}

func workerWrites(c *Ctx) {
	R := c.R
	R.Rule("R07f", "E2+E3", "worker writes are disjoint and awaited: every proxy check gets the address of a distinct slice element (&chunk[i], i the range index), wg.Add(1) precedes the send, and the normal return of findMissingCasBlobsInternal is reached only through the wait channel that is closed after wg.Wait()", 4)
	fi := c.P.MustFunc(R, "R07f", "disk.(*diskCache).findMissingCasBlobsInternal")
	if fi == nil {
		return
	}
	info := fi.Pkg.TypesInfo
	var send *ast.SendStmt
	ast.Inspect(fi.Decl.Body, func(n ast.Node) bool {
		if s, ok := n.(*ast.SendStmt); ok {
			if sel, ok := ast.Unparen(s.Chan).(*ast.SelectorExpr); ok && fieldOf(info, sel) == "disk.diskCache.containsQueue" {
				send = s
			}
		}
		return true
	})
	if send == nil {
		R.Fail("R07f", c.Cfg+"findMissingCasBlobsInternal:send", "", "the send on containsQueue was not found")
		return
	}
	// digest: &chunk[i] with i the key of the enclosing range over chunk
	okDigest := false
	if cl, ok := ast.Unparen(send.Value).(*ast.CompositeLit); ok {
		for _, el := range cl.Elts {
			if kv, ok := el.(*ast.KeyValueExpr); ok && exprStr(kv.Key) == "digest" {
				if u, ok := kv.Value.(*ast.UnaryExpr); ok && u.Op == token.AND {
					if ix, ok := u.X.(*ast.IndexExpr); ok {
						ast.Inspect(fi.Decl.Body, func(n ast.Node) bool {
							if rs, ok := n.(*ast.RangeStmt); ok && rs.Key != nil && rs.Body.Pos() <= send.Pos() && send.End() <= rs.Body.End() {
								if exprStr(rs.X) == exprStr(ix.X) && identObj(info, rs.Key) == identObj(info, ix.Index) && rs.Value == nil {
									okDigest = true
								}
							}
							return true
						})
					}
				}
			}
		}
	}
	R.Check(okDigest, "R07f", c.Cfg+"findMissingCasBlobsInternal:distinct-element", c.P.Pos(send.Pos()), "each queued check points at &chunk[i] for the loop's own index i (distinct elements, no two workers share a slot)", "the digest pointer handed to the workers is not the address of the loop's current element")
	// wg.Add(1) directly before the send
	okAdd := false
	ast.Inspect(fi.Decl.Body, func(n ast.Node) bool {
		if bs, ok := n.(*ast.BlockStmt); ok {
			for i, st := range bs.List {
				if st == ast.Stmt(send) && i > 0 {
					if es, ok := bs.List[i-1].(*ast.ExprStmt); ok {
						if call, ok := es.X.(*ast.CallExpr); ok && fullCalleeName(info, call) == "sync.(WaitGroup).Add" && exprStr(call.Args[0]) == "1" {
							okAdd = true
						}
					}
				}
			}
		}
		return true
	})
	R.Check(okAdd, "R07f", c.Cfg+"findMissingCasBlobsInternal:add-before-send", c.P.Pos(send.Pos()), "wg.Add(1) immediately precedes each send", "the wait group is not incremented right before the send (Wait could return early)")
	// waiter goroutine: wg.Wait(); close(waitCh)
	okWaiter, waitCh := false, ""
	ast.Inspect(fi.Decl.Body, func(n ast.Node) bool {
		if g, ok := n.(*ast.GoStmt); ok {
			if l, ok := g.Call.Fun.(*ast.FuncLit); ok && len(l.Body.List) == 2 {
				c1, ok1 := l.Body.List[0].(*ast.ExprStmt)
				c2, ok2 := l.Body.List[1].(*ast.ExprStmt)
				if ok1 && ok2 {
					a, okA := c1.X.(*ast.CallExpr)
					b, okB := c2.X.(*ast.CallExpr)
					if okA && okB && fullCalleeName(info, a) == "sync.(WaitGroup).Wait" && fullCalleeName(info, b) == "builtin.close" {
						okWaiter = true
						waitCh = exprStr(b.Args[0])
					}
				}
			}
		}
		return true
	})
	R.Check(okWaiter, "R07f", c.Cfg+"findMissingCasBlobsInternal:waiter", c.P.Pos(fi.Decl.Pos()), "a waiter goroutine closes the wait channel only after wg.Wait() returned", "waiter goroutine (wg.Wait(); close(ch)) not found")
	// engine: with a proxy the nil return passes the receive from waitCh
	var base *Base
	nret := 0
	base = NewBase(Hooks{
		Stmt: func(x *Exec, n ast.Node, s St) ([]St, bool) {
			if es, ok := n.(*ast.ExprStmt); ok {
				if u, ok := es.X.(*ast.UnaryExpr); ok && u.Op == token.ARROW && exprStr(u.X) == waitCh && x.InComm != nil {
					return []St{s.Set("waited", "1")}, true
				}
			}
			return nil, false
		},
		Exit: func(x *Exec, ret *ast.ReturnStmt, s St) {
			if RetNil(x.Fn, s, 0) == "nonnil" {
				return
			}
			if s.Get("n:$recv.proxy") != "nonnil" {
				return
			}
			nret++
			R.Check(s.Get("waited") == "1", "R07f", fmt.Sprintf("%sfindMissingCasBlobsInternal:return#%d:awaited", c.Cfg, returnOrdinal(x.Fn, ret)), c.P.Pos(posOf(x, ret)),
				"with a proxy backend the nil return is reached only after all queued checks finished", "a nil return with a proxy configured does not wait for the workers (results may be written after the caller read the slice)", x.Trace()...)
		},
	})
	base.InlineOwnHelpers()
	x := NewExec(c.P.FlowOf(fi), base)
	x.Run(newSt())
	R.Check(nret > 0, "R07f", c.Cfg+"findMissingCasBlobsInternal:proxy-returns", "", "nil returns with a proxy were found", "none found")
}

// ---------- R14e ----------

var pipeEntries = []closerEntry{
	{key: "server.(*grpcServer).Write"},
	{key: "server.(*grpcServer).SpliceBlob"},
	{key: "casblob.GetLegacyZstdReadCloser"},
}

func pipeRules(c *Ctx) {
	R := c.R
	R.Rule("R14e", "E2+E3", "pipes are terminated: the read end of every io.Pipe() in request code is, on every exit of the function that created it, closed (possibly deferred), returned to the caller, or handed to Cache.Put, which drains its reader on every path; otherwise a goroutine writing to the pipe blocks for ever", 3)
	// Cache.Put drains its reader: the deferred io.Copy(io.Discard, r)
	if fp := c.P.MustFunc(R, "R14e", kPut); fp != nil {
		ok := false
		why := "disk.Put no longer drains its reader on all paths: pipes handed to it can block their writers"
		if len(fp.Decl.Body.List) > 0 {
			if d, isDefer := fp.Decl.Body.List[0].(*ast.DeferStmt); isDefer {
				if l, isLit := d.Call.Fun.(*ast.FuncLit); isLit {
					rp := readerParam(c.P.FlowOf(fp))
					info := fp.Pkg.TypesInfo
					// the drain is the closure's only effect and is guarded by nothing but `r != nil`
					var walk func(list []ast.Stmt, guarded bool)
					walk = func(list []ast.Stmt, guarded bool) {
						for _, st := range list {
							switch st := st.(type) {
							case *ast.IfStmt:
								be, isBin := ast.Unparen(st.Cond).(*ast.BinaryExpr)
								onlyNil := isBin && be.Op == token.NEQ && st.Init == nil && st.Else == nil &&
									((identObj(info, be.X) == rp && exprStr(be.Y) == "nil") || (identObj(info, be.Y) == rp && exprStr(be.X) == "nil"))
								if onlyNil && !guarded && rp != nil {
									walk(st.Body.List, true)
								} else {
									why = "the deferred drain of disk.Put is guarded by more than `r != nil` (" + exprStr(st.Cond) + "): on the other paths a pipe handed to Put is never read to the end"
								}
							case *ast.ExprStmt, *ast.AssignStmt:
								for _, call := range callsIn(st, false) {
									if fullCalleeName(info, call) == "io.Copy" && len(call.Args) == 2 && exprStr(call.Args[0]) == "io.Discard" && rp != nil && identObj(info, call.Args[1]) == rp {
										ok = true
									}
								}
							}
						}
					}
					walk(l.Body.List, false)
				}
			}
		}
		R.Check(ok, "R14e", c.Cfg+kPut+":drains-reader", c.P.Pos(fp.Decl.Pos()), "disk.Put's first deferred call drains the reader on every exit, guarded by nothing but r != nil (so a pipe handed to Put is always read to EOF)", why)
	}
	// count pipes
	n := 0
	for _, e := range pipeEntries {
		if fi := c.P.Func(e.key); fi != nil {
			for _, call := range callsIn(fi.Decl.Body, true) {
				if fullCalleeName(fi.Pkg.TypesInfo, call) == "io.Pipe" {
					n++
				}
			}
		}
	}
	for _, pkgS := range []string{"/server", "/cache/disk", "/cache/disk/casblob"} {
		for _, fi := range c.P.FuncsInPkg(pkgS) {
			if strings.HasSuffix(c.P.Fset.Position(fi.Decl.Pos()).Filename, "_test.go") {
				continue
			}
			for _, call := range callsIn(fi.Decl.Body, true) {
				if fullCalleeName(fi.Pkg.TypesInfo, call) == "io.Pipe" {
					listed := false
					for _, e := range pipeEntries {
						if e.key == fi.Key {
							listed = true
						}
					}
					R.Check(listed, "R14e", c.Cfg+fi.Key+":pipe-analysed", c.P.Pos(call.Pos()), "io.Pipe() in "+fi.Key+" is covered by the pipe ownership analysis", "a new io.Pipe() in request code is not covered by the analysis")
				}
			}
		}
	}
	saveA, saveC := closerAcquirers["io.Pipe"], closerConsumers["disk.(Cache).Put"]
	closerAcquirers["io.Pipe"] = acquireSpec{res: 0, err: -1, what: "pipe read end", nonNilOK: true}
	closerConsumers["disk.(Cache).Put"] = map[int]string{4: "always"}
	defer func() {
		if saveA.what == "" {
			delete(closerAcquirers, "io.Pipe")
		}
		if saveC == nil {
			delete(closerConsumers, "disk.(Cache).Put")
		}
	}()
	runCloserRulesOnly(c, "R14e", pipeEntries, func(what string) bool { return what == "pipe read end" })
}

// ---------- R14f ----------

func channelCapacity(c *Ctx) {
	R := c.R
	R.Rule("R14f", "E2", "goroutines can always finish: for each request-scoped buffered channel, along every path the sends performed by the path itself plus the sends of the goroutines it starts do not exceed the channel's capacity (sends in a select with a default or context case excepted)", 4)
	for _, key := range []string{"server.(*grpcServer).Write", "server.(*grpcServer).SpliceBlob"} {
		fi := c.P.MustFunc(R, "R14f", key)
		if fi == nil {
			continue
		}
		info := fi.Pkg.TypesInfo
		caps := map[types.Object]int64{}
		ast.Inspect(fi.Decl.Body, func(n ast.Node) bool {
			if as, ok := n.(*ast.AssignStmt); ok && len(as.Lhs) == 1 && len(as.Rhs) == 1 {
				if call, ok := as.Rhs[0].(*ast.CallExpr); ok && fullCalleeName(info, call) == "builtin.make" {
					if _, isChan := info.TypeOf(call.Args[0]).Underlying().(*types.Chan); isChan {
						k := int64(0)
						if len(call.Args) == 2 {
							k, _ = constInt(info, call.Args[1])
						}
						if o := identObj(info, as.Lhs[0]); o != nil {
							caps[o] = k
						}
					}
				}
			}
			return true
		})
		fl := c.P.FlowOf(fi)
		memo := map[*FlowFn]map[string]int{}
		var maxSends func(fn *FlowFn) map[string]int
		maxSends = func(fn *FlowFn) map[string]int {
			if m, ok := memo[fn]; ok {
				return m
			}
			memo[fn] = map[string]int{}
			res := map[string]int{}
			var base *Base
			base = NewBase(Hooks{
				Stmt: func(x *Exec, n ast.Node, s St) ([]St, bool) {
					switch n := n.(type) {
					case *ast.SendStmt:
						if o := identObj(info, n.Chan); o != nil {
							if _, tracked := caps[o]; tracked && x.InComm == nil {
								k := "k:" + o.Name()
								v := len(s.Get(k))
								if v < 4 {
									s = s.Set(k, s.Get(k)+"i")
								}
								return []St{s}, true
							}
						}
					case *ast.GoStmt:
						if l, ok := n.Call.Fun.(*ast.FuncLit); ok {
							child := maxSends(fn.Lit(l))
							for ch, k := range child {
								cur := s.Get("k:" + ch)
								for i := 0; i < k && len(cur) < 4; i++ {
									cur += "i"
								}
								s = s.Set("k:"+ch, cur)
							}
							return []St{s}, true
						}
					}
					return nil, false
				},
				Exit: func(x *Exec, ret *ast.ReturnStmt, s St) {
					for k, v := range s.m {
						if strings.HasPrefix(k, "k:") && len(v) > res[k[2:]] {
							res[k[2:]] = len(v)
						}
					}
				},
			})
			x := NewExec(fn, base)
			x.Run(newSt())
			if x.Aborted != "" {
				R.Fail("R14f", c.Cfg+fn.Name+":explore", "", "exploration did not complete: "+x.Aborted)
			}
			memo[fn] = res
			return res
		}
		total := maxSends(fl)
		var names []string
		for o := range caps {
			names = append(names, o.Name())
		}
		sort.Strings(names)
		for o, k := range caps {
			sends := total[o.Name()]
			if sends == 0 {
				// only closed / received from
				R.OK("R14f", c.Cfg+key+":chan:"+o.Name(), c.P.Pos(o.Pos()), fmt.Sprintf("channel %s (capacity %d) is never sent to outside a select", o.Name(), k))
				continue
			}
			R.Check(int64(sends) <= k, "R14f", c.Cfg+key+":chan:"+o.Name(), c.P.Pos(o.Pos()), fmt.Sprintf("at most %d send(s) reach channel %s (capacity %d) along any path, so no sender blocks after the handler returned", sends, o.Name(), k),
				fmt.Sprintf("up to %d sends can reach channel %s along one path but its capacity is %d: a sender blocks for ever once the handler has returned (goroutine leak)", sends, o.Name(), k))
		}
	}
}

// ---------- R14g ----------

func noFatalOnRequestPaths(c *Ctx) {
	R := c.R
	R.Rule("R14g", "E4", "no process-terminating call (log.Fatal*, os.Exit, panic) is reachable from an HTTP/gRPC handler, an interceptor, a method of the cache or a background goroutine of the cache, through static calls and through callbacks (calls of function values, resolved to the function literals of the same package with that signature)", 30)
	var roots []*FuncInfo
	for _, fi := range c.P.AllFuncs() {
		switch {
		case strings.HasPrefix(fi.Key, "server.(*grpcServer)."), strings.HasPrefix(fi.Key, "server.(*httpCache)."), strings.HasPrefix(fi.Key, "server.(*GrpcBasicAuth)."),
			strings.HasPrefix(fi.Key, "server.GRPCmTLS"), strings.HasPrefix(fi.Key, "server.(*GrpcIdleTimer)"):
			roots = append(roots, fi)
		case strings.HasPrefix(fi.Key, "disk.(*diskCache).") || strings.HasPrefix(fi.Key, "disk.(*metricsDecorator)."):
			if ast.IsExported(fi.Obj.Name()) || fi.Obj.Name() == "containsWorker" {
				roots = append(roots, fi)
			}
		case strings.Contains(fi.Key, "ProxyCache).") || strings.HasPrefix(fi.Key, "s3proxy.(*s3Cache).") || strings.HasPrefix(fi.Key, "azblobproxy.(*azBlobCache)."):
			roots = append(roots, fi)
		}
	}
	// background goroutines of the cache run while requests are served: a
	// terminating call there is triggered by requests (evictions, backend checks)
	for _, fi := range c.P.FuncsInPkg("/cache/disk") {
		if strings.HasSuffix(c.P.Fset.Position(fi.Decl.Pos()).Filename, "_test.go") || fi.Decl.Body == nil {
			continue
		}
		ast.Inspect(fi.Decl.Body, func(n ast.Node) bool {
			if g, ok := n.(*ast.GoStmt); ok {
				if f := Callee(fi.Pkg.TypesInfo, g.Call); f != nil {
					if callee := c.P.FuncOf(f); callee != nil {
						roots = append(roots, callee)
					}
				}
			}
			return true
		})
	}
	// function literals of each package by signature, for calls through
	// function-typed fields and variables (resolved within the package)
	type litInfo struct {
		lit  *ast.FuncLit
		info *types.Info
		in   string
	}
	lits := map[string][]litInfo{}
	for _, fi := range c.P.AllFuncs() {
		if strings.HasSuffix(c.P.Fset.Position(fi.Decl.Pos()).Filename, "_test.go") || fi.Decl.Body == nil {
			continue
		}
		ast.Inspect(fi.Decl.Body, func(n ast.Node) bool {
			if l, ok := n.(*ast.FuncLit); ok {
				if t := fi.Pkg.TypesInfo.TypeOf(l); t != nil {
					k := fi.Pkg.PkgPath + "|" + t.String()
					lits[k] = append(lits[k], litInfo{l, fi.Pkg.TypesInfo, fi.Key})
				}
			}
			return true
		})
	}
	seenLit := map[*ast.FuncLit]bool{}
	seen := map[*FuncInfo]bool{}
	var visit func(fi *FuncInfo, path []string)
	var visitLit func(li litInfo, path []string)
	dynamic := func(pkgPath string, info *types.Info, call *ast.CallExpr, path []string) {
		if Callee(info, call) != nil {
			return
		}
		if tv, ok := info.Types[call.Fun]; !ok || tv.IsType() || tv.IsBuiltin() {
			return
		}
		t := info.TypeOf(call.Fun)
		if t == nil {
			return
		}
		if _, ok := t.Underlying().(*types.Signature); !ok {
			return
		}
		for _, li := range lits[pkgPath+"|"+t.Underlying().String()] {
			visitLit(li, path)
		}
	}
	visitLit = func(li litInfo, path []string) {
		if seenLit[li.lit] {
			return
		}
		seenLit[li.lit] = true
		name := "func literal in " + li.in
		path = append(path, name)
		bad := ""
		for _, call := range callsIn(li.lit.Body, true) {
			if noReturnCall(li.info, call) {
				bad = fmt.Sprintf("%s at %s", exprStr(call.Fun), c.P.Pos(call.Pos()))
			}
			if f := Callee(li.info, call); f != nil {
				if callee := c.P.FuncOf(f); callee != nil {
					visit(callee, path)
				}
			}
		}
		R.Check(bad == "", "R14g", fmt.Sprintf("%s%s:callback#%s", c.Cfg, li.in, c.P.Pos(li.lit.Pos())[strings.LastIndex(c.P.Pos(li.lit.Pos()), "/")+1:]), c.P.Pos(li.lit.Pos()), name+" (a callback reachable from a request entry point or a background goroutine of the cache) contains no process-terminating call",
			"a request can reach "+bad+" via "+strings.Join(path, " -> ")+": the whole server terminates")
	}
	visit = func(fi *FuncInfo, path []string) {
		if seen[fi] || strings.HasSuffix(c.P.Fset.Position(fi.Decl.Pos()).Filename, "_test.go") {
			return
		}
		seen[fi] = true
		path = append(path, fi.Key)
		bad := ""
		for _, call := range callsIn(fi.Decl.Body, true) {
			if noReturnCall(fi.Pkg.TypesInfo, call) {
				bad = fmt.Sprintf("%s at %s", exprStr(call.Fun), c.P.Pos(call.Pos()))
			}
			if f := Callee(fi.Pkg.TypesInfo, call); f != nil {
				if callee := c.P.FuncOf(f); callee != nil {
					visit(callee, path)
				}
			}
			dynamic(fi.Pkg.PkgPath, fi.Pkg.TypesInfo, call, path)
		}
		R.Check(bad == "", "R14g", c.Cfg+fi.Key, c.P.Pos(fi.Decl.Pos()), fi.Key+" (reachable from a request entry point) contains no process-terminating call",
			"a request can reach "+bad+" via "+strings.Join(path, " -> ")+": one request terminates the whole server")
	}
	for _, r := range roots {
		visit(r, nil)
	}
	R.Count("functions reachable from request entry points", len(seen))
}
