package main

// C13 continued: interceptors are installed (R13e), HTTP wrapper stacks
// (R13f), read/write split of the HTTP front end (R13g).

import (
	"fmt"
	"go/ast"
	"go/types"
	"strings"
)

func emptyStrAtom(s St, suffix string) string {
	// value of the atom  "" == <term ending in suffix>
	for k, v := range s.m {
		if strings.HasPrefix(k, `p:#""==`) && strings.HasSuffix(k, suffix) {
			return v
		}
	}
	return ""
}

func boolBySuffix(s St, suffix string) string {
	for k, v := range s.m {
		if strings.HasPrefix(k, "b:") && strings.HasSuffix(k, suffix) {
			return v
		}
	}
	return ""
}

func nilBySuffix(s St, suffix string) string {
	for k, v := range s.m {
		if strings.HasPrefix(k, "n:") && strings.HasSuffix(k, suffix) {
			return v
		}
	}
	return ""
}

// ---------- R13e ----------

func c13GrpcInstall(c *Ctx) {
	R := c.R
	R.Rule("R13e", "E2", "startGrpcServer: for every configuration valuation the unary and the stream interceptor chains handed to grpc.NewServer contain the mTLS (CA configured) resp. basic-auth (htpasswd) interceptor built with c.AllowUnauthenticatedReads, and the server passed to ListenAndServeGRPC is that server; run() derives htpasswdSecrets from HtpasswdFile; setTLSConfig yields a TLS config whenever a CA file is set", 6)
	fi := c.P.MustFunc(R, "R13e", "main.startGrpcServer")
	if fi == nil {
		return
	}
	nListen := 0
	var base *Base
	base = NewBase(Hooks{
		Assign: func(x *Exec, as *ast.AssignStmt, s St) []St {
			// xInterceptors = append(xInterceptors, <expr>)
			if len(as.Lhs) == 1 && len(as.Rhs) == 1 {
				call, ok := ast.Unparen(as.Rhs[0]).(*ast.CallExpr)
				if ok && fullCalleeName(x.Fn.Info, call) == "builtin.append" && len(call.Args) >= 2 {
					lt, _ := base.Term(x, as.Lhs[0], s)
					for _, a := range call.Args[1:] {
						tag, arg := classifyInterceptor(x, base, a, s)
						if tag != "" {
							s = s.Set("ic:"+lt+":"+tag, arg)
						}
						// opts = append(opts, grpc.ChainXInterceptor(list...))
						if ic, ok := ast.Unparen(a).(*ast.CallExpr); ok {
							switch fullCalleeName(x.Fn.Info, ic) {
							case "google.golang.org/grpc.ChainStreamInterceptor", "google.golang.org/grpc.ChainUnaryInterceptor":
								if len(ic.Args) == 1 {
									if st, ok := base.Term(x, ic.Args[0], s); ok {
										kind := "stream"
										if strings.Contains(fullCalleeName(x.Fn.Info, ic), "Unary") {
											kind = "unary"
										}
										s = s.Set("chain:"+lt+":"+kind, st)
									}
								}
							}
						}
					}
				}
				// gba := server.NewGrpcBasicAuth(secrets, allow)
				if ok && calleeKey(x.Fn.Info, call) == "server.NewGrpcBasicAuth" && len(call.Args) == 2 {
					if lt, ok := base.Term(x, as.Lhs[0], s); ok {
						a0, _ := base.Term(x, call.Args[0], s)
						a1, _ := base.Term(x, call.Args[1], s)
						s = s.Set("gba:"+lt, a0+"|"+a1)
					}
				}
				// *grpcServer = grpc.NewServer(opts...)
				if ok && fullCalleeName(x.Fn.Info, call) == "google.golang.org/grpc.NewServer" && len(call.Args) == 1 {
					if lt, ok := base.Term(x, as.Lhs[0], s); ok {
						ot, _ := base.Term(x, call.Args[0], s)
						s = s.Set("server:"+lt, ot)
					}
				}
			}
			return []St{s}
		},
		EveryCall: func(x *Exec, call *ast.CallExpr, s St) []St {
			if calleeKey(x.Fn.Info, call) != "server.ListenAndServeGRPC" {
				return []St{s}
			}
			nListen++
			srvT, _ := base.Term(x, call.Args[0], s)
			optsT := s.Get("server:" + srvT)
			ca := emptyStrAtom(s, ".TLSCaFile") == "F"
			tlsCfg := nilBySuffix(s, ".TLSConfig") == "nonnil"
			htp := nilBySuffix(s, "htpasswdSecrets@"+objPosSuffix(s, "htpasswdSecrets")) == "nonnil"
			var missing []string
			if optsT == "" {
				missing = append(missing, "the server passed to ListenAndServeGRPC was not created by grpc.NewServer(opts...) on this path")
			}
			for _, kind := range []string{"stream", "unary"} {
				list := s.Get("chain:" + optsT + ":" + kind)
				if list == "" {
					missing = append(missing, kind+" interceptor chain is not among the server options")
					continue
				}
				if ca && tlsCfg {
					arg := s.Get("ic:" + list + ":mtls-" + kind)
					if arg == "" {
						missing = append(missing, "mTLS "+kind+" interceptor not installed although a CA file is configured")
					} else if !strings.HasSuffix(arg, ".AllowUnauthenticatedReads") {
						missing = append(missing, "mTLS "+kind+" interceptor is not built with c.AllowUnauthenticatedReads but with "+arg)
					}
				}
				if htp {
					arg := s.Get("ic:" + list + ":basic-" + kind)
					if arg == "" {
						missing = append(missing, "basic-auth "+kind+" interceptor not installed although htpasswd secrets are configured")
					} else {
						parts := strings.SplitN(arg, "|", 2)
						if len(parts) != 2 || !strings.Contains(parts[0], "htpasswdSecrets") || !strings.HasSuffix(parts[1], ".AllowUnauthenticatedReads") {
							missing = append(missing, "basic-auth interceptor is not built from (htpasswdSecrets, c.AllowUnauthenticatedReads): "+arg)
						}
					}
				}
			}
			key := fmt.Sprintf("%smain.startGrpcServer:ListenAndServeGRPC:ca=%v,tls=%v,htpasswd=%v", c.Cfg, ca, tlsCfg, htp)
			R.Check(len(missing) == 0, "R13e", key, c.P.Pos(call.Pos()), "the auth interceptors required by this configuration valuation are installed in both chains of the server that is started",
				strings.Join(missing, "; "), x.Trace()...)
			return []St{s}
		},
	})
	x := NewExec(c.P.FlowOf(fi), base)
	x.Run(newSt())
	if x.Aborted != "" {
		R.Fail("R13e", c.Cfg+"main.startGrpcServer:explore", "", "exploration did not complete: "+x.Aborted)
	}
	R.Check(nListen > 0, "R13e", c.Cfg+"main.startGrpcServer:reaches-listen", "", "startGrpcServer reaches ListenAndServeGRPC", "no call to server.ListenAndServeGRPC found")
	R.Count("abstract states explored (startGrpcServer)", x.stats.States)

	// run(): htpasswdSecrets is non-nil whenever HtpasswdFile is set, and is what the servers get
	if fr := c.P.MustFunc(R, "R13e", "main.run"); fr != nil {
		var b2 *Base
		ok := true
		seen := 0
		b2 = NewBase(Hooks{
			Call: func(x *Exec, call *ast.CallExpr, lhs []ast.Expr, s St) ([]St, bool) {
				if fullCalleeName(x.Fn.Info, call) == "github.com/abbot/go-http-auth.HtpasswdFileProvider" && len(lhs) == 1 {
					if t, k := b2.Term(x, lhs[0], s); k {
						return []St{b2.Invalidate(s, t).Set("n:"+t, "nonnil")}, true
					}
				}
				if calleeKey(x.Fn.Info, call) == "config.Get" && len(lhs) == 2 {
					return b2.ForkErr(x, lhs, 1, s, nil, nil), true
				}
				return nil, false
			},
			Exit: func(x *Exec, ret *ast.ReturnStmt, s St) {
				if emptyStrAtom(s, ".HtpasswdFile") == "F" {
					seen++
					if nilBySuffix(s, "htpasswdSecrets@"+objPosSuffix(s, "htpasswdSecrets")) != "nonnil" {
						ok = false
					}
				}
			},
		})
		x2 := NewExec(c.P.FlowOf(fr), b2)
		x2.Run(newSt())
		R.Check(ok && seen > 0, "R13e", c.Cfg+"main.run:htpasswdSecrets", c.P.Pos(fr.Decl.Pos()), "htpasswdSecrets is set from HtpasswdFileProvider on every path where c.HtpasswdFile is non-empty",
			fmt.Sprintf("a path with HtpasswdFile set leaves htpasswdSecrets nil (basic auth silently off) or the test was not found (paths seen: %d)", seen))
		// both server start functions receive htpasswdSecrets
		n := 0
		for _, call := range callsIn(fr.Decl.Body, true) {
			k := calleeKey(fr.Pkg.TypesInfo, call)
			if k == "main.startHttpServer" || k == "main.startGrpcServer" {
				n++
				R.Check(len(call.Args) >= 3 && exprStr(call.Args[2]) == "htpasswdSecrets" && exprStr(call.Args[0]) == "c", "R13e", c.Cfg+"main.run:"+k+":args", c.P.Pos(call.Pos()),
					k+" is started with the validated config and htpasswdSecrets", "unexpected arguments: "+exprStr(call))
			}
		}
		R.Check(n == 2, "R13e", c.Cfg+"main.run:starts-both", "", "run starts the HTTP and the gRPC server", fmt.Sprintf("found %d start calls", n))
	}
	// setTLSConfig: CA file set => TLSConfig non-nil with a verifying client-auth mode
	if ft := c.P.MustFunc(R, "R13e", "config.(*Config).setTLSConfig"); ft != nil {
		var b3 *Base
		good, seen := true, 0
		b3 = NewBase(Hooks{Exit: func(x *Exec, ret *ast.ReturnStmt, s St) {
			if RetNil(x.Fn, s, 0) == "nonnil" {
				return
			}
			// the CA file is set on this path: len(f) != 0, len(f) > 0 or f != ""
			caSet := false
			if eq, known := relLookup(s, "#0", "==", "len($recv.TLSCaFile)"); known && !eq {
				caSet = true
			}
			if lt, known := relLookup(s, "#0", "<", "len($recv.TLSCaFile)"); known && lt {
				caSet = true
			}
			if eq, known := relLookup(s, `#""`, "==", "$recv.TLSCaFile"); known && !eq {
				caSet = true
			}
			if caSet {
				seen++
				if s.Get("n:$recv.TLSConfig") != "nonnil" {
					good = false
				}
			}
		}})
		b3.InlineOwnHelpers()
		x3 := NewExec(c.P.FlowOf(ft), b3)
		x3.Run(newSt())
		R.Check(good && seen > 0, "R13e", c.Cfg+"config.setTLSConfig:ca-implies-config", c.P.Pos(ft.Decl.Pos()), "with a CA file every successful return of setTLSConfig leaves c.TLSConfig non-nil",
			fmt.Sprintf("a successful path with a CA file leaves TLSConfig nil (paths seen %d)", seen))
		// ClientAuth must request and verify certificates
		found := false
		ast.Inspect(ft.Decl.Body, func(n ast.Node) bool {
			if kv, ok := n.(*ast.KeyValueExpr); ok {
				if id, ok := kv.Key.(*ast.Ident); ok && id.Name == "ClientAuth" {
					v := exprStr(kv.Value)
					found = v == "tls.VerifyClientCertIfGiven" || v == "tls.RequireAndVerifyClientCert"
					R.Check(found, "R13e", c.Cfg+"config.setTLSConfig:ClientAuth", c.P.Pos(kv.Pos()), "client certificates are verified against the CA (VerifyClientCertIfGiven / RequireAndVerifyClientCert)",
						"ClientAuth is "+v+": presented certificates are not verified, so VerifiedChains-based checks are meaningless or everything is rejected")
				}
				if id, ok := kv.Key.(*ast.Ident); ok && id.Name == "ClientCAs" {
					R.Check(exprStr(kv.Value) == "caCertPool", "R13e", c.Cfg+"config.setTLSConfig:ClientCAs", c.P.Pos(kv.Pos()), "ClientCAs is the pool loaded from tls_ca_file", "ClientCAs is "+exprStr(kv.Value))
				}
			}
			return true
		})
		if !found {
			R.Fail("R13e", c.Cfg+"config.setTLSConfig:ClientAuth", "", "no ClientAuth setting found in setTLSConfig")
		}
	}
}

func objPosSuffix(s St, name string) string {
	for k := range s.m {
		if i := strings.Index(k, name+"@"); i >= 0 {
			rest := k[i+len(name)+1:]
			j := 0
			for j < len(rest) && rest[j] >= '0' && rest[j] <= '9' {
				j++
			}
			return rest[:j]
		}
	}
	return "?"
}

func classifyInterceptor(x *Exec, b *Base, e ast.Expr, s St) (tag, arg string) {
	e = ast.Unparen(e)
	if call, ok := e.(*ast.CallExpr); ok {
		switch calleeKey(x.Fn.Info, call) {
		case "server.GRPCmTLSStreamServerInterceptor":
			a, _ := b.Term(x, call.Args[0], s)
			return "mtls-stream", a
		case "server.GRPCmTLSUnaryServerInterceptor":
			a, _ := b.Term(x, call.Args[0], s)
			return "mtls-unary", a
		}
		return "", ""
	}
	if sel, ok := e.(*ast.SelectorExpr); ok {
		if f, ok := x.Fn.Info.Uses[sel.Sel].(*types.Func); ok {
			switch funcKey(f) {
			case "server.(*GrpcBasicAuth).StreamServerInterceptor":
				if t, ok := b.Term(x, sel.X, s); ok {
					return "basic-stream", s.Get("gba:" + t)
				}
			case "server.(*GrpcBasicAuth).UnaryServerInterceptor":
				if t, ok := b.Term(x, sel.X, s); ok {
					return "basic-unary", s.Get("gba:" + t)
				}
			}
		}
	}
	return "", ""
}

// ---------- R13f ----------

type httpStacks struct {
	c    *Ctx
	base *Base
}

// stackOf evaluates the wrapper stack of a handler expression.
func (h *httpStacks) stackOf(x *Exec, e ast.Expr, s St) string {
	info := x.Fn.Info
	e = ast.Unparen(e)
	if t, ok := h.base.Term(x, e, s); ok {
		if v := s.Get("h:" + t); v != "" {
			return v
		}
	}
	switch e := e.(type) {
	case *ast.SelectorExpr:
		if e.Sel.Name == "ServeHTTP" {
			return h.stackOf(x, e.X, s)
		}
		if f, ok := info.Uses[e.Sel].(*types.Func); ok && (f.Name() == "CacheHandler" || f.Name() == "StatusPageHandler") {
			return "base:" + f.Name()
		}
	case *ast.CallExpr:
		name := fullCalleeName(info, e)
		key := calleeKey(info, e)
		switch {
		case key == "main.basicAuthWrapper":
			return h.stackOf(x, e.Args[0], s) + "|basic"
		case key == "main.ldapAuthWrapper":
			return h.stackOf(x, e.Args[0], s) + "|ldap"
		case key == "main.unauthenticatedReadWrapper":
			return h.stackOf(x, e.Args[0], s) + "|unauthread"
		case strings.HasSuffix(key, ".VerifyClientCertHandler"):
			return h.stackOf(x, e.Args[0], s) + "|mtls"
		case name == "github.com/slok/go-http-metrics/middleware/std.Handler" && len(e.Args) == 3:
			return h.stackOf(x, e.Args[2], s) + "|metrics"
		case name == "github.com/prometheus/client_golang/prometheus/promhttp.Handler":
			return "base:promhttp"
		}
		// conversions: http.HandlerFunc(x)
		if tv, ok := info.Types[e.Fun]; ok && tv.IsType() && len(e.Args) == 1 {
			return h.stackOf(x, e.Args[0], s)
		}
	case *ast.FuncLit:
		// a closure that forwards to a wrapped handler
		var inner string
		ast.Inspect(e.Body, func(n ast.Node) bool {
			if inner != "" {
				return false
			}
			if c, ok := n.(*ast.CallExpr); ok {
				// ch(w, r)  or  <handler expr>.ServeHTTP(w, r)
				if t, ok := h.base.Term(x, c.Fun, s); ok && s.Get("h:"+t) != "" {
					inner = s.Get("h:" + t)
					return false
				}
				if sel, ok := c.Fun.(*ast.SelectorExpr); ok && sel.Sel.Name == "ServeHTTP" {
					if st := h.stackOf(x, sel.X, s); !strings.HasPrefix(st, "?") {
						inner = st
						return false
					}
				}
			}
			return true
		})
		if inner != "" {
			return inner + "|closure"
		}
	}
	return "?" + exprStr(e)
}

func c13HTTPStacks(c *Ctx) {
	R := c.R
	R.Rule("R13f", "E2+E3", "startHttpServer: for every configuration valuation the handler registered for /, /status and /metrics carries the wrapper the valuation requires (basic auth, or the unauthenticated-read wrapper when allowed; mTLS verification for /status and /metrics); the client-cert flags given to NewHTTPCache have the truth tables writes=CA, reads=CA and not allow_unauthenticated_reads", 6)
	fi := c.P.MustFunc(R, "R13f", "main.startHttpServer")
	if fi == nil {
		return
	}
	h := &httpStacks{c: c}
	nreg := map[string]int{}
	h.base = NewBase(Hooks{
		Assign: func(x *Exec, as *ast.AssignStmt, s St) []St {
			if len(as.Lhs) != len(as.Rhs) {
				return []St{s}
			}
			for i, l := range as.Lhs {
				typ := x.Fn.Info.TypeOf(l)
				if typ == nil {
					continue
				}
				ts := typ.String()
				if !strings.Contains(ts, "http.Handler") && !strings.Contains(ts, "func(w net/http.ResponseWriter") && !strings.Contains(ts, "func(net/http.ResponseWriter") {
					continue
				}
				lt, ok := h.base.Term(x, l, s)
				if !ok {
					continue
				}
				// evaluate with the old binding still in place (x = wrap(x))
				st := h.stackOf(x, as.Rhs[i], s)
				s = s.Set("h:"+lt, st)
			}
			return []St{s}
		},
		EveryCall: func(x *Exec, call *ast.CallExpr, s St) []St {
			name := fullCalleeName(x.Fn.Info, call)
			if name == "net/http.(ServeMux).HandleFunc" || name == "net/http.(ServeMux).Handle" {
				pat, _ := constString(x.Fn.Info, call.Args[0])
				stack := h.stackOf(x, call.Args[1], s)
				htp := emptyStrAtom(s, ".HtpasswdFile") == "F"
				ca := emptyStrAtom(s, ".TLSCaFile") == "F"
				ldap := nilBySuffix(s, ".LDAP") == "nonnil"
				allow := boolBySuffix(s, ".AllowUnauthenticatedReads") == "true"
				allowKnownFalse := boolBySuffix(s, ".AllowUnauthenticatedReads") == "false"
				has := func(w string) bool { return strings.Contains(stack+"|", "|"+w+"|") }
				need := ""
				ok := true
				switch pat {
				case "/":
					if htp {
						if allow {
							ok = has("unauthread") || has("basic")
							need = "unauthenticatedReadWrapper or basicAuthWrapper"
						} else {
							ok = has("basic")
							need = "basicAuthWrapper"
						}
					} else if ldap && !ca {
						if allow {
							ok = has("unauthread") || has("ldap")
						} else {
							ok = has("ldap")
						}
						need = "ldapAuthWrapper"
					}
					ok = ok && strings.HasPrefix(stack, "base:CacheHandler")
				case "/status", "/metrics":
					if strings.HasPrefix(stack, "?") && pat == "/metrics" {
						// the "metrics disabled" stub serves a constant 404
						ok = true
						break
					}
					if !allow && allowKnownFalse {
						switch {
						case ca:
							ok, need = has("mtls"), "VerifyClientCertHandler"
						case htp:
							ok, need = has("basic"), "basicAuthWrapper"
						case ldap:
							ok, need = has("ldap"), "ldapAuthWrapper"
						}
					}
				default:
					return []St{s}
				}
				nreg[pat]++
				key := fmt.Sprintf("%smain.startHttpServer:%s:htpasswd=%v,ca=%v,ldap=%v,allowUnauth=%v", c.Cfg, pat, htp, ca, ldap, allow)
				R.Check(ok, "R13f", key, c.P.Pos(call.Pos()), fmt.Sprintf("the handler registered for %s carries the wrapper this valuation requires", pat),
					fmt.Sprintf("handler stack for %s is %q but this valuation requires %s", pat, stack, need), x.Trace()...)
			}
			return []St{s}
		},
	})
	x := NewExec(c.P.FlowOf(fi), h.base)
	x.Run(newSt())
	if x.Aborted != "" {
		R.Fail("R13f", c.Cfg+"main.startHttpServer:explore", "", "exploration did not complete: "+x.Aborted)
	}
	for _, p := range []string{"/", "/status", "/metrics"} {
		R.Check(nreg[p] > 0, "R13f", c.Cfg+"main.startHttpServer:registers:"+p, "", "startHttpServer registers a handler for "+p, "no registration found")
	}
	R.Count("abstract states explored (startHttpServer)", x.stats.States)

	// truth tables of the two client-cert flags
	var call *ast.CallExpr
	for _, cl := range callsIn(fi.Decl.Body, false) {
		if calleeKey(fi.Pkg.TypesInfo, cl) == "server.NewHTTPCache" {
			call = cl
		}
	}
	if call == nil || len(call.Args) < 7 {
		R.Fail("R13f", c.Cfg+"main.startHttpServer:NewHTTPCache", "", "call to server.NewHTTPCache not found")
		return
	}
	// parameter positions by name
	nh := c.P.Func("server.NewHTTPCache")
	ri, wi := -1, -1
	if nh != nil {
		i := 0
		for _, fld := range nh.Decl.Type.Params.List {
			for _, n := range fld.Names {
				if n.Name == "checkClientCertForReads" {
					ri = i
				}
				if n.Name == "checkClientCertForWrites" {
					wi = i
				}
				i++
			}
		}
	}
	if ri < 0 || wi < 0 {
		R.Fail("R13f", c.Cfg+"server.NewHTTPCache:params", "", "parameters checkClientCertForReads/Writes not found")
		return
	}
	// definitions of the argument variables
	defOf := func(e ast.Expr) ast.Expr {
		o := identObj(fi.Pkg.TypesInfo, e)
		var def ast.Expr
		ast.Inspect(fi.Decl.Body, func(n ast.Node) bool {
			if as, ok := n.(*ast.AssignStmt); ok && len(as.Lhs) == len(as.Rhs) {
				for i, l := range as.Lhs {
					if o != nil && identObj(fi.Pkg.TypesInfo, l) == o {
						def = as.Rhs[i]
					}
				}
			}
			return true
		})
		if def == nil {
			return e
		}
		return def
	}
	for _, tc := range []struct {
		name string
		idx  int
		want func(ca, allow bool) bool
	}{
		{"checkClientCertForReads", ri, func(ca, allow bool) bool { return ca && !allow }},
		{"checkClientCertForWrites", wi, func(ca, allow bool) bool { return ca }},
	} {
		e := defOf(call.Args[tc.idx])
		okAll := true
		detail := ""
		for _, ca := range []bool{false, true} {
			for _, allow := range []bool{false, true} {
				got, known := evalCfgBool(fi.Pkg.TypesInfo, e, ca, allow)
				if !known || got != tc.want(ca, allow) {
					okAll = false
					detail += fmt.Sprintf(" [ca=%v allow=%v -> %v (known=%v), want %v]", ca, allow, got, known, tc.want(ca, allow))
				}
			}
		}
		R.Check(okAll, "R13f", c.Cfg+"main.startHttpServer:NewHTTPCache:"+tc.name, c.P.Pos(call.Pos()), tc.name+" = "+exprStr(e)+" has the required truth table over (CA configured, allow_unauthenticated_reads)",
			"truth table differs:"+detail)
	}
	// the struct fields are fed from those parameters
	if nh != nil {
		for _, name := range []string{"checkClientCertForReads", "checkClientCertForWrites"} {
			ok := false
			ast.Inspect(nh.Decl.Body, func(n ast.Node) bool {
				if kv, ok2 := n.(*ast.KeyValueExpr); ok2 {
					if id, ok3 := kv.Key.(*ast.Ident); ok3 && id.Name == name && exprStr(kv.Value) == name {
						ok = true
					}
				}
				return true
			})
			R.Check(ok, "R13f", c.Cfg+"server.NewHTTPCache:field:"+name, c.P.Pos(nh.Decl.Pos()), "httpCache."+name+" is initialised from the parameter of the same name", "field not initialised from its parameter")
		}
	}
}

// evalCfgBool evaluates a boolean expression over c.TLSCaFile != "" and c.AllowUnauthenticatedReads.
func evalCfgBool(info *types.Info, e ast.Expr, ca, allow bool) (val, known bool) {
	e = ast.Unparen(e)
	switch e := e.(type) {
	case *ast.BinaryExpr:
		switch e.Op.String() {
		case "&&":
			a, k1 := evalCfgBool(info, e.X, ca, allow)
			b, k2 := evalCfgBool(info, e.Y, ca, allow)
			return a && b, k1 && k2
		case "||":
			a, k1 := evalCfgBool(info, e.X, ca, allow)
			b, k2 := evalCfgBool(info, e.Y, ca, allow)
			return a || b, k1 && k2
		case "!=", "==":
			x, y := exprStr(e.X), exprStr(e.Y)
			if y == `""` && strings.HasSuffix(x, ".TLSCaFile") {
				return (e.Op.String() == "!=") == ca, true
			}
		}
	case *ast.UnaryExpr:
		if e.Op.String() == "!" {
			v, k := evalCfgBool(info, e.X, ca, allow)
			return !v, k
		}
	case *ast.SelectorExpr:
		if strings.HasSuffix(exprStr(e), ".AllowUnauthenticatedReads") {
			return allow, true
		}
	case *ast.Ident:
		if tv, ok := info.Types[e]; ok && tv.Value != nil {
			return tv.Value.ExactString() == "true", true
		}
	}
	return false, false
}

// ---------- R13g ----------

func c13HTTPSplit(c *Ctx) {
	R := c.R
	R.Rule("R13g", "E2", "unauthenticatedReadWrapper forwards without credentials only GET and HEAD; in CacheHandler every Cache.Put is reached only for PUT and only behind the write certificate check, every read behind the read certificate check", 6)
	// unauthenticatedReadWrapper closure
	if fi := c.P.MustFunc(R, "R13g", "main.unauthenticatedReadWrapper"); fi != nil {
		var lit *ast.FuncLit
		ast.Inspect(fi.Decl.Body, func(n ast.Node) bool {
			if l, ok := n.(*ast.FuncLit); ok && lit == nil {
				lit = l
			}
			return true
		})
		if lit == nil {
			R.Fail("R13g", c.Cfg+"main.unauthenticatedReadWrapper:closure", "", "wrapper closure not found")
		} else {
			var base *Base
			n := 0
			base = NewBase(Hooks{
				Cond: func(x *Exec, cond ast.Expr, truth bool, s St) ([]St, bool) {
					be, ok := ast.Unparen(cond).(*ast.BinaryExpr)
					if ok && be.Op.String() == "!=" {
						if call, ok := ast.Unparen(be.X).(*ast.CallExpr); ok && strings.HasSuffix(fullCalleeName(x.Fn.Info, call), ".CheckAuth") {
							if v, ok := constString(x.Fn.Info, be.Y); ok && v == "" {
								if truth {
									return []St{s.Set("authed", "1")}, true
								}
								return []St{s}, true
							}
						}
					}
					return nil, false
				},
				EveryCall: func(x *Exec, call *ast.CallExpr, s St) []St {
					id, ok := call.Fun.(*ast.Ident)
					if !ok {
						return []St{s}
					}
					// the forwarded handler: a call through a variable of type http.HandlerFunc / func(w, r)
					if v, isVar := x.Fn.Info.Uses[id].(*types.Var); !isVar || !isHandlerFuncType(v.Type()) {
						return []St{s}
					}
					n++
					readOnly := false
					var methods []string
					for k, v := range s.m {
						if strings.HasPrefix(k, "p:#\"") && strings.Contains(k, "==") && strings.HasSuffix(k, ".Method") && v == "T" {
							m := k[4:strings.Index(k, "\"==")]
							methods = append(methods, m)
							if m == "GET" || m == "HEAD" {
								readOnly = true
							}
						}
					}
					okPath := s.Get("authed") == "1" || readOnly
					R.Check(okPath, "R13g", fmt.Sprintf("%smain.unauthenticatedReadWrapper:handler#%d", c.Cfg, callOrdinal(x, call)), c.P.Pos(call.Pos()),
						"the wrapped handler is reached without credentials only for GET and HEAD", fmt.Sprintf("path forwards methods %v without a passed CheckAuth", methods), x.Trace()...)
					return []St{s}
				},
			})
			x := NewExec(c.P.FlowOf(fi).Lit(lit), base)
			x.Run(newSt())
			R.Check(n >= 2, "R13g", c.Cfg+"main.unauthenticatedReadWrapper:forwards", "", "wrapper has the unauthenticated-read and the authenticated forwarding call", fmt.Sprintf("found %d forwarding calls", n))
		}
	}
	// CacheHandler
	fi := c.P.MustFunc(R, "R13g", "server.(*httpCache).CacheHandler")
	if fi == nil {
		return
	}
	var base *Base
	nPut, nRead := 0, 0
	// locals that hold the request method (m := r.Method), in the handler and its helpers
	methodTerms := map[string]bool{}
	for _, hf := range c.P.FuncsInPkg("/server") {
		hinfo := hf.Pkg.TypesInfo
		ast.Inspect(hf.Decl, func(n ast.Node) bool {
			if as, ok := n.(*ast.AssignStmt); ok && len(as.Lhs) == len(as.Rhs) {
				for i, r := range as.Rhs {
					if sel, ok := ast.Unparen(r).(*ast.SelectorExpr); ok && sel.Sel.Name == "Method" && strings.HasSuffix(hinfo.TypeOf(sel.X).String(), "net/http.Request") {
						if o := identObj(hinfo, as.Lhs[i]); o != nil {
							methodTerms[objID(o)] = true
						}
					}
				}
			}
			return true
		})
	}
	base = NewBase(Hooks{
		Cond: func(x *Exec, cond ast.Expr, truth bool, s St) ([]St, bool) {
			if call, ok := ast.Unparen(cond).(*ast.CallExpr); ok && calleeKey(x.Fn.Info, call) == "server.(*httpCache).hasValidClientCert" {
				if truth {
					return []St{s.Set("cert", "ok")}, true
				}
				return []St{s.Set("cert", "bad")}, true
			}
			return nil, false
		},
		EveryCall: func(x *Exec, call *ast.CallExpr, s St) []St {
			k := calleeKey(x.Fn.Info, call)
			if !strings.HasPrefix(k, "disk.(Cache).") {
				return []St{s}
			}
			op := strings.TrimPrefix(k, "disk.(Cache).")
			if op == "Stats" || op == "MaxSize" {
				return []St{s}
			}
			method := ""
			for kk, v := range s.m {
				if strings.HasPrefix(kk, "p:#\"") && strings.Contains(kk, "\"==") && v == "T" {
					rhs := kk[strings.Index(kk, "\"==")+3:]
					if methodTerms[rhs] || strings.HasSuffix(rhs, ".Method") {
						method = kk[4:strings.Index(kk, "\"==")]
					}
				}
			}
			site := fmt.Sprintf("%s%s:%s#%d", c.Cfg, rootName(x), op, callOrdinal(x, call))
			if op == "Put" {
				nPut++
				guard := boolBySuffix(s, "$recv.checkClientCertForWrites") == "false" || s.Get("cert") == "ok"
				R.Check(method == "PUT" && guard, "R13g", site, c.P.Pos(call.Pos()), "Cache.Put is reached only for method PUT and only with checkClientCertForWrites off or a valid client certificate",
					fmt.Sprintf("Put reachable with method=%q writesFlag=%s cert=%s", method, boolBySuffix(s, "$recv.checkClientCertForWrites"), s.Get("cert")), x.Trace()...)
			} else {
				nRead++
				guard := boolBySuffix(s, "$recv.checkClientCertForReads") == "false" || s.Get("cert") == "ok"
				R.Check((method == "GET" || method == "HEAD") && guard, "R13g", site, c.P.Pos(call.Pos()), "Cache."+op+" is reached only for GET/HEAD and only with checkClientCertForReads off or a valid client certificate",
					fmt.Sprintf("%s reachable with method=%q readsFlag=%s cert=%s", op, method, boolBySuffix(s, "$recv.checkClientCertForReads"), s.Get("cert")), x.Trace()...)
			}
			return []St{s}
		},
	})
	base.AutoInline = localHelpers(c.P, "/server", "server.(*httpCache).hasValidClientCert")
	x := NewExec(c.P.FlowOf(fi), base)
	x.Run(newSt())
	if x.Aborted != "" {
		R.Fail("R13g", c.Cfg+"server.CacheHandler:explore", "", "exploration did not complete: "+x.Aborted)
	}
	R.Check(nPut > 0 && nRead >= 3, "R13g", c.Cfg+"server.CacheHandler:sites", "", "CacheHandler's cache accesses were found", fmt.Sprintf("found %d Put and %d read sites", nPut, nRead))
	R.Count("abstract states explored (CacheHandler auth)", x.stats.States)
}

func rootName(x *Exec) string {
	y := x
	for y.Parent != nil {
		y = y.Parent
	}
	f := y.Fn
	for f.Outer != nil {
		f = f.Outer
	}
	return f.Name
}

// isHandlerFuncType: http.HandlerFunc, http.Handler's method value type or a
// plain func(http.ResponseWriter, *http.Request).
func isHandlerFuncType(t types.Type) bool {
	sig, ok := t.Underlying().(*types.Signature)
	if !ok || sig.Params().Len() != 2 || sig.Results().Len() != 0 {
		return false
	}
	return strings.HasSuffix(sig.Params().At(0).Type().String(), "net/http.ResponseWriter") && strings.HasSuffix(sig.Params().At(1).Type().String(), "net/http.Request")
}
