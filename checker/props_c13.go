package main

func init() {
	register(&PropCheck{ID: "C13", Explanation: "debug", Trusted: commonTrusted, Run: func(c *Ctx) {
		c13Inventory(c)
		c13Interceptors(c)
		c13GrpcInstall(c)
		c13HTTPStacks(c)
		c13HTTPSplit(c)
	}})
}
