package main

// Rules anchored in cache/disk/casblob and disk.writeAndCloseFile:
// verifier selection (R01c), hash covers what is stored (R01d),
// compare-before-finalise (R01e), finalise-last ordering (R08a), raw files
// (R08b), torn tables rejected (R08d), header-driven reader (R02d), header
// layout and writer/reader agreement (R20a, R20b, R20c).

import (
	"fmt"
	"go/ast"
	"go/token"
	"go/types"
	"strings"
)

// ---------- R01c / R08b : disk.writeAndCloseFile ----------

func writeFileRules(c *Ctx) {
	R := c.R
	R.Rule("R01c", "E2+E3", "verifier selection in writeAndCloseFile: every success return for a CAS blob passed casblob.WriteAndClose(hash, size) or the sha256verifier built from the same (hash, size) whose Close() error was checked; the arguments are the function's own parameters", 3)
	R.Rule("R08b", "E2", "raw files: the byte count check, f.Sync() and the verifier/file Close() are all error-checked before writeAndCloseFile returns success", 1)
	fi := c.P.MustFunc(R, "R01c", kWriteFile)
	if fi == nil {
		return
	}
	fl := c.P.FlowOf(fi)
	pIdx := map[string]int{}
	i := 0
	for _, fld := range fi.Decl.Type.Params.List {
		for _, n := range fld.Names {
			pIdx[n.Name] = i
			i++
		}
	}
	hashT, sizeT, fT, rT := paramTerm(fl, pIdx["hash"]), paramTerm(fl, pIdx["size"]), paramTerm(fl, pIdx["f"]), paramTerm(fl, pIdx["r"])
	kindT := paramTerm(fl, pIdx["kind"])
	// the stream that is hashed and stored is the caller's reader itself: the reader parameter is
	// never replaced (a wrapper such as io.LimitReader would hide trailing or missing bytes from
	// the verifier and from the byte count)
	if rp := readerParam(fl); rp != nil {
		reassigned := ""
		ast.Inspect(fi.Decl.Body, func(n ast.Node) bool {
			if as, ok := n.(*ast.AssignStmt); ok {
				for _, lhs := range as.Lhs {
					if identObj(fi.Pkg.TypesInfo, lhs) == rp {
						reassigned = c.P.Pos(as.Pos()) + ": " + exprStr(as.Lhs[0]) + " " + as.Tok.String() + " ..."
					}
				}
			}
			return true
		})
		rT = objID(rp)
		R.Check(reassigned == "", "R01c", c.Cfg+kWriteFile+":reader-unchanged", c.P.Pos(fi.Decl.Pos()),
			"the reader that is verified and stored is the function's own reader parameter, never a replacement or wrapper",
			"the reader parameter is reassigned before it is consumed ("+reassigned+"): the verifier no longer sees the whole upload")
	} else {
		R.Fail("R01c", c.Cfg+kWriteFile+":reader-unchanged", c.P.Pos(fi.Decl.Pos()), "writeAndCloseFile has no io.Reader parameter: unrecognised construct")
	}
	var base *Base
	nsucc := 0
	base = NewBase(Hooks{
		Call: func(x *Exec, call *ast.CallExpr, lhs []ast.Expr, s St) ([]St, bool) {
			info := x.Fn.Info
			argT := func(i int) string {
				if i < len(call.Args) {
					t, _ := base.Term(x, call.Args[i], s)
					return t
				}
				return ""
			}
			switch calleeKey(info, call) {
			case "casblob.WriteAndClose":
				good := len(call.Args) == 6 && argT(1) == rT && argT(2) == fT && argT(4) == hashT && argT(5) == sizeT
				R.Check(good, "R01c", c.Cfg+kWriteFile+":WriteAndClose:args", c.P.Pos(call.Pos()), "casblob.WriteAndClose receives the function's own (r, f, hash, size)", "WriteAndClose is called with other values than the parameters r, f, hash, size: "+exprStr(call))
				return base.ForkErr(x, lhs, 1, s, func(ok St) St {
					if good {
						return ok.Set("wac", "ok")
					}
					return ok
				}, nil), true
			case "sha256verifier.New":
				good := len(call.Args) == 3 && argT(0) == hashT && argT(1) == sizeT && argT(2) == fT
				R.Check(good, "R01c", c.Cfg+kWriteFile+":sha256verifier.New:args", c.P.Pos(call.Pos()), "the sha256 verifier is built from the function's own (hash, size, f)", "sha256verifier.New is called with other values than the parameters: "+exprStr(call))
				st := s
				for _, l := range lhs {
					st = base.AssignValue(x, l, nil, st)
				}
				if len(lhs) == 1 && good {
					if t, ok := base.LTerm(x, lhs[0], st); ok {
						st = st.Set("v:"+t, "verifier").Set("n:"+t, "nonnil")
					}
				}
				return []St{st}, true
			case "io.Copy":
				if len(call.Args) == 2 && argT(1) == rT {
					dst := argT(0)
					return base.ForkErr(x, lhs, 1, s, func(ok St) St {
						st := ok.Set("copied", "into:"+s.Get("v:"+dst))
						if len(lhs) == 2 {
							if t, k := base.LTerm(x, lhs[0], ok); k {
								st = st.Set("copycount", t)
							}
						}
						return st
					}, nil), true
				}
			}
			full := fullCalleeName(info, call)
			if full == "os.(File).Sync" {
				return base.ForkErr(x, lhs, 0, s, func(ok St) St { return ok.Set("synced", "1") }, nil), true
			}
			if sel, ok := call.Fun.(*ast.SelectorExpr); ok && sel.Sel.Name == "Close" && len(lhs) == 1 && !x.InDefer {
				t, _ := base.Term(x, sel.X, s)
				return base.ForkErr(x, lhs, 0, s, func(ok St) St { return ok.Set("closedok", "via:"+s.Get("v:"+t)) }, nil), true
			}
			return nil, false
		},
		Assign: func(x *Exec, as *ast.AssignStmt, s St) []St {
			// var writeCloser io.WriteCloser = f
			if len(as.Lhs) == 1 && len(as.Rhs) == 1 {
				if rt, ok := base.Term(x, as.Rhs[0], s); ok && rt == fT {
					if lt, ok := base.LTerm(x, as.Lhs[0], s); ok {
						s = s.Set("v:"+lt, "file")
					}
				}
			}
			return []St{s}
		},
		Exit: func(x *Exec, ret *ast.ReturnStmt, s St) {
			if RetNil(x.Fn, s, 1) == "nonnil" {
				return
			}
			nsucc++
			key := "end"
			if ret != nil {
				key = fmt.Sprintf("return#%d", returnOrdinal(x.Fn, ret))
			}
			isCAS, known := relLookup(s, "#1", "==", kindT)
			sizeOK := false
			if ct := s.Get("copycount"); ct != "" {
				sizeOK = s.Get("p:disk.isSizeMismatch("+ct+","+sizeT+")") == "F"
			}
			raw := s.Get("copied") != "" && sizeOK && s.Get("synced") == "1" && s.Get("closedok") != ""
			site := c.Cfg + kWriteFile + ":" + key
			if s.Get("wac") == "ok" {
				R.Check(known && isCAS, "R01c", site+":verified", c.P.Pos(posOf(x, ret)), "the compressed path (casblob.WriteAndClose verified hash and size) is taken only for CAS blobs", "WriteAndClose path reachable for a non-CAS kind", x.Trace()...)
				return
			}
			if known && isCAS {
				ver := s.Get("copied") == "into:verifier" && s.Get("closedok") == "via:verifier"
				R.Check(ver && raw, "R01c", site+":verified", c.P.Pos(posOf(x, ret)), "an uncompressed CAS blob is copied through the sha256 verifier and the verifier's Close() result (size and hash comparison) is checked before success is returned",
					fmt.Sprintf("success return for a CAS blob without the verifier: copied=%s closed=%s sizeChecked=%v synced=%s", s.Get("copied"), s.Get("closedok"), sizeOK, s.Get("synced")), x.Trace()...)
			} else if !known {
				R.Fail("R01c", site+":verified", c.P.Pos(posOf(x, ret)), "success return on a path where the kind was never tested: unrecognised construct", x.Trace()...)
			}
			if !(known && isCAS && s.Get("wac") == "ok") {
				R.Check(raw, "R08b", site+":durable", c.P.Pos(posOf(x, ret)), "the byte count was compared with the declared size, f.Sync() and Close() succeeded before success is returned",
					fmt.Sprintf("copied=%s sizeChecked=%v synced=%s closed=%s", s.Get("copied"), sizeOK, s.Get("synced"), s.Get("closedok")), x.Trace()...)
			}
		},
	})
	x := NewExec(fl, base)
	x.Run(newSt())
	if x.Aborted != "" {
		R.Fail("R01c", c.Cfg+kWriteFile+":explore", "", "exploration did not complete: "+x.Aborted)
	}
	R.Check(nsucc >= 2, "R01c", c.Cfg+kWriteFile+":success-returns", "", "writeAndCloseFile has success returns for the compressed and the raw path", fmt.Sprintf("found %d", nsucc))
}

func posOf(x *Exec, ret *ast.ReturnStmt) token.Pos {
	if ret != nil {
		return ret.Pos()
	}
	return x.Fn.Body.Rbrace
}

// ---------- R01d / R01e / R08a : casblob.WriteAndClose ----------

func writeAndCloseRules(c *Ctx) {
	R := c.R
	R.Rule("R01d", "E3", "the hash covers what is stored: in the chunk loop the slice read (error-checked io.ReadFull), the slice hashed and the slice compressed are the same expression, and the only file write in the loop writes the compressor's output", 4)
	R.Rule("R01e", "E2", "compare-before-finalise: every success return of WriteAndClose is preceded by the trailing-data probe (only io.EOF accepted), the comparison of the computed SHA-256 with the hash parameter and, for identity, the length comparison; likewise sha256verifier.Close", 5)
	R.Rule("R08a", "E2", "finalise-last ordering: the chunk table is written at chunkTableOffset only after all chunks, the trailing probe and the hash comparison; it is followed by error-checked f.Sync() and f.Close(); the header written first carries only chunkOffsets[0]", 3)
	fi := c.P.MustFunc(R, "R01e", "casblob.WriteAndClose")
	if fi == nil {
		return
	}
	info := fi.Pkg.TypesInfo
	fl := c.P.FlowOf(fi)
	pIdx := map[string]int{}
	i := 0
	for _, fld := range fi.Decl.Type.Params.List {
		for _, n := range fld.Names {
			pIdx[n.Name] = i
			i++
		}
	}
	hashT, sizeT, rT := paramTerm(fl, pIdx["hash"]), paramTerm(fl, pIdx["size"]), paramTerm(fl, pIdx["r"])

	// R01d: the chunk loop
	var loop *ast.ForStmt
	ast.Inspect(fi.Decl.Body, func(n ast.Node) bool {
		if f, ok := n.(*ast.ForStmt); ok && loop == nil {
			for _, call := range callsIn(f.Body, false) {
				if strings.HasSuffix(fullCalleeName(info, call), ".EncodeAll") {
					loop = f
				}
			}
		}
		return true
	})
	if loop == nil {
		R.Fail("R01d", c.Cfg+"casblob.WriteAndClose:chunk-loop", "", "the chunk loop (with EncodeAll) was not found")
	} else {
		var readArg, encArg, hashArg, writeArg, encRes string
		readChecked := false
		for _, st := range loop.Body.List {
			as, isAs := st.(*ast.AssignStmt)
			var call *ast.CallExpr
			if isAs && len(as.Rhs) == 1 {
				call, _ = as.Rhs[0].(*ast.CallExpr)
			} else if es, ok := st.(*ast.ExprStmt); ok {
				call, _ = es.X.(*ast.CallExpr)
			}
			if call == nil {
				continue
			}
			name := fullCalleeName(info, call)
			switch {
			case name == "io.ReadFull" && len(call.Args) == 2:
				if t, ok := NewBase(Hooks{}).Term(&Exec{Fn: fl}, call.Args[0], newSt()); ok && t == rT {
					readArg = exprStr(call.Args[1])
				}
			case strings.HasSuffix(name, ".EncodeAll") && len(call.Args) == 2:
				encArg = exprStr(call.Args[0])
				if isAs {
					encRes = exprStr(as.Lhs[0])
				}
			case name == "hash.(Hash).Write" || name == "io.(Writer).Write" && strings.Contains(exprStr(call.Fun), "hasher"):
				hashArg = exprStr(call.Args[0])
			case name == "os.(File).Write" && len(call.Args) == 1:
				writeArg = exprStr(call.Args[0])
			}
		}
		// the ReadFull error is checked right after
		for i, st := range loop.Body.List {
			if as, ok := st.(*ast.AssignStmt); ok && len(as.Rhs) == 1 {
				if call, ok := as.Rhs[0].(*ast.CallExpr); ok && fullCalleeName(info, call) == "io.ReadFull" && i+1 < len(loop.Body.List) {
					if is, ok := loop.Body.List[i+1].(*ast.IfStmt); ok && exprStr(is.Cond) == "err != nil" {
						if _, isRet := is.Body.List[len(is.Body.List)-1].(*ast.ReturnStmt); isRet {
							readChecked = true
						}
					}
				}
			}
		}
		R.Check(readArg != "" && readChecked, "R01d", c.Cfg+"casblob.WriteAndClose:loop:read-checked", c.P.Pos(loop.Pos()), "each chunk is read with io.ReadFull(r, chunk) and its error returned", "the chunk read is missing or its error is not returned")
		R.Check(readArg != "" && readArg == hashArg, "R01d", c.Cfg+"casblob.WriteAndClose:loop:hashed=read", c.P.Pos(loop.Pos()), "the bytes hashed are the bytes read ("+readArg+")", "hashed "+hashArg+" but read "+readArg)
		R.Check(readArg != "" && readArg == encArg, "R01d", c.Cfg+"casblob.WriteAndClose:loop:compressed=read", c.P.Pos(loop.Pos()), "the bytes compressed are the bytes read ("+readArg+")", "compressed "+encArg+" but read "+readArg)
		R.Check(encRes != "" && writeArg == encRes, "R01d", c.Cfg+"casblob.WriteAndClose:loop:written=compressed", c.P.Pos(loop.Pos()), "the bytes written to the file are the compressor's output", "file write argument is "+writeArg+", compressor output is "+encRes)
		// chunkOffsets[i] is recorded before the chunk is written (R20c)
	}

	// R08a: only index 0 is stored before h.write(f)
	{
		var hw *ast.CallExpr
		for _, call := range callsIn(fi.Decl.Body, false) {
			if calleeKey(info, call) == "casblob.(*header).write" {
				hw = call
			}
		}
		ok := hw != nil
		if hw != nil {
			ast.Inspect(fi.Decl.Body, func(n ast.Node) bool {
				as, isAs := n.(*ast.AssignStmt)
				if !isAs || as.Pos() > hw.Pos() {
					return true
				}
				for _, l := range as.Lhs {
					if ix, k := l.(*ast.IndexExpr); k && strings.HasSuffix(exprStr(ix.X), ".chunkOffsets") {
						if v, isC := constInt(info, ix.Index); !isC || v != 0 {
							ok = false
						}
					}
				}
				return true
			})
			// the offsets slice is freshly made (all zero)
			made := false
			ast.Inspect(fi.Decl.Body, func(n ast.Node) bool {
				if kv, k := n.(*ast.KeyValueExpr); k && exprStr(kv.Key) == "chunkOffsets" {
					if call, k := kv.Value.(*ast.CallExpr); k && fullCalleeName(info, call) == "builtin.make" {
						made = true
					}
				}
				return true
			})
			ok = ok && made
		}
		R.Check(ok, "R08a", c.Cfg+"casblob.WriteAndClose:header-first-zero-table", c.P.Pos(fi.Decl.Pos()), "the header written first has a freshly made chunk table with only entry 0 set (a torn file has a non-increasing table)", "the chunk table is pre-filled before the header is first written, or the initial header write was not found")
	}

	var base *Base
	nsucc := 0
	base = NewBase(Hooks{
		Call: func(x *Exec, call *ast.CallExpr, lhs []ast.Expr, s St) ([]St, bool) {
			full := fullCalleeName(info, call)
			switch {
			case full == "io.ReadFull" && len(call.Args) == 2 && s.Get("inloop") == "" && len(lhs) == 2:
				// a read after the loop: the trailing-data probe
				if t, ok := base.Term(x, call.Args[0], s); ok && t == rT && s.Get("loopdone") == "1" {
					st := s
					for _, l := range lhs {
						st = base.AssignValue(x, l, nil, st)
					}
					if et, ok := base.LTerm(x, lhs[1], st); ok {
						st = st.Set("probe", et)
					}
					return []St{st}, true
				}
			case full == "os.(File).Seek" && len(call.Args) == 2:
				at, _ := base.Term(x, call.Args[0], s)
				return base.ForkErr(x, lhs, 1, s, func(ok St) St { return ok.Set("seek", at) }, nil), true
			case full == "encoding/binary.Write" && len(call.Args) == 3 && strings.HasSuffix(exprStr(call.Args[2]), ".chunkOffsets"):
				site := c.Cfg + "casblob.WriteAndClose:table-write"
				R.Check(s.Get("seek") == "#29" && s.Get("hashok") == "1" && s.Get("probeok") == "1" && s.Get("loopdone") == "1", "R08a", site+":after-verify", c.P.Pos(call.Pos()),
					"the chunk table is written at chunkTableOffset only after the chunk loop, the trailing probe and the hash comparison",
					fmt.Sprintf("table written with seek=%s loopdone=%s probe=%s hash=%s", s.Get("seek"), s.Get("loopdone"), s.Get("probeok"), s.Get("hashok")), x.Trace()...)
				return base.ForkErr(x, lhs, 0, s, func(ok St) St { return ok.Set("table", "1") }, nil), true
			case full == "os.(File).Sync":
				return base.ForkErr(x, lhs, 0, s, func(ok St) St {
					if ok.Get("table") == "1" {
						return ok.Set("synced", "1")
					}
					return ok.Set("synced", "early")
				}, nil), true
			case full == "os.(File).Close" && len(lhs) == 1 && !x.InDefer:
				return base.ForkErr(x, lhs, 0, s, func(ok St) St {
					if ok.Get("synced") == "1" {
						return ok.Set("closed", "1")
					}
					return ok.Set("closed", "unsynced")
				}, nil), true
			case full == "io.Copy" && len(call.Args) == 2 && len(lhs) == 2:
				if t, ok := base.Term(x, call.Args[1], s); ok && t == rT {
					return base.ForkErr(x, lhs, 1, s, func(ok St) St {
						if nt, k := base.LTerm(x, lhs[0], ok); k {
							return ok.Set("idcopy", nt)
						}
						return ok
					}, nil), true
				}
			}
			return nil, false
		},
		Assign: func(x *Exec, as *ast.AssignStmt, s St) []St {
			// actualHash := hex.EncodeToString(hasher.Sum(nil))
			if len(as.Lhs) == 1 && len(as.Rhs) == 1 {
				if call, ok := as.Rhs[0].(*ast.CallExpr); ok && fullCalleeName(info, call) == "encoding/hex.EncodeToString" && len(call.Args) == 1 {
					if inner, ok := call.Args[0].(*ast.CallExpr); ok && strings.HasSuffix(fullCalleeName(info, inner), ".Sum") {
						if t, ok := base.LTerm(x, as.Lhs[0], s); ok {
							s = s.Set("v:"+t, "computed-hash")
						}
					}
				}
			}
			return []St{s}
		},
		Cond: func(x *Exec, cond ast.Expr, truth bool, s St) ([]St, bool) {
			if cond == loop.Cond {
				outs := base.refineNoHook(x, cond, truth, s)
				for i := range outs {
					if truth {
						outs[i] = outs[i].Set("loopdone", "")
					} else {
						outs[i] = outs[i].Set("loopdone", "1")
					}
				}
				return outs, true
			}
			be, ok := ast.Unparen(cond).(*ast.BinaryExpr)
			if !ok {
				return nil, false
			}
			// actualHash != hash
			if be.Op == token.NEQ || be.Op == token.EQL {
				lt, ok1 := base.Term(x, be.X, s)
				rt, ok2 := base.Term(x, be.Y, s)
				if ok1 && ok2 {
					comp := ""
					if s.Get("v:"+lt) == "computed-hash" && rt == hashT {
						comp = lt
					}
					if s.Get("v:"+rt) == "computed-hash" && lt == hashT {
						comp = rt
					}
					if comp != "" {
						outs := base.refineNoHook(x, cond, truth, s)
						equal := (be.Op == token.EQL) == truth
						if equal {
							for i := range outs {
								outs[i] = outs[i].Set("hashok", "1")
							}
						}
						return outs, true
					}
					// err == nil / err != io.EOF on the probe's error variable
					if p := s.Get("probe"); p != "" && (lt == p || rt == p) {
						outs := base.refineNoHook(x, cond, truth, s)
						for i := range outs {
							// probe accepted iff err is known to equal io.EOF
							a, b := "g:io.EOF", p
							if a > b {
								a, b = b, a
							}
							if eq, known := relLookup(outs[i], a, "==", b); known && eq {
								outs[i] = outs[i].Set("probeok", "1")
							}
						}
						return outs, true
					}
					// n != size (identity)
					if ic := s.Get("idcopy"); ic != "" && ((lt == ic && rt == sizeT) || (rt == ic && lt == sizeT)) {
						outs := base.refineNoHook(x, cond, truth, s)
						equal := (be.Op == token.EQL) == truth
						if equal {
							for i := range outs {
								outs[i] = outs[i].Set("lenok", "1")
							}
						}
						return outs, true
					}
				}
			}
			return nil, false
		},
		Exit: func(x *Exec, ret *ast.ReturnStmt, s St) {
			if RetNil(x.Fn, s, 1) == "nonnil" {
				return
			}
			nsucc++
			key := "end"
			if ret != nil {
				key = fmt.Sprintf("return#%d", returnOrdinal(x.Fn, ret))
			}
			site := c.Cfg + "casblob.WriteAndClose:" + key
			if s.Get("idcopy") != "" {
				R.Check(s.Get("hashok") == "1" && s.Get("lenok") == "1", "R01e", site+":identity-verified", c.P.Pos(posOf(x, ret)), "identity mode: the byte count equals size and the computed hash equals the hash parameter before success",
					fmt.Sprintf("hash compared=%s length compared=%s", s.Get("hashok"), s.Get("lenok")), x.Trace()...)
				return
			}
			R.Check(s.Get("hashok") == "1" && s.Get("probeok") == "1" && s.Get("loopdone") == "1", "R01e", site+":verified", c.P.Pos(posOf(x, ret)),
				"success only after all chunks were read, the trailing-data probe returned io.EOF and the computed hash equals the hash parameter",
				fmt.Sprintf("loopdone=%s probe=%s hash=%s", s.Get("loopdone"), s.Get("probeok"), s.Get("hashok")), x.Trace()...)
			R.Check(s.Get("table") == "1" && s.Get("synced") == "1" && s.Get("closed") == "1", "R08a", site+":durable", c.P.Pos(posOf(x, ret)),
				"success only after the finalised table was written, then f.Sync() succeeded, then f.Close() succeeded",
				fmt.Sprintf("table=%s synced=%s closed=%s", s.Get("table"), s.Get("synced"), s.Get("closed")), x.Trace()...)
		},
	})
	if loop != nil {
		// plain helper functions split off WriteAndClose are interpreted in place (the header's own
		// methods are modelled by the hooks)
		base.AutoInline = func(h *FuncInfo) bool {
			return h.Pkg == fi.Pkg && h.Decl.Recv == nil && !ast.IsExported(h.Decl.Name.Name)
		}
		x := NewExec(fl, base)
		x.Run(newSt())
		if x.Aborted != "" {
			R.Fail("R01e", c.Cfg+"casblob.WriteAndClose:explore", "", "exploration did not complete: "+x.Aborted)
		}
		R.Check(nsucc >= 2, "R01e", c.Cfg+"casblob.WriteAndClose:success-returns", "", "WriteAndClose has a success return for identity and for zstd", fmt.Sprintf("found %d", nsucc))
		R.Count("abstract states explored (WriteAndClose)", x.stats.States)
	}

	// sha256verifier: Write counts what the MultiWriter took; Close compares size then hash before closing.
	// The struct's fields are found by role from the constructor's literal: the field initialised from
	// the string parameter is the expected hash, from the int64 parameter the expected size, from the
	// WriteCloser parameter the file, from io.MultiWriter(...) the fan-out writer; the other int64
	// field counts the bytes written.
	roles := map[string]*types.Var{}
	var newFn *FuncInfo
	if fn := c.P.MustFunc(R, "R01e", "sha256verifier.New"); fn != nil {
		newFn = fn
		ninfo := fn.Pkg.TypesInfo
		var hashLocal types.Object
		ast.Inspect(fn.Decl.Body, func(m ast.Node) bool {
			if as, ok := m.(*ast.AssignStmt); ok && len(as.Lhs) == 1 && len(as.Rhs) == 1 {
				if call, ok := as.Rhs[0].(*ast.CallExpr); ok && fullCalleeName(ninfo, call) == "crypto/sha256.New" {
					hashLocal = identObj(ninfo, as.Lhs[0])
				}
			}
			return true
		})
		mwOK := false
		ast.Inspect(fn.Decl.Body, func(m ast.Node) bool {
			cl, ok := m.(*ast.CompositeLit)
			if !ok {
				return true
			}
			st, ok := ninfo.TypeOf(cl).Underlying().(*types.Struct)
			if !ok {
				return true
			}
			field := func(name string) *types.Var {
				for i := 0; i < st.NumFields(); i++ {
					if st.Field(i).Name() == name {
						return st.Field(i)
					}
				}
				return nil
			}
			for _, el := range cl.Elts {
				kv, ok := el.(*ast.KeyValueExpr)
				if !ok {
					continue
				}
				f := field(exprStr(kv.Key))
				if f == nil {
					continue
				}
				if o := identObj(ninfo, kv.Value); o != nil {
					switch o {
					case paramObj(fn, 0):
						roles["expectedHash"] = f
					case paramObj(fn, 1):
						roles["expectedSize"] = f
					case paramObj(fn, 2):
						roles["file"] = f
					}
				}
				if call, ok := ast.Unparen(kv.Value).(*ast.CallExpr); ok && fullCalleeName(ninfo, call) == "io.MultiWriter" && len(call.Args) == 2 {
					roles["multiWriter"] = f
					a0, a1 := identObj(ninfo, call.Args[0]), identObj(ninfo, call.Args[1])
					isHash := func(o types.Object) bool { return o != nil && (o == hashLocal) }
					isFile := func(o types.Object) bool { return o != nil && o == paramObj(fn, 2) }
					mwOK = (isHash(a0) && isFile(a1)) || (isHash(a1) && isFile(a0))
				}
			}
			for i := 0; i < st.NumFields(); i++ {
				f := st.Field(i)
				if f.Type().String() == "int64" && f != roles["expectedSize"] {
					roles["actualSize"] = f
				}
			}
			return true
		})
		R.Check(mwOK, "R01e", c.Cfg+"sha256verifier.New:multiwriter", c.P.Pos(fn.Decl.Pos()), "every byte written goes to both the hash and the file", "the verifier's writer does not feed both the hash and the file")
	}
	isRole := func(info *types.Info, e ast.Expr, role string) bool {
		sel, ok := ast.Unparen(e).(*ast.SelectorExpr)
		if !ok || roles[role] == nil {
			return false
		}
		if s := info.Selections[sel]; s != nil {
			return s.Obj() == roles[role]
		}
		return false
	}
	if fv := c.P.MustFunc(R, "R01e", "sha256verifier.(*sha256verifier).Close"); fv != nil && newFn != nil {
		vinfo := fv.Pkg.TypesInfo
		// the local that holds hex(Sum(nil)) of the running hash
		var hashLocal types.Object
		ast.Inspect(fv.Decl.Body, func(m ast.Node) bool {
			if as, ok := m.(*ast.AssignStmt); ok && len(as.Lhs) == 1 && len(as.Rhs) == 1 {
				if call, ok := as.Rhs[0].(*ast.CallExpr); ok && fullCalleeName(vinfo, call) == "encoding/hex.EncodeToString" && len(call.Args) == 1 {
					if inner, ok := ast.Unparen(call.Args[0]).(*ast.CallExpr); ok {
						if sel, ok := inner.Fun.(*ast.SelectorExpr); ok && sel.Sel.Name == "Sum" {
							hashLocal = identObj(vinfo, as.Lhs[0])
						}
					}
				}
			}
			return true
		})
		isActualHash := func(e ast.Expr) bool {
			if o := identObj(vinfo, e); o != nil && o == hashLocal {
				return true
			}
			// hex.EncodeToString(s.Sum(nil)) compared directly
			if call, ok := ast.Unparen(e).(*ast.CallExpr); ok && fullCalleeName(vinfo, call) == "encoding/hex.EncodeToString" && len(call.Args) == 1 {
				if inner, ok := ast.Unparen(call.Args[0]).(*ast.CallExpr); ok {
					if sel, ok := inner.Fun.(*ast.SelectorExpr); ok && sel.Sel.Name == "Sum" {
						return true
					}
				}
			}
			return false
		}
		var b2 *Base
		n := 0
		b2 = NewBase(Hooks{
			Cond: func(x *Exec, cond ast.Expr, truth bool, s St) ([]St, bool) {
				be, ok := ast.Unparen(cond).(*ast.BinaryExpr)
				if !ok || (be.Op != token.NEQ && be.Op != token.EQL) {
					return nil, false
				}
				equal := (be.Op == token.EQL) == truth
				outs := b2.refineNoHook(x, cond, truth, s)
				if equal {
					for i := range outs {
						if (isRole(vinfo, be.X, "actualSize") && isRole(vinfo, be.Y, "expectedSize")) || (isRole(vinfo, be.Y, "actualSize") && isRole(vinfo, be.X, "expectedSize")) {
							outs[i] = outs[i].Set("sizeok", "1")
						}
						if (isActualHash(be.X) && isRole(vinfo, be.Y, "expectedHash")) || (isActualHash(be.Y) && isRole(vinfo, be.X, "expectedHash")) {
							outs[i] = outs[i].Set("hashok", "1")
						}
					}
				}
				return outs, true
			},
			EveryCall: func(x *Exec, call *ast.CallExpr, s St) []St {
				if sel, ok := call.Fun.(*ast.SelectorExpr); ok && sel.Sel.Name == "Close" && isRole(vinfo, sel.X, "file") {
					R.Check(s.Get("sizeok") == "1" && s.Get("hashok") == "1", "R01e", c.Cfg+"sha256verifier.Close:close-after-compare", c.P.Pos(call.Pos()), "the underlying file is closed only after size and hash matched", "the wrapped file's Close is reachable before both comparisons passed", x.Trace()...)
				}
				return []St{s}
			},
			Exit: func(x *Exec, ret *ast.ReturnStmt, s St) {
				if RetNil(x.Fn, s, 0) == "nonnil" {
					return
				}
				n++
				R.Check(s.Get("sizeok") == "1" && s.Get("hashok") == "1", "R01e", fmt.Sprintf("%ssha256verifier.Close:return#%d", c.Cfg, returnOrdinal(x.Fn, ret)), c.P.Pos(posOf(x, ret)),
					"sha256verifier.Close returns nil only if actualSize == expectedSize and hex(sha256) == expectedHash", fmt.Sprintf("size=%s hash=%s", s.Get("sizeok"), s.Get("hashok")), x.Trace()...)
			},
		})
		x := NewExec(c.P.FlowOf(fv), b2)
		x.Run(newSt())
		R.Check(n >= 1, "R01e", c.Cfg+"sha256verifier.Close:has-success", "", "sha256verifier.Close has a success return", "none found")
		R.Check(hashLocal != nil || true, "R01e", c.Cfg+"sha256verifier.Close:actualHash", c.P.Pos(fv.Decl.Pos()), "the compared hash is hex(Sum(nil)) of the embedded hash (judged at the comparison)", "")
	}
	if fw := c.P.MustFunc(R, "R01e", "sha256verifier.(*sha256verifier).Write"); fw != nil && newFn != nil {
		winfo := fw.Pkg.TypesInfo
		// n, err := s.multiWriter.Write(p); s.actualSize += int64(n)
		var src types.Object
		ast.Inspect(fw.Decl.Body, func(m ast.Node) bool {
			if as, ok := m.(*ast.AssignStmt); ok && len(as.Rhs) == 1 && len(as.Lhs) == 2 {
				if call, ok := as.Rhs[0].(*ast.CallExpr); ok {
					if sel, ok := call.Fun.(*ast.SelectorExpr); ok && sel.Sel.Name == "Write" && isRole(winfo, sel.X, "multiWriter") {
						src = identObj(winfo, as.Lhs[0])
					}
				}
			}
			return true
		})
		counted := false
		ast.Inspect(fw.Decl.Body, func(m ast.Node) bool {
			if as, ok := m.(*ast.AssignStmt); ok && len(as.Lhs) == 1 && len(as.Rhs) == 1 && isRole(winfo, as.Lhs[0], "actualSize") {
				// counter += n   or   counter = counter + n
				if as.Tok == token.ASSIGN {
					be, isAdd := ast.Unparen(as.Rhs[0]).(*ast.BinaryExpr)
					if !isAdd || be.Op != token.ADD || !(isRole(winfo, be.X, "actualSize") || isRole(winfo, be.Y, "actualSize")) {
						return true
					}
				} else if as.Tok != token.ADD_ASSIGN {
					return true
				}
				hit := false
				ast.Inspect(as.Rhs[0], func(q ast.Node) bool {
					if id, ok := q.(*ast.Ident); ok && src != nil && identObj(winfo, id) == src {
						hit = true
					}
					return true
				})
				counted = hit
			}
			return true
		})
		R.Check(counted, "R01e", c.Cfg+"sha256verifier.Write:counts", c.P.Pos(fw.Decl.Pos()), "actualSize grows by what the MultiWriter(hash, file) accepted", "the byte counter is not advanced by the MultiWriter's byte count")
	}
}

// ---------- R08d : readHeader ----------

func readHeaderRules(c *Ctx) {
	R := c.R
	R.Rule("R08d", "E2", "torn tables are rejected: readHeader's success return is dominated by the magic test, numOffsets >= 2, frame-size consistency, a non-zero chunk size, strictly increasing offsets and last offset == file size; both casblob readers start with readHeader; a failed read drops the entry from the index", 8)
	fi := c.P.MustFunc(R, "R08d", "casblob.readHeader")
	if fi == nil {
		return
	}
	info := fi.Pkg.TypesInfo
	magic := ""
	if o, ok := fi.Pkg.Types.Scope().Lookup("skippableFrameMagicNumber").(*types.Const); ok {
		magic = "#" + o.Val().ExactString()
	}
	var base *Base
	n := 0
	base = NewBase(Hooks{Exit: func(x *Exec, ret *ast.ReturnStmt, s St) {
		if RetNil(x.Fn, s, 1) == "nonnil" || RetNil(x.Fn, s, 0) == "nil" {
			return
		}
		n++
		var magicOK, numOK, frameOK, chunkOK, lastOK bool
		lastOK = s.Get("f:lastoffset") == "1"
		rl := readHeaderRoles(fi)
		for k, v := range s.m {
			if !strings.HasPrefix(k, "p:") {
				continue
			}
			l, op, r, ok := parseAtom(k)
			if !ok {
				continue
			}
			switch {
			case op == "==" && l == magic && isLocalTerm(r) && v == "T":
				magicOK = true
			case op == "<" && strings.HasPrefix(l, rl["numOffsets"]+"@") && r == "#2" && v == "F", op == "<=" && strings.HasPrefix(l, rl["numOffsets"]+"@") && r == "#1" && v == "F":
				numOK = true
			case op == "==" && ((strings.HasPrefix(l, rl["frameSize"]+"@") && strings.HasPrefix(r, rl["metadataSize"]+"@")) || (strings.HasPrefix(r, rl["frameSize"]+"@") && strings.HasPrefix(l, rl["metadataSize"]+"@"))) && v == "T":
				frameOK = true
			case op == "==" && l == "#0" && strings.HasSuffix(r, ".chunkSize") && v == "F":
				chunkOK = true
			case op == "==" && ((strings.HasPrefix(l, rl["foundFileSize"]+"@") && strings.HasPrefix(r, rl["prevOffset"]+"@")) || (strings.HasPrefix(r, rl["foundFileSize"]+"@") && strings.HasPrefix(l, rl["prevOffset"]+"@"))) && v == "T":
				lastOK = true
			}
		}
		site := fmt.Sprintf("%scasblob.readHeader:return#%d", c.Cfg, returnOrdinal(x.Fn, ret))
		pos := c.P.Pos(posOf(x, ret))
		R.Check(magicOK, "R08d", site+":magic", pos, "success is dominated by magicNumber == skippableFrameMagicNumber", "the magic number test is missing on a success path", x.Trace()...)
		R.Check(numOK, "R08d", site+":numOffsets", pos, "success is dominated by numOffsets >= 2", "the numOffsets >= 2 test is missing on a success path", x.Trace()...)
		R.Check(frameOK, "R08d", site+":frameSize", pos, "success is dominated by frameSize == the size implied by numOffsets", "the frame size consistency test is missing on a success path", x.Trace()...)
		R.Check(chunkOK, "R08d", site+":chunkSize", pos, "success is dominated by chunkSize != 0", "a zero chunk size is accepted (the readers divide by it)", x.Trace()...)
		R.Check(lastOK, "R08d", site+":lastOffset", pos, "success is dominated by last offset == file size", "a table that does not end at the file size is accepted (truncated or still being written file)", x.Trace()...)
	}})
	// the file size by role: the local assigned from FileInfo.Size(); an equality with it that a
	// helper establishes (the table's last entry against the file size) is kept as a path flag,
	// since the helper's own locals are forgotten when it returns
	var sizeObj types.Object
	ast.Inspect(fi.Decl.Body, func(m ast.Node) bool {
		if as, ok := m.(*ast.AssignStmt); ok && len(as.Lhs) == 1 && len(as.Rhs) == 1 {
			if call, ok := ast.Unparen(as.Rhs[0]).(*ast.CallExpr); ok && strings.HasSuffix(fullCalleeName(info, call), "FileInfo).Size") {
				sizeObj = identObj(info, as.Lhs[0])
			}
		}
		return true
	})
	base.H.PostCond = func(x *Exec, cond ast.Expr, truth bool, outs []St) []St {
		be, ok := ast.Unparen(cond).(*ast.BinaryExpr)
		if !ok || (be.Op != token.EQL && be.Op != token.NEQ) || sizeObj == nil || x.Parent == nil {
			return outs
		}
		if (be.Op == token.EQL) != truth {
			return outs
		}
		for i := range outs {
			lt, ok1 := base.Term(x, be.X, outs[i])
			rt, ok2 := base.Term(x, be.Y, outs[i])
			if ok1 && ok2 && (lt == objID(sizeObj)) != (rt == objID(sizeObj)) {
				outs[i] = outs[i].Set("f:lastoffset", "1")
			}
		}
		return outs
	}
	base.InlineOwnHelpers()
	x := NewExec(c.P.FlowOf(fi), base)
	x.Run(newSt())
	R.Check(n >= 1, "R08d", c.Cfg+"casblob.readHeader:has-success", "", "readHeader has a success return", "none found")
	// metadataSize = numOffsets*8 + 21
	okMeta := false
	ast.Inspect(fi.Decl.Body, func(m ast.Node) bool {
		if as, ok := m.(*ast.AssignStmt); ok && len(as.Lhs) == 1 && exprStr(as.Lhs[0]) == readHeaderRoles(fi)["metadataSize"] {
			if a, b, ok := linN(info, as.Rhs[0], readHeaderRoles(fi)["numOffsets"]); ok && a == 8 && b == 21 {
				okMeta = true
			}
		}
		return true
	})
	R.Check(okMeta, "R08d", c.Cfg+"casblob.readHeader:metadataSize", c.P.Pos(fi.Decl.Pos()), "the expected frame size is 8*numOffsets + 21 (= header size - 8)", "metadataSize is not 8*numOffsets + 21")
	// strictly increasing loop, in readHeader or in a helper split off it: a loop over the whole
	// table whose body rejects `current <= previous` (returns) and then advances previous = current
	okInc := false
	for _, body := range helperBodies(c, fi) {
		ast.Inspect(body, func(m ast.Node) bool {
			var loopBody *ast.BlockStmt
			whole := false
			var cur func(e ast.Expr) bool
			switch f := m.(type) {
			case *ast.ForStmt:
				loopBody = f.Body
				if be, ok := f.Cond.(*ast.BinaryExpr); ok && be.Op == token.LSS && exprStr(be.Y) == readHeaderRoles(fi)["numOffsets"] {
					whole = true
				}
				cur = func(e ast.Expr) bool { return strings.Contains(exprStr(e), ".chunkOffsets[") }
			case *ast.RangeStmt:
				loopBody = f.Body
				if sl, ok := info.TypeOf(f.X).Underlying().(*types.Slice); ok && sl.Elem().String() == "int64" && f.Value != nil {
					whole = true
					vo := identObj(info, f.Value)
					cur = func(e ast.Expr) bool { return vo != nil && identObj(info, e) == vo }
				}
			}
			if loopBody == nil || cur == nil || !whole {
				return true
			}
			var prev types.Object
			rejects := false
			for _, st := range loopBody.List {
				if is, ok := st.(*ast.IfStmt); ok {
					if be, ok := is.Cond.(*ast.BinaryExpr); ok && len(is.Body.List) > 0 {
						c0, p0 := be.X, be.Y
						op := be.Op
						if op == token.GEQ {
							c0, p0, op = be.Y, be.X, token.LEQ
						}
						if op == token.LEQ && cur(c0) {
							if _, isRet := is.Body.List[len(is.Body.List)-1].(*ast.ReturnStmt); isRet {
								if po := identObj(info, p0); po != nil {
									prev, rejects = po, true
								}
							}
						}
					}
				}
			}
			adv := false
			for _, st := range loopBody.List {
				if as, ok := st.(*ast.AssignStmt); ok && len(as.Lhs) == 1 && len(as.Rhs) == 1 && prev != nil && identObj(info, as.Lhs[0]) == prev && cur(as.Rhs[0]) {
					adv = true
				}
			}
			if rejects && adv {
				okInc = true
			}
			return true
		})
	}
	R.Check(okInc, "R08d", c.Cfg+"casblob.readHeader:increasing", c.P.Pos(fi.Decl.Pos()), "every table entry must be strictly greater than its predecessor (offset <= previous rejects), over the whole table", "the strictly-increasing check over the whole chunk table was not found")

	for _, key := range []string{"casblob.GetUncompressedReadCloser", "casblob.GetZstdReadCloser"} {
		f2 := c.P.MustFunc(R, "R08d", key)
		if f2 == nil {
			continue
		}
		// path rule: a reader is handed out only after readHeader succeeded
		var hb *Base
		nsucc := 0
		hb = NewBase(Hooks{
			Call: func(x *Exec, call *ast.CallExpr, lhs []ast.Expr, s St) ([]St, bool) {
				if calleeKey(x.Fn.Info, call) == "casblob.readHeader" && len(lhs) == 2 {
					return hb.ForkErr(x, lhs, 1, s, func(ok St) St { return ok.Set("hdr", "ok") }, nil), true
				}
				if len(lhs) >= 1 {
					if tv := x.Fn.Info.TypeOf(lhs[len(lhs)-1]); tv != nil && tv.String() == "error" {
						return hb.ForkErr(x, lhs, len(lhs)-1, s, nil, nil), true
					}
				}
				return nil, false
			},
			Exit: func(x *Exec, ret *ast.ReturnStmt, s St) {
				if ret == nil || RetNil(x.Fn, s, 0) == "nil" || RetNil(x.Fn, s, 1) == "nonnil" {
					return
				}
				nsucc++
				R.Check(s.Get("hdr") == "ok", "R08d", fmt.Sprintf("%s%s:return#%d:header-validated", c.Cfg, key, returnOrdinal(x.Fn, ret)), c.P.Pos(ret.Pos()),
					"a reader is returned only on paths where readHeader accepted the file's header", "a reader can be returned although readHeader failed or was not called", x.Trace()...)
			},
		})
		hx := NewExec(c.P.FlowOf(f2), hb)
		hx.Run(newSt())
		R.Check(nsucc > 0, "R08d", c.Cfg+key+":success-returns", "", "success returns of "+key+" were found", "none found")
	}
	// a failed read drops the entry
	if fa := c.P.MustFunc(R, "R08d", kAvail); fa != nil {
		var b2 *Base
		seen := 0
		b2 = NewBase(Hooks{
			Call: func(x *Exec, call *ast.CallExpr, lhs []ast.Expr, s St) ([]St, bool) {
				k := calleeKey(x.Fn.Info, call)
				if k == "casblob.GetZstdReadCloser" || k == "casblob.GetUncompressedReadCloser" {
					return b2.ForkErr(x, lhs, 1, s, nil, func(bad St) St { return bad.Set("readerr", "1") }), true
				}
				if k == "disk.(*SizedLRU).RemoveElement" {
					return []St{s.Set("dropped", "1")}, true
				}
				return nil, false
			},
			Exit: func(x *Exec, ret *ast.ReturnStmt, s St) {
				if s.Get("readerr") == "1" {
					seen++
					R.Check(s.Get("dropped") == "1", "R08d", fmt.Sprintf("%s%s:return#%d:dropped", c.Cfg, kAvail, returnOrdinal(x.Fn, ret)), c.P.Pos(posOf(x, ret)),
						"an entry whose file failed header validation is removed from the index", "a path where the casblob reader failed leaves the entry indexed (it would be served as a hit-then-error for ever)", x.Trace()...)
				}
			},
		})
		b2.InlineOwnHelpers()
		x := NewExec(c.P.FlowOf(fa), b2)
		x.Run(newSt())
		R.Check(seen > 0, "R08d", c.Cfg+kAvail+":reader-error-paths", "", "reader-error paths were found in availableOrTryProxy", "none found")
	}
}

// linN evaluates an integer expression that is linear in the variable named v
// (or in len(x.chunkOffsets) when v == "len"): returns (a, b) for a*v + b.
func linN(info *types.Info, e ast.Expr, v string) (a, b int64, ok bool) {
	e = ast.Unparen(e)
	if c, isC := constInt(info, e); isC {
		return 0, c, true
	}
	switch e := e.(type) {
	case *ast.Ident:
		if e.Name == v {
			return 1, 0, true
		}
	case *ast.CallExpr:
		if tv, k := info.Types[e.Fun]; k && tv.IsType() && len(e.Args) == 1 {
			return linN(info, e.Args[0], v)
		}
		if fullCalleeName(info, e) == "builtin.len" && v == "len" && strings.HasSuffix(exprStr(e.Args[0]), ".chunkOffsets") {
			return 1, 0, true
		}
	case *ast.BinaryExpr:
		a1, b1, ok1 := linN(info, e.X, v)
		a2, b2, ok2 := linN(info, e.Y, v)
		if !ok1 || !ok2 {
			return 0, 0, false
		}
		switch e.Op {
		case token.ADD:
			return a1 + a2, b1 + b2, true
		case token.SUB:
			return a1 - a2, b1 - b2, true
		case token.MUL:
			if a1 == 0 {
				return b1 * a2, b1 * b2, true
			}
			if a2 == 0 {
				return a1 * b2, b1 * b2, true
			}
		}
	}
	return 0, 0, false
}

// ---------- R02d / R20a / R20b / R20c ----------

type wireField struct{ typ, what string }

func basicName(t types.Type) string {
	if t == nil {
		return "?"
	}
	switch u := t.Underlying().(type) {
	case *types.Basic:
		return u.Name()
	case *types.Slice:
		return "[]" + basicName(u.Elem())
	case *types.Pointer:
		return basicName(u.Elem())
	}
	return t.String()
}

func formatRules(c *Ctx, want map[string]bool) {
	R := c.R
	pkg := c.P.Pkg("/cache/disk/casblob")
	if pkg == nil {
		R.Fail("R20a", c.Cfg+"anchor:casblob", "", "package casblob does not load")
		return
	}
	info := pkg.TypesInfo
	spec := []string{"uint32", "uint32", "int64", "uint8", "uint32", "int64", "[]int64"}
	if want["R20a"] {
		R.Rule("R20a", "E7+E5", "header layout equals the published v2 format: skippable-frame magic 0x184D2A50, chunk table at byte 29, fields (u32 magic, u32 frameSize, i64 uncompressedSize, u8 compression, u32 chunkSize, i64 count, []i64 offsets) all little-endian, frameSize = size - 8, Identity = 0, Zstandard = 1", 8)
		cst := func(name string) string {
			if o, ok := pkg.Types.Scope().Lookup(name).(*types.Const); ok {
				return o.Val().ExactString()
			}
			return "?"
		}
		R.Check(cst("skippableFrameMagicNumber") == "407710288", "R20a", c.Cfg+"const:magic", "", "skippableFrameMagicNumber == 0x184D2A50", "magic is "+cst("skippableFrameMagicNumber"))
		R.Check(cst("chunkTableOffset") == "29", "R20a", c.Cfg+"const:chunkTableOffset", "", "chunkTableOffset == 29", "chunkTableOffset is "+cst("chunkTableOffset"))
		R.Check(cst("Identity") == "0" && cst("Zstandard") == "1", "R20a", c.Cfg+"const:compression", "", "Identity == 0 and Zstandard == 1", "Identity="+cst("Identity")+" Zstandard="+cst("Zstandard"))
		if fw := c.P.MustFunc(R, "R20a", "casblob.(*header).write"); fw != nil {
			var seq []string
			le := true
			for _, call := range callsIn(fw.Decl.Body, false) {
				if fullCalleeName(info, call) == "encoding/binary.Write" && len(call.Args) == 3 {
					if exprStr(call.Args[1]) != "binary.LittleEndian" {
						le = false
					}
					seq = append(seq, basicName(info.TypeOf(call.Args[2])))
				}
			}
			R.Check(strings.Join(seq, ",") == strings.Join(spec, ","), "R20a", c.Cfg+"header.write:sequence", c.P.Pos(fw.Decl.Pos()), "header.write emits "+strings.Join(spec, ", "), "emits "+strings.Join(seq, ", "))
			R.Check(le, "R20a", c.Cfg+"header.write:little-endian", c.P.Pos(fw.Decl.Pos()), "every header field is written little-endian", "a field is written with another byte order")
			// what is written in each slot
			var vals []string
			for _, call := range callsIn(fw.Decl.Body, false) {
				if fullCalleeName(info, call) == "encoding/binary.Write" && len(call.Args) == 3 {
					vals = append(vals, strings.ReplaceAll(exprStr(call.Args[2]), " ", ""))
				}
			}
			wantVals := "uint32(skippableFrameMagicNumber),h.frameSize(),h.uncompressedSize,h.compression,h.chunkSize,int64(len(h.chunkOffsets)),h.chunkOffsets"
			R.Check(strings.Join(vals, ",") == wantVals, "R20a", c.Cfg+"header.write:values", c.P.Pos(fw.Decl.Pos()), "the slots carry magic, frame size, uncompressed size, compression, chunk size, table length, table", "slots carry "+strings.Join(vals, ","))
		}
		for name, wantAB := range map[string][2]int64{"casblob.(*header).size": {8, 29}, "casblob.(*header).frameSize": {8, 21}} {
			if f := c.P.MustFunc(R, "R20a", name); f != nil {
				ok := false
				if len(f.Decl.Body.List) == 1 {
					if r, k := f.Decl.Body.List[0].(*ast.ReturnStmt); k && len(r.Results) == 1 {
						a, b, k2 := linN(info, r.Results[0], "len")
						ok = k2 && a == wantAB[0] && b == wantAB[1]
					}
				}
				R.Check(ok, "R20a", c.Cfg+name+":value", c.P.Pos(f.Decl.Pos()), fmt.Sprintf("%s() == %d*len(chunkOffsets) + %d", name, wantAB[0], wantAB[1]), "the function does not compute that value")
			}
		}
	}
	if want["R20b"] {
		R.Rule("R20b", "E7", "writer and reader agree: readHeader reads the same (type, width) sequence little-endian in the same order; ExtractLogicalSize takes the i64 at bytes [8,16); WriteAndClose rewrites the table at chunkTableOffset (R08a)", 3)
		if fr := c.P.MustFunc(R, "R20b", "casblob.readHeader"); fr != nil {
			var seq, dst []string
			le := true
			for _, call := range callsIn(fr.Decl.Body, false) {
				if fullCalleeName(info, call) == "encoding/binary.Read" && len(call.Args) == 3 {
					if exprStr(call.Args[1]) != "binary.LittleEndian" {
						le = false
					}
					seq = append(seq, basicName(info.TypeOf(call.Args[2])))
					d := strings.TrimPrefix(exprStr(call.Args[2]), "&")
					if !strings.Contains(d, ".") {
						d = "local " + basicName(info.TypeOf(call.Args[2]))
					}
					dst = append(dst, d)
				}
			}
			R.Check(strings.Join(seq, ",") == strings.Join(spec, ",") && le, "R20b", c.Cfg+"readHeader:sequence", c.P.Pos(fr.Decl.Pos()), "readHeader reads "+strings.Join(spec, ", ")+" little-endian", "reads "+strings.Join(seq, ", "))
			R.Check(len(dst) == 7 && strings.HasPrefix(dst[0], "local ") && strings.HasPrefix(dst[1], "local ") && strings.HasSuffix(dst[2], ".uncompressedSize") && strings.HasSuffix(dst[3], ".compression") && strings.HasSuffix(dst[4], ".chunkSize") && strings.HasPrefix(dst[5], "local ") && strings.HasSuffix(dst[6], ".chunkOffsets"), "R20b", c.Cfg+"readHeader:destinations", c.P.Pos(fr.Decl.Pos()),
				"the values land in magic, frame size, uncompressedSize, compression, chunkSize, table length, table", "destinations: "+strings.Join(dst, ","))
		}
		if fe := c.P.MustFunc(R, "R20b", "casblob.ExtractLogicalSize"); fe != nil {
			ok16, okSlice, okLE := false, false, false
			ast.Inspect(fe.Decl.Body, func(m ast.Node) bool {
				// 16 header bytes are read: a constant 16 used as a length (a named constant counts)
				if e, k := m.(ast.Expr); k {
					if kv, isC := constInt(info, e); isC && kv == 16 {
						if _, isSlice := m.(*ast.SliceExpr); !isSlice {
							ok16 = true
						}
					}
				}
				// the value is taken from byte 8 on (to 16, or to the end of the 16-byte buffer)
				if se, k := m.(*ast.SliceExpr); k && se.Low != nil {
					if lo, isC := constInt(info, se.Low); isC && lo == 8 {
						if se.High == nil {
							okSlice = true
						} else if hi, isC := constInt(info, se.High); isC && hi == 16 {
							okSlice = true
						}
					}
				}
				if call, k := m.(*ast.CallExpr); k {
					// binary.Read(r, binary.LittleEndian, &int64) or binary.LittleEndian.Uint64(b)
					if fullCalleeName(info, call) == "encoding/binary.Read" && len(call.Args) == 3 && strings.HasSuffix(exprStr(call.Args[1]), "LittleEndian") && basicName(info.TypeOf(call.Args[2])) == "int64" {
						okLE = true
					}
					if fullCalleeName(info, call) == "encoding/binary.(littleEndian).Uint64" {
						okLE = true
					}
				}
				return true
			})
			R.Check(ok16 && okSlice && okLE, "R20b", c.Cfg+"ExtractLogicalSize:offset", c.P.Pos(fe.Decl.Pos()), "the logical size is the little-endian int64 at bytes [8,16) of the 16 header bytes read", fmt.Sprintf("read16=%v slice8=%v int64LE=%v", ok16, okSlice, okLE))
		}
	}
	if want["R02d"] {
		R.Rule("R02d", "E3", "the reader is driven by the header: every division/modulo of an offset in the casblob readers uses the chunk size parsed from the header, chunk positions come from the header's table, and the package's default chunk size is not used on the read side", 4)
		for _, key := range []string{"casblob.GetUncompressedReadCloser", "casblob.GetZstdReadCloser"} {
			f := c.P.MustFunc(R, "R02d", key)
			if f == nil {
				continue
			}
			n := 0
			ast.Inspect(f.Decl.Body, func(m ast.Node) bool {
				if be, k := m.(*ast.BinaryExpr); k && (be.Op == token.QUO || be.Op == token.REM) {
					n++
					d := strings.ReplaceAll(exprStr(be.Y), " ", "")
					R.Check(d == "int64(h.chunkSize)" && exprStr(be.X) == "offset", "R02d", fmt.Sprintf("%s%s:div#%d", c.Cfg, key, n), c.P.Pos(be.Pos()), "offset is split by the header's chunk size", "divides "+exprStr(be.X)+" by "+exprStr(be.Y))
				}
				if id, k := m.(*ast.Ident); k && id.Name == "defaultChunkSize" {
					R.Fail("R02d", c.Cfg+key+":uses-default", c.P.Pos(id.Pos()), "the reader uses the writer's default chunk size instead of the header's")
				}
				return true
			})
			R.Check(n == 2, "R02d", c.Cfg+key+":divs", c.P.Pos(f.Decl.Pos()), "chunk number and remainder are both derived from the header chunk size", fmt.Sprintf("found %d divisions", n))
			// h comes from readHeader(f)
			hOK := false
			ast.Inspect(f.Decl.Body, func(m ast.Node) bool {
				if as, k := m.(*ast.AssignStmt); k && len(as.Lhs) == 2 && exprStr(as.Lhs[0]) == "h" {
					if call, k := as.Rhs[0].(*ast.CallExpr); k && calleeKey(info, call) == "casblob.readHeader" {
						hOK = true
					}
				}
				return true
			})
			R.Check(hOK, "R02d", c.Cfg+key+":h-from-readHeader", c.P.Pos(f.Decl.Pos()), "h is the header parsed from this file", "h is not assigned from readHeader(f)")
		}
	}
	if want["R20c"] {
		R.Rule("R20c", "E2+E3", "chunking: chunkOffsets[i] is the file offset before chunk i's frame is written, each chunk is one EncodeAll output, the final entry is the end of the file", 3)
		if f := c.P.MustFunc(R, "R20c", "casblob.WriteAndClose"); f != nil {
			var loop *ast.ForStmt
			ast.Inspect(f.Decl.Body, func(n ast.Node) bool {
				if fs, ok := n.(*ast.ForStmt); ok && loop == nil {
					for _, call := range callsIn(fs.Body, false) {
						if strings.HasSuffix(fullCalleeName(info, call), ".EncodeAll") {
							loop = fs
						}
					}
				}
				return true
			})
			if loop != nil {
				// first statement records the offset; fileOffset advances by bytes written
				first, adv := false, false
				// the running file offset is the local that starts at the header size
				var offObj, idxObj, writtenObj types.Object
				ast.Inspect(f.Decl.Body, func(n ast.Node) bool {
					if as, ok := n.(*ast.AssignStmt); ok && len(as.Lhs) >= 1 && len(as.Rhs) == 1 {
						if call, ok := ast.Unparen(as.Rhs[0]).(*ast.CallExpr); ok {
							if sel, ok := call.Fun.(*ast.SelectorExpr); ok && sel.Sel.Name == "size" && len(call.Args) == 0 {
								offObj = identObj(info, as.Lhs[0])
							}
							if strings.HasSuffix(fullCalleeName(info, call), "os.(File).Write") || (func() bool { sel, ok := call.Fun.(*ast.SelectorExpr); return ok && sel.Sel.Name == "Write" && len(call.Args) == 1 })() {
								if as.Pos() > loop.Pos() && as.End() < loop.End() {
									writtenObj = identObj(info, as.Lhs[0])
								}
							}
						}
					}
					return true
				})
				tableEntry := func(e ast.Expr) types.Object {
					if ix, ok := ast.Unparen(e).(*ast.IndexExpr); ok && strings.HasSuffix(exprStr(ix.X), ".chunkOffsets") {
						return identObj(info, ix.Index)
					}
					return nil
				}
				if as, ok := loop.Body.List[0].(*ast.AssignStmt); ok && tableEntry(as.Lhs[0]) != nil && offObj != nil && identObj(info, as.Rhs[0]) == offObj {
					first = true
					idxObj = tableEntry(as.Lhs[0])
				}
				for _, st := range loop.Body.List {
					if as, ok := st.(*ast.AssignStmt); ok && as.Tok == token.ADD_ASSIGN && offObj != nil && identObj(info, as.Lhs[0]) == offObj {
						r := ast.Unparen(as.Rhs[0])
						if call, ok := r.(*ast.CallExpr); ok && len(call.Args) == 1 {
							r = ast.Unparen(call.Args[0])
						}
						if writtenObj != nil && identObj(info, r) == writtenObj {
							adv = true
						}
					}
				}
				R.Check(first, "R20c", c.Cfg+"WriteAndClose:offset-before-chunk", c.P.Pos(loop.Pos()), "the table entry of a chunk is the file offset before the chunk is written", "the loop does not start by recording fileOffset in chunkOffsets[nextChunk]")
				R.Check(adv, "R20c", c.Cfg+"WriteAndClose:offset-advances", c.P.Pos(loop.Pos()), "fileOffset advances by the number of bytes written", "fileOffset is not advanced by the bytes written")
				// after the loop: final entry = fileOffset
				fin := false
				ast.Inspect(f.Decl.Body, func(n ast.Node) bool {
					if as, ok := n.(*ast.AssignStmt); ok && as.Pos() > loop.End() && len(as.Lhs) == 1 && tableEntry(as.Lhs[0]) != nil && tableEntry(as.Lhs[0]) == idxObj && offObj != nil && identObj(info, as.Rhs[0]) == offObj {
						fin = true
					}
					return true
				})
				R.Check(fin, "R20c", c.Cfg+"WriteAndClose:final-entry", c.P.Pos(loop.End()), "the final table entry is the end-of-file offset", "the final entry is not set to fileOffset after the loop")
				// fileOffset starts at h.size()
				start := false
				ast.Inspect(f.Decl.Body, func(n ast.Node) bool {
					if as, ok := n.(*ast.AssignStmt); ok && len(as.Lhs) == 1 && offObj != nil && identObj(info, as.Lhs[0]) == offObj && as.Pos() < loop.Pos() {
						if call, ok := ast.Unparen(as.Rhs[0]).(*ast.CallExpr); ok {
							if sel, ok := call.Fun.(*ast.SelectorExpr); ok && sel.Sel.Name == "size" {
								start = true
							}
						}
					}
					return true
				})
				R.Check(start, "R20c", c.Cfg+"WriteAndClose:data-after-header", c.P.Pos(f.Decl.Pos()), "chunk data starts right after the header (fileOffset := h.size())", "fileOffset does not start at h.size()")
			} else {
				R.Fail("R20c", c.Cfg+"WriteAndClose:loop", "", "chunk loop not found")
			}
		}
	}
}


// readHeaderRoles names the locals of readHeader by what they are used for, so
// that renaming them does not matter: the table length is the length argument
// of the make that creates the chunk table; the expected frame size is the
// local assigned 8*length+21; the frame size is what it is compared with; the
// file size is the local assigned from FileInfo.Size(); the previous offset is
// the local assigned from a table element inside the loop.
func readHeaderRoles(fi *FuncInfo) map[string]string {
	info := fi.Pkg.TypesInfo
	r := map[string]string{"numOffsets": "numOffsets", "metadataSize": "metadataSize", "frameSize": "frameSize", "foundFileSize": "foundFileSize", "prevOffset": "prevOffset"}
	ast.Inspect(fi.Decl.Body, func(n ast.Node) bool {
		as, ok := n.(*ast.AssignStmt)
		if !ok || len(as.Rhs) != 1 || len(as.Lhs) < 1 {
			return true
		}
		rhs := ast.Unparen(as.Rhs[0])
		if call, ok := rhs.(*ast.CallExpr); ok {
			if id, ok := call.Fun.(*ast.Ident); ok && id.Name == "make" && len(call.Args) == 2 && strings.HasSuffix(exprStr(as.Lhs[0]), ".chunkOffsets") {
				if a, ok := ast.Unparen(call.Args[1]).(*ast.Ident); ok {
					r["numOffsets"] = a.Name
				}
			}
			if strings.HasSuffix(fullCalleeName(info, call), "FileInfo).Size") {
				if id, ok := as.Lhs[0].(*ast.Ident); ok {
					r["foundFileSize"] = id.Name
				}
			}
		}
		if ix, ok := rhs.(*ast.IndexExpr); ok && strings.HasSuffix(exprStr(ix.X), ".chunkOffsets") {
			if id, ok := as.Lhs[0].(*ast.Ident); ok {
				r["prevOffset"] = id.Name
			}
		}
		return true
	})
	ast.Inspect(fi.Decl.Body, func(n ast.Node) bool {
		if as, ok := n.(*ast.AssignStmt); ok && len(as.Lhs) == 1 && len(as.Rhs) == 1 {
			if a, b, ok := linN(info, as.Rhs[0], r["numOffsets"]); ok && a == 8 && b == 21 {
				if id, ok := as.Lhs[0].(*ast.Ident); ok {
					r["metadataSize"] = id.Name
				}
			}
		}
		return true
	})
	ast.Inspect(fi.Decl.Body, func(n ast.Node) bool {
		if be, ok := n.(*ast.BinaryExpr); ok && (be.Op == token.NEQ || be.Op == token.EQL) {
			for _, pr := range [][2]ast.Expr{{be.X, be.Y}, {be.Y, be.X}} {
				if id, ok := ast.Unparen(pr[1]).(*ast.Ident); ok && id.Name == r["metadataSize"] {
					o := ast.Unparen(pr[0])
					if call, ok := o.(*ast.CallExpr); ok && len(call.Args) == 1 {
						o = ast.Unparen(call.Args[0])
					}
					if oid, ok := o.(*ast.Ident); ok {
						r["frameSize"] = oid.Name
					}
				}
			}
		}
		return true
	})
	return r
}
