package main

func init() {
	register(&PropCheck{ID: "C10", Explanation: "debug", Trusted: commonTrusted, Run: func(c *Ctx) {
		findMissingRules(c)
		keyspaceRules(c)
		writeProtocolRules(c)
		sizeLimitRules(c)
	}})
}
