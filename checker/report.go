package main

// Obligations, reports, evidence files, known findings and replay files.

import (
	"bufio"
	"encoding/json"
	"fmt"
	"os"
	"path/filepath"
	"sort"
	"strings"
	"time"
)

// An Oblig is one proof obligation: rule + construct, never a line number.
type Oblig struct {
	Rule   string   `json:"rule"`
	Key    string   `json:"construct"`
	Pos    string   `json:"pos,omitempty"`
	What   string   `json:"what"`
	Status string   `json:"status"` // discharged | violated | known-finding
	Detail string   `json:"detail,omitempty"`
	Trace  []string `json:"path,omitempty"`
}

var dumpObligs bool

type RuleInfo struct {
	ID     string `json:"id"`
	Doc    string `json:"doc"`
	Engine string `json:"engine"`
	Min    int    `json:"min_instances"`
	Count  int    `json:"instances"`
	Viol   int    `json:"violations"`
}

type Report struct {
	Prop      string
	Tier      string
	Obligs    []*Oblig
	Rules     map[string]*RuleInfo
	ruleOrder []string
	Analysed  map[string]int // what was analysed: functions, call sites, paths, states...
	Notes     []string
	seen      map[string]bool
	only      map[string]bool // when set, the rules this property owns; others are dropped
}

// restrict limits the report to the given rules (generators emit whole rule
// families; a property keeps the rules it owns).
func (r *Report) restrict(rules []string) {
	if len(rules) == 0 {
		return
	}
	r.only = map[string]bool{"framework": true, "anchor": true, "CTRL": true}
	for _, id := range rules {
		r.only[id] = true
	}
}

func (r *Report) wants(rule string) bool { return r.only == nil || r.only[rule] }

func newReport(prop, tier string) *Report {
	return &Report{Prop: prop, Tier: tier, Rules: map[string]*RuleInfo{}, Analysed: map[string]int{}, seen: map[string]bool{}}
}

// Rule declares a rule with the minimum number of instances confirmed by hand.
func (r *Report) Rule(id, engine, doc string, min int) {
	if _, ok := r.Rules[id]; ok || !r.wants(id) {
		return
	}
	r.Rules[id] = &RuleInfo{ID: id, Doc: doc, Engine: engine, Min: min}
	r.ruleOrder = append(r.ruleOrder, id)
}

func (r *Report) add(o *Oblig) {
	if !r.wants(o.Rule) {
		return
	}
	id := o.Rule + "|" + o.Key
	if r.seen[id] {
		// Same rule+construct reported twice: keep the worst verdict.
		for _, p := range r.Obligs {
			if p.Rule == o.Rule && p.Key == o.Key {
				if p.Status == "discharged" && o.Status != "discharged" {
					*p = *o
				}
				return
			}
		}
	}
	r.seen[id] = true
	r.Obligs = append(r.Obligs, o)
}

func (r *Report) OK(rule, key, pos, what string) {
	r.add(&Oblig{Rule: rule, Key: key, Pos: pos, What: what, Status: "discharged"})
}

func (r *Report) Fail(rule, key, pos, what string, trace ...string) {
	r.add(&Oblig{Rule: rule, Key: key, Pos: pos, What: what, Status: "violated", Trace: trace})
}

// Check records a discharged or violated obligation depending on ok.
func (r *Report) Check(ok bool, rule, key, pos, what, whyNot string, trace ...string) {
	if ok {
		r.OK(rule, key, pos, what)
	} else {
		r.add(&Oblig{Rule: rule, Key: key, Pos: pos, What: what, Status: "violated", Detail: whyNot, Trace: trace})
	}
}

func (r *Report) Count(what string, n int) { r.Analysed[what] += n }

// ---- known findings ----

type KnownFinding struct {
	Property string `json:"property"`
	Rule     string `json:"rule"`
	Key      string `json:"construct"`
	What     string `json:"what"`
}

func loadKnown(verifDir string) ([]KnownFinding, error) {
	f, err := os.Open(filepath.Join(verifDir, "known_findings.jsonl"))
	if err != nil {
		if os.IsNotExist(err) {
			return nil, nil
		}
		return nil, err
	}
	defer f.Close()
	var out []KnownFinding
	sc := bufio.NewScanner(f)
	sc.Buffer(make([]byte, 1<<20), 1<<20)
	for sc.Scan() {
		line := strings.TrimSpace(sc.Text())
		if line == "" || strings.HasPrefix(line, "#") || strings.HasPrefix(line, "fixed:") {
			// "fixed:" lines are a record only; they suppress nothing.
			continue
		}
		var k KnownFinding
		if err := json.Unmarshal([]byte(line), &k); err != nil {
			return nil, fmt.Errorf("known_findings.jsonl: %v in %q", err, line)
		}
		out = append(out, k)
	}
	return out, sc.Err()
}

// ---- finish: instance minimums, known findings, output ----

type evidence struct {
	PropertyID  string         `json:"property_id"`
	Tier        string         `json:"tier"`
	Seed        int            `json:"seed"`
	Level       string         `json:"level"`
	Coverage    map[string]any `json:"coverage"`
	Assumptions []string       `json:"assumptions"`
	WallS       float64        `json:"wall_s"`
	Violations  int            `json:"violations"`
}

func (r *Report) finish(verifDir string, chk *PropCheck, start time.Time, seed int, configs []string) int {
	known, err := loadKnown(verifDir)
	if err != nil {
		r.Fail("framework", "known_findings", "", err.Error())
	}
	for _, id := range chk.Rules {
		if _, ok := r.Rules[id]; !ok {
			r.Fail("framework", "rule-missing:"+id, "", "rule "+id+" is owned by this property but no generator declared it")
		}
	}
	// Instance minimums: a rule that matches fewer sites than confirmed by hand fails.
	for _, id := range r.ruleOrder {
		ri := r.Rules[id]
		for _, o := range r.Obligs {
			if o.Rule == id {
				ri.Count++
			}
		}
		if ri.Count < ri.Min {
			r.add(&Oblig{Rule: id, Key: "instances", What: fmt.Sprintf("rule %s matched %d instance(s), fewer than the %d confirmed by hand: the rule may have gone blind (anchor renamed, construct refactored)", id, ri.Count, ri.Min), Status: "violated"})
			ri.Count++
		}
	}
	for _, o := range r.Obligs {
		if _, ok := r.Rules[o.Rule]; !ok && o.Rule != "framework" {
			r.Rule(o.Rule, "?", "(undeclared rule)", 0)
			r.Rules[o.Rule].Count++
		}
	}
	sort.SliceStable(r.Obligs, func(i, j int) bool {
		if r.Obligs[i].Rule != r.Obligs[j].Rule {
			return r.Obligs[i].Rule < r.Obligs[j].Rule
		}
		return r.Obligs[i].Key < r.Obligs[j].Key
	})
	nviol, nknown, ndis := 0, 0, 0
	var out []string
	replayDir := filepath.Join(verifDir, "out", "replay")
	usedKnown := map[int]bool{}
	for _, o := range r.Obligs {
		if o.Status != "violated" {
			ndis++
			continue
		}
		matched := false
		for i, k := range known {
			if k.Property == r.Prop && k.Rule == o.Rule && k.Key == o.Key {
				matched = true
				usedKnown[i] = true
				o.Status = "known-finding"
				nknown++
				out = append(out, fmt.Sprintf("KNOWN-FINDING: property=%s %s %s %s: %s", r.Prop, o.Rule, o.Key, o.Pos, k.What))
				break
			}
		}
		if matched {
			continue
		}
		nviol++
		if ri := r.Rules[o.Rule]; ri != nil {
			ri.Viol++
		}
		_ = os.MkdirAll(replayDir, 0o755)
		path := filepath.Join(replayDir, fmt.Sprintf("%s-%d.json", r.Prop, nviol))
		b, _ := json.MarshalIndent(map[string]any{"property": r.Prop, "tier": r.Tier, "obligation": o}, "", " ")
		_ = os.WriteFile(path, b, 0o644)
		fmt.Printf("  %s %s [%s] %s\n      %s %s\n", o.Rule, o.Key, o.Pos, o.What, o.Detail, strings.Join(o.Trace, "\n      "))
		out = append(out, fmt.Sprintf("VIOLATION property=%s replay=%s", r.Prop, path))
	}
	for i, k := range known {
		if k.Property == r.Prop && !usedKnown[i] && !(strings.HasPrefix(k.Key, " [") && r.Tier == "quick") {
			r.Notes = append(r.Notes, fmt.Sprintf("known finding %s %s no longer reported (repaired or construct changed); the entry can be turned into a fixed: line", k.Rule, k.Key))
		}
	}

	// Evidence.
	rules := []*RuleInfo{}
	for _, id := range r.ruleOrder {
		rules = append(rules, r.Rules[id])
	}
	constructs := map[string]bool{}
	for _, o := range r.Obligs {
		constructs[o.Rule+"|"+o.Key] = true
	}
	samples := []any{}
	perRule := map[string]int{}
	for _, o := range r.Obligs {
		if perRule[o.Rule] < 2 || o.Status != "discharged" {
			perRule[o.Rule]++
			samples = append(samples, o)
		}
		if len(samples) >= 60 {
			break
		}
	}
	ev := evidence{
		PropertyID: r.Prop, Tier: r.Tier, Seed: seed, Level: "other",
		Coverage: map[string]any{
			"explanation":           chk.Explanation,
			"not_decided":           chk.NotDecided,
			"obligations":           len(r.Obligs),
			"discharged":            ndis,
			"known_findings":        nknown,
			"evaluations":           len(r.Obligs),
			"distinct_nontrivial":   len(constructs),
			"rule":                  "obligations are enumerated by the rules below from /repo's current type-checked source (one per rule+construct: function, call site ordinal, access path, table entry); all are non-trivial in that each names a construct found in the code and a condition that was evaluated on it; distinct = distinct rule+construct pairs",
			"rules":                 rules,
			"analysed":              r.Analysed,
			"build_configurations":  configs,
			"samples":               samples,
			"notes":                 r.Notes,
			"exhaustive":            true,
			"checker_cmd":           fmt.Sprintf("./bin/vcheck -p %s -tier %s", r.Prop, r.Tier),
			"trusted_base":          chk.Trusted,
			"unresolved_or_skipped": 0,
		},
		Assumptions: chk.Trusted,
		WallS:       time.Since(start).Seconds(),
		Violations:  nviol,
	}
	_ = os.MkdirAll(filepath.Join(verifDir, "evidence"), 0o755)
	b, _ := json.MarshalIndent(ev, "", " ")
	if err := os.WriteFile(filepath.Join(verifDir, "evidence", r.Prop+".json"), b, 0o644); err != nil {
		fmt.Println("cannot write evidence:", err)
		return 2
	}
	fmt.Printf("%s tier=%s: %d obligations over %d rules, %d discharged, %d known finding(s), %d violation(s) [%.1fs]\n",
		r.Prop, r.Tier, len(r.Obligs), len(r.ruleOrder), ndis, nknown, nviol, time.Since(start).Seconds())
	for _, id := range r.ruleOrder {
		ri := r.Rules[id]
		fmt.Printf("  %-6s %-3d instance(s) (min %d) %s\n", ri.ID, ri.Count, ri.Min, ri.Doc)
	}
	for _, n := range r.Notes {
		fmt.Println("  note:", n)
	}
	if dumpObligs {
		for _, o := range r.Obligs {
			fmt.Printf("  | %-12s %s %s [%s]\n", o.Status, o.Rule, o.Key, o.Pos)
		}
	}
	for _, l := range out {
		fmt.Println(l)
	}
	if nviol > 0 {
		return 1
	}
	return 0
}
