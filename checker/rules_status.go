package main

// R17d: the error a store returns reaches the client through the status
// translation (507 -> RESOURCE_EXHAUSTED / HTTP 507, 400 -> INVALID_ARGUMENT,
// 404 -> NOT_FOUND) on every write path.

import (
	"fmt"
	"go/ast"
	"go/token"
	"go/types"
	"sort"
	"strings"
)

// errAliases computes, inside one function declaration (closures included), the
// variables that may hold the error value `root`: copies, values sent on a
// channel and received from it again.
func errAliases(fi *FuncInfo, roots ...types.Object) map[types.Object]bool {
	info := fi.Pkg.TypesInfo
	al := map[types.Object]bool{}
	for _, r := range roots {
		if r != nil {
			al[r] = true
		}
	}
	chans := map[types.Object]bool{}
	recvOf := func(e ast.Expr) types.Object {
		if u, ok := ast.Unparen(e).(*ast.UnaryExpr); ok && u.Op == token.ARROW {
			return identObj(info, u.X)
		}
		return nil
	}
	for changed := true; changed; {
		changed = false
		add := func(o types.Object) {
			if o != nil && !al[o] {
				al[o] = true
				changed = true
			}
		}
		ast.Inspect(fi.Decl, func(n ast.Node) bool {
			switch n := n.(type) {
			case *ast.SendStmt:
				if o := identObj(info, n.Value); o != nil && al[o] {
					if ch := identObj(info, n.Chan); ch != nil && !chans[ch] {
						chans[ch] = true
						changed = true
					}
				}
			case *ast.AssignStmt:
				if len(n.Rhs) == 1 {
					if ch := recvOf(n.Rhs[0]); ch != nil && chans[ch] && len(n.Lhs) >= 1 {
						add(identObj(info, n.Lhs[0]))
					}
				}
				if len(n.Lhs) == len(n.Rhs) {
					for i, r := range n.Rhs {
						if o := identObj(info, r); o != nil && al[o] {
							add(identObj(info, n.Lhs[i]))
						}
					}
				}
			}
			return true
		})
	}
	return al
}

func statusMapping(c *Ctx) {
	R := c.R
	R.Rule("R17d", "E3+E7", "status mapping on every write path: gRPCErrCode maps a cache error 507 to RESOURCE_EXHAUSTED, 400 to INVALID_ARGUMENT and 404 to NOT_FOUND; the error of every Cache.Put in package server (followed through copies, result channels and returns to callers) is translated by gRPCErrCode, or - HTTP - answered with the cache error's own code", 8)
	spkg := c.P.Pkg("/server")
	if spkg == nil {
		R.Fail("R17d", c.Cfg+"anchor", "", "package server not loaded")
		return
	}
	info := spkg.TypesInfo

	// (a) the table
	if fi := c.P.MustFunc(R, "R17d", "server.gRPCErrCode"); fi != nil {
		got := map[int64]string{}
		ast.Inspect(fi.Decl.Body, func(n ast.Node) bool {
			sw, ok := n.(*ast.SwitchStmt)
			if !ok || sw.Tag == nil {
				return true
			}
			sel, ok := ast.Unparen(sw.Tag).(*ast.SelectorExpr)
			if !ok || sel.Sel.Name != "Code" || !strings.HasSuffix(info.TypeOf(sel.X).String(), "cache.Error") {
				return true
			}
			for _, st := range sw.Body.List {
				cc := st.(*ast.CaseClause)
				for _, v := range cc.List {
					k, ok := constInt(info, v)
					if !ok {
						continue
					}
					for _, b := range cc.Body {
						if ret, ok := b.(*ast.ReturnStmt); ok && len(ret.Results) == 1 {
							if o := identObj(info, selOrIdent(ret.Results[0])); o != nil {
								got[k] = o.Name()
							}
						}
					}
				}
			}
			return true
		})
		for _, w := range []struct {
			code int64
			name string
		}{{507, "ResourceExhausted"}, {400, "InvalidArgument"}, {404, "NotFound"}} {
			R.Check(got[w.code] == w.name, "R17d", fmt.Sprintf("%sgRPCErrCode:%d", c.Cfg, w.code), c.P.Pos(fi.Decl.Pos()),
				fmt.Sprintf("gRPCErrCode maps cache error %d to codes.%s", w.code, w.name), fmt.Sprintf("cache error %d is mapped to %q", w.code, got[w.code]))
		}
		// the default is returned only when no case applies: nil -> OK is R01h's business
	}

	// (b) every Put error is translated
	type root struct {
		fi   *FuncInfo
		objs []types.Object
		site string
		pos  token.Pos
		via  string
	}
	var work []root
	for _, fi := range c.P.FuncsInPkg("/server") {
		if strings.HasSuffix(c.P.Fset.Position(fi.Decl.Pos()).Filename, "_test.go") {
			continue
		}
		k := 0
		ast.Inspect(fi.Decl, func(n ast.Node) bool {
			as, ok := n.(*ast.AssignStmt)
			if !ok || len(as.Rhs) != 1 || len(as.Lhs) != 1 {
				return true
			}
			call, ok := ast.Unparen(as.Rhs[0]).(*ast.CallExpr)
			if !ok || calleeKey(fi.Pkg.TypesInfo, call) != "disk.(Cache).Put" {
				return true
			}
			k++
			if o := identObj(fi.Pkg.TypesInfo, as.Lhs[0]); o != nil {
				work = append(work, root{fi, []types.Object{o}, fmt.Sprintf("%s:Put#%d", fi.Key, k), call.Pos(), ""})
			}
			return true
		})
	}
	sort.Slice(work, func(i, j int) bool { return work[i].site < work[j].site })
	R.Count("Cache.Put call sites whose error is followed (R17d)", len(work))
	for depth := 0; len(work) > 0 && depth < 4; depth++ {
		var next []root
		for _, w := range work {
			finfo := w.fi.Pkg.TypesInfo
			al := errAliases(w.fi, w.objs...)
			// read path exception: a failed de-inlining keeps the data inline (same exception as R01h)
			if w.fi.Key == "server.(*grpcServer).maybeInline" || onlyCalledFrom(c, w.fi.Key, "server.(*grpcServer).maybeInline", 0) {
				R.OK("R17d", c.Cfg+w.site+":translated", c.P.Pos(w.pos), "read path (de-inlining into the CAS while serving GetActionResult): a failed store is logged and the data stays inline; no write is refused")
				continue
			}
			// how is each variable that may hold the error used: translated, forwarded, or neither
			translated := map[types.Object]string{}
			forwarded := map[types.Object]bool{}
			retIdx := -1
			translates := func(n ast.Node, only types.Object) string {
				how := ""
				for _, call := range callsIn(n, true) {
					switch {
					case calleeKey(finfo, call) == "server.gRPCErrCode" && len(call.Args) == 2:
						if o := identObj(finfo, call.Args[0]); o != nil && al[o] && (only == nil || o == only) {
							how = "gRPCErrCode"
							translated[o] = how
						}
					case fullCalleeName(finfo, call) == "net/http.Error" && len(call.Args) == 3:
						// http.Error(w, msg, cerr.Code) with cerr the *cache.Error asserted from the error
						if sel, ok := ast.Unparen(call.Args[2]).(*ast.SelectorExpr); ok && sel.Sel.Name == "Code" {
							if co := identObj(finfo, sel.X); co != nil {
								for o := range al {
									if (only == nil || o == only) && assertedFrom(w.fi, co, map[types.Object]bool{o: true}) {
										how = "http.Error(cache error's code)"
										translated[o] = how
									}
								}
							}
						}
					}
				}
				return how
			}
			translates(w.fi.Decl, nil)
			ast.Inspect(w.fi.Decl, func(n ast.Node) bool {
				switch n := n.(type) {
				case *ast.SendStmt:
					if o := identObj(finfo, n.Value); o != nil && al[o] {
						forwarded[o] = true
					}
				case *ast.AssignStmt:
					if len(n.Lhs) == len(n.Rhs) {
						for i, r := range n.Rhs {
							if o := identObj(finfo, r); o != nil && al[o] && identObj(finfo, n.Lhs[i]) != o {
								forwarded[o] = true
							}
						}
					}
				}
				return true
			})
			walkNoLits(w.fi.Decl.Body, func(n ast.Node) bool {
				if ret, ok := n.(*ast.ReturnStmt); ok {
					for i, r := range ret.Results {
						if o := identObj(finfo, r); o != nil && al[o] {
							retIdx = i
							forwarded[o] = true
						}
					}
				}
				return true
			})
			var dropped []string
			how := ""
			for o := range al {
				if h := translated[o]; h != "" {
					how = h
				} else if !forwarded[o] {
					dropped = append(dropped, fmt.Sprintf("%s (%s)", o.Name(), c.P.Pos(o.Pos())))
				}
			}
			sort.Strings(dropped)
			// the error test that directly follows the store must itself translate or forward the error
			localOK := true
			if len(w.objs) == 1 && depth == 0 {
				if body := errorBranchAfter(w.fi, w.pos, w.objs[0]); body != nil {
					fw := false
					ast.Inspect(body, func(n ast.Node) bool {
						switch n := n.(type) {
						case *ast.SendStmt:
							if identObj(finfo, n.Value) == w.objs[0] {
								fw = true
							}
						case *ast.ReturnStmt:
							for _, r := range n.Results {
								if identObj(finfo, r) == w.objs[0] {
									fw = true
								}
							}
						}
						return true
					})
					localOK = fw || translates(body, w.objs[0]) != ""
				}
			}
			handed := 0
			if retIdx >= 0 {
				for _, g := range c.P.FuncsInPkg("/server") {
					if strings.HasSuffix(c.P.Fset.Position(g.Decl.Pos()).Filename, "_test.go") {
						continue
					}
					ginfo := g.Pkg.TypesInfo
					ast.Inspect(g.Decl, func(n ast.Node) bool {
						as, ok := n.(*ast.AssignStmt)
						if !ok || len(as.Rhs) != 1 || retIdx >= len(as.Lhs) {
							return true
						}
						call, ok := ast.Unparen(as.Rhs[0]).(*ast.CallExpr)
						if !ok || calleeKey(ginfo, call) != w.fi.Key {
							return true
						}
						if o := identObj(ginfo, as.Lhs[retIdx]); o != nil {
							handed++
							next = append(next, root{g, []types.Object{o}, w.site, w.pos, w.via + " in " + g.Key})
						}
						return true
					})
				}
			}
			switch {
			case len(dropped) > 0 || !localOK:
				what := "the error variable(s) " + strings.Join(dropped, ", ") + " are neither translated nor passed on"
				if len(dropped) == 0 {
					what = "the error branch that follows the store neither translates nor passes on the error"
				}
				R.Check(false, "R17d", c.Cfg+w.site+":translated", c.P.Pos(w.pos), "the store's error reaches the client through gRPCErrCode (or the cache error's own HTTP code)",
					"the error returned by Cache.Put is reported to the client without the status translation"+w.via+" ("+what+"): a refusal by max_size_hard_limit (507) or by a size limit (400) arrives as a generic code instead of RESOURCE_EXHAUSTED / INVALID_ARGUMENT")
			case how != "":
				R.Check(true, "R17d", c.Cfg+w.site+":translated", c.P.Pos(w.pos), "the store's error reaches the client through "+how+w.via, "")
			case handed > 0:
				// decided in the callers
			default:
				R.Check(false, "R17d", c.Cfg+w.site+":translated", c.P.Pos(w.pos), "the store's error reaches the client through gRPCErrCode (or the cache error's own HTTP code)",
					"the error returned by Cache.Put is never translated"+w.via)
			}
		}
		work = next
	}
}

// errorBranchAfter returns the body of `if <e> != nil ... { }` when that
// statement directly follows the statement containing the call at pos.
func errorBranchAfter(fi *FuncInfo, pos token.Pos, e types.Object) *ast.BlockStmt {
	info := fi.Pkg.TypesInfo
	var out *ast.BlockStmt
	ast.Inspect(fi.Decl, func(n ast.Node) bool {
		var list []ast.Stmt
		switch b := n.(type) {
		case *ast.BlockStmt:
			list = b.List
		case *ast.CaseClause:
			list = b.Body
		case *ast.CommClause:
			list = b.Body
		}
		for i, st := range list {
			if st.Pos() <= pos && pos < st.End() && i+1 < len(list) {
				if _, isAssign := st.(*ast.AssignStmt); !isAssign {
					continue
				}
				if is, ok := list[i+1].(*ast.IfStmt); ok && is.Init == nil {
					mentions := false
					ast.Inspect(is.Cond, func(m ast.Node) bool {
						if be, ok := m.(*ast.BinaryExpr); ok && be.Op == token.NEQ && identObj(info, be.X) == e && isNilIdent(info, be.Y) {
							mentions = true
						}
						return true
					})
					if mentions {
						out = is.Body
					}
				}
			}
		}
		return true
	})
	return out
}

// selOrIdent returns the Sel identifier of pkg.Name, or the expression itself.
func selOrIdent(e ast.Expr) ast.Expr {
	if s, ok := ast.Unparen(e).(*ast.SelectorExpr); ok {
		return s.Sel
	}
	return e
}

// assertedFrom reports whether variable co is defined by a type assertion
// X.(*cache.Error) or errors.As(X, &co) with X one of the aliases.
func assertedFrom(fi *FuncInfo, co types.Object, al map[types.Object]bool) bool {
	info := fi.Pkg.TypesInfo
	found := false
	ast.Inspect(fi.Decl, func(n ast.Node) bool {
		switch n := n.(type) {
		case *ast.AssignStmt:
			if len(n.Rhs) == 1 && len(n.Lhs) >= 1 && identObj(info, n.Lhs[0]) == co {
				if ta, ok := ast.Unparen(n.Rhs[0]).(*ast.TypeAssertExpr); ok {
					if o := identObj(info, ta.X); o != nil && al[o] {
						found = true
					}
				}
			}
		case *ast.CallExpr:
			if fullCalleeName(info, n) == "errors.As" && len(n.Args) == 2 {
				if o := identObj(info, n.Args[0]); o != nil && al[o] {
					if u, ok := ast.Unparen(n.Args[1]).(*ast.UnaryExpr); ok && u.Op == token.AND && identObj(info, u.X) == co {
						found = true
					}
				}
			}
		}
		return true
	})
	return found
}

// onlyCalledFrom: every (transitive) caller chain of key inside package server starts at root.
func onlyCalledFrom(c *Ctx, key, root string, depth int) bool {
	if depth > 3 {
		return false
	}
	n := 0
	for _, g := range c.P.FuncsInPkg("/server") {
		if strings.HasSuffix(c.P.Fset.Position(g.Decl.Pos()).Filename, "_test.go") {
			continue
		}
		for _, call := range callsIn(g.Decl.Body, true) {
			if calleeKey(g.Pkg.TypesInfo, call) == key {
				n++
				if g.Key != root && !onlyCalledFrom(c, g.Key, root, depth+1) {
					return false
				}
			}
		}
	}
	return n > 0
}

// R14k / R04h: file handles in the disk cache.
//
// R14k: a method is called on an *os.File only on paths where the call that produced it returned no
// error (on the error path the handle is nil: the call panics the request's goroutine, and with it
// the process for background goroutines).
// R04h: when the file of an indexed entry cannot be opened while the index lock is held (nobody can
// have replaced it in between), the entry is dropped from the index - otherwise it stays indexed
// without a file and every later request for it fails.
func fileHandleRules(c *Ctx) {
	R := c.R
	R.Rule("R14k", "E2", "no method call on a nil file: an *os.File obtained together with an error is used only on paths where that error is nil", 3)
	R.Rule("R04h", "E2", "an indexed entry whose file cannot be opened under the index lock is removed from the index (no indexed entry without a file)", 1)
	nOpen, nDropPaths := 0, 0
	for _, key := range []string{kAvail, kGet, kPut} {
		fi := c.P.MustFunc(R, "R14k", key)
		if fi == nil {
			continue
		}
		var b *Base
		b = NewBase(Hooks{
			Call: func(x *Exec, call *ast.CallExpr, lhs []ast.Expr, s St) ([]St, bool) {
				k := fullCalleeName(x.Fn.Info, call)
				if (k == "os.Open" || k == "os.OpenFile") && len(lhs) == 2 {
					nOpen++
					locked := s.Get("lk") == "1"
					return b.ForkErr(x, lhs, 1, s, func(ok St) St {
						if t, k := b.LTerm(x, lhs[0], ok); k {
							ok = ok.Set("n:"+t, "nonnil")
						}
						return ok
					}, func(bad St) St {
						if t, k := b.LTerm(x, lhs[0], bad); k {
							bad = bad.Set("n:"+t, "nil")
						}
						if locked && key == kAvail {
							bad = bad.Set("openfailed", "1")
						}
						return bad
					}), true
				}
				if calleeKey(x.Fn.Info, call) == "disk.(*SizedLRU).RemoveElement" || calleeKey(x.Fn.Info, call) == "disk.(*SizedLRU).RemoveKey" {
					return []St{s.Set("dropped", "1")}, true
				}
				return nil, false
			},
			EveryCall: func(x *Exec, call *ast.CallExpr, s St) []St {
				switch fullCalleeName(x.Fn.Info, call) {
				case "sync.(Mutex).Lock":
					return []St{s.Set("lk", "1")}
				case "sync.(Mutex).Unlock":
					return []St{s.Set("lk", "")}
				}
				sel, ok := call.Fun.(*ast.SelectorExpr)
				if !ok || x.InDefer {
					return []St{s}
				}
				if t := x.Fn.Info.TypeOf(sel.X); t == nil || t.String() != "*os.File" {
					return []St{s}
				}
				if ft, ok := b.Term(x, sel.X, s); ok && s.Get("n:"+ft) == "nil" {
					R.Check(false, "R14k", fmt.Sprintf("%s%s:%s#%d:on-nil-file", c.Cfg, key, sel.Sel.Name, callOrdinal(x, call)), c.P.Pos(call.Pos()),
						"the file handle is non-nil where "+sel.Sel.Name+" is called on it",
						exprStr(sel.X)+"."+sel.Sel.Name+"() is reachable on a path where the open that produced "+exprStr(sel.X)+" failed (nil handle): the call panics", x.Trace()...)
				} else {
					R.Check(true, "R14k", fmt.Sprintf("%s%s:%s#%d:on-nil-file", c.Cfg, key, sel.Sel.Name, callOrdinal(x, call)), c.P.Pos(call.Pos()),
						"the file handle is non-nil where "+sel.Sel.Name+" is called on it", "")
				}
				return []St{s}
			},
			Exit: func(x *Exec, ret *ast.ReturnStmt, s St) {
				if key == kAvail && s.Get("openfailed") == "1" {
					nDropPaths++
					R.Check(s.Get("dropped") == "1", "R04h", fmt.Sprintf("%s%s:return#%d:open-failed-dropped", c.Cfg, key, returnOrdinal(x.Fn, ret)), c.P.Pos(posOf(x, ret)),
						"an entry whose file could not be opened under the lock is removed from the index", "the open failed while the index lock was held, yet the entry stays indexed: it has no file and every request for it fails", x.Trace()...)
				}
			},
		})
		b.AutoInline = func(h *FuncInfo) bool { return h.Pkg == fi.Pkg && !ast.IsExported(h.Decl.Name.Name) && hasCloserSig(h) }
		x := NewExec(c.P.FlowOf(fi), b)
		x.Run(newSt())
		if x.Aborted != "" {
			R.Fail("R14k", c.Cfg+key+":explore", "", "exploration did not complete: "+x.Aborted)
		}
	}
	R.Check(nOpen >= 3, "R14k", c.Cfg+"open-sites", "", "the os.Open sites of Put / get / availableOrTryProxy were analysed", fmt.Sprintf("found %d", nOpen))
	R.Check(nDropPaths > 0, "R04h", c.Cfg+"open-failure-paths", "", "paths on which the open under the lock fails were found", "none found")
}

// R14l: elements that the code itself sets to nil.  findMissingLocalCAS clears the digests it
// found (blobs[i] = nil); whoever walks such a slice afterwards must test the element before it
// dereferences it (a nil *Digest dereference panics the handler, here while results of other
// requests are pending).
func nilledElements(c *Ctx) {
	R := c.R
	R.Rule("R14l", "E2", "elements a callee may have set to nil are tested before they are dereferenced: after a call to a function that assigns nil to elements of a slice parameter, x[i].f on that slice is dominated by x[i] != nil", 1)
	// callees that nil elements of a slice parameter
	nils := map[string]int{}
	for _, fi := range c.P.FuncsInPkg("/cache/disk") {
		if fi.Decl.Body == nil || strings.HasSuffix(c.P.Fset.Position(fi.Decl.Pos()).Filename, "_test.go") {
			continue
		}
		info := fi.Pkg.TypesInfo
		ast.Inspect(fi.Decl.Body, func(n ast.Node) bool {
			as, ok := n.(*ast.AssignStmt)
			if !ok || len(as.Lhs) != 1 || len(as.Rhs) != 1 || !isNilIdent(info, as.Rhs[0]) {
				return true
			}
			if ix, ok := ast.Unparen(as.Lhs[0]).(*ast.IndexExpr); ok {
				for i := 0; ; i++ {
					po := paramObj(fi, i)
					if po == nil {
						break
					}
					if identObj(info, ix.X) == po {
						nils[fi.Key] = i
					}
				}
			}
			return true
		})
	}
	R.Check(len(nils) > 0, "R14l", c.Cfg+"nil-ing-callees", "", "functions that clear elements of a slice parameter were found (findMissingLocalCAS)", "none found")
	n := 0
	for _, fi := range c.P.FuncsInPkg("/cache/disk") {
		if fi.Decl.Body == nil || strings.HasSuffix(c.P.Fset.Position(fi.Decl.Pos()).Filename, "_test.go") {
			continue
		}
		calls := false
		for _, call := range callsIn(fi.Decl.Body, true) {
			if _, ok := nils[calleeKey(fi.Pkg.TypesInfo, call)]; ok {
				calls = true
			}
		}
		if !calls {
			continue
		}
		key := fi.Key
		var b *Base
		b = NewBase(Hooks{
			EveryCall: func(x *Exec, call *ast.CallExpr, s St) []St {
				if k, ok := nils[calleeKey(x.Fn.Info, call)]; ok && k < len(call.Args) {
					if t, ok := b.Term(x, call.Args[k], s); ok {
						s = s.Set("nilled:"+t, "1")
					}
				}
				return []St{s}
			},
			Observe: func(x *Exec, e ast.Expr, s St) {
				sel, ok := e.(*ast.SelectorExpr)
				if !ok {
					return
				}
				ix, ok := ast.Unparen(sel.X).(*ast.IndexExpr)
				if !ok {
					return
				}
				if _, isPtr := x.Fn.Info.TypeOf(ix).(*types.Pointer); !isPtr {
					return
				}
				bt, ok := b.Term(x, ix.X, s)
				if !ok || s.Get("nilled:"+bt) != "1" {
					return
				}
				n++
				et, _ := b.Term(x, ix, s)
				R.Check(s.Get("n:"+et) == "nonnil", "R14l", fmt.Sprintf("%s%s:%s", c.Cfg, key, strings.ReplaceAll(exprStr(sel), " ", "")), c.P.Pos(sel.Pos()),
					"the element is known to be non-nil where it is dereferenced", exprStr(sel)+": the element may have been set to nil by the callee that cleared the digests it found; dereferencing it panics", x.Trace()...)
			},
		})
		b.H.Call = errFork(b)
		x := NewExec(c.P.FlowOf(fi), b)
		x.Run(newSt())
		if x.Aborted != "" {
			R.Fail("R14l", c.Cfg+key+":explore", "", "exploration did not complete: "+x.Aborted)
		}
	}
	R.Check(n > 0, "R14l", c.Cfg+"dereference-sites", "", "dereferences of possibly cleared elements were analysed", "none found")
}

// proxyCallGuards (part of R18d): every call of the backend's Get / Contains anywhere in
// cache/disk is made for a requested size that was compared with max_proxy_blob_size on that path.
// The queue worker is the one exception: it only receives requests that the sender guarded (R10b).
func proxyCallGuards(c *Ctx) {
	R := c.R
	n := 0
	for _, fi := range c.P.FuncsInPkg("/cache/disk") {
		if fi.Decl.Body == nil || strings.HasSuffix(c.P.Fset.Position(fi.Decl.Pos()).Filename, "_test.go") {
			continue
		}
		has := false
		for _, call := range callsIn(fi.Decl.Body, true) {
			if k := calleeKey(fi.Pkg.TypesInfo, call); k == "cache.(Proxy).Contains" || k == "cache.(Proxy).Get" {
				has = true
			}
		}
		if !has {
			continue
		}
		key := fi.Key
		if isQueueWorker(c, fi, 0) {
			n++
			R.OK("R18d", c.Cfg+key+":proxy-call-guarded", c.P.Pos(fi.Decl.Pos()), "the queue worker asks the backend only about requests the sender put on the queue under the size guard (R10b)")
			continue
		}
		var b *Base
		b = NewBase(Hooks{EveryCall: func(x *Exec, call *ast.CallExpr, s St) []St {
			k := calleeKey(x.Fn.Info, call)
			if (k != "cache.(Proxy).Contains" && k != "cache.(Proxy).Get") || len(call.Args) < 4 {
				return []St{s}
			}
			n++
			t, ok := b.VTerm(x, call.Args[3], s)
			guarded := ok && (relIs(s, "$recv.maxProxyBlobSize", "<", t, false) || relIs(s, t, "<=", "$recv.maxProxyBlobSize", true))
			R.Check(guarded, "R18d", fmt.Sprintf("%s%s:%s#%d:proxy-call-guarded", c.Cfg, key, k[strings.LastIndex(k, ".")+1:], callOrdinal(x, call)), c.P.Pos(call.Pos()),
				"the backend is asked only for a requested size that is <= max_proxy_blob_size on this path",
				"the backend is consulted for "+exprStr(call.Args[3])+" without the max_proxy_blob_size guard on the requested size: an oversize object can be served, cached or reported present on the strength of the backend", x.Trace()...)
			return []St{s}
		}})
		b.H.Call = errFork(b)
		b.InlineOwnHelpers()
		x := NewExec(c.P.FlowOf(fi), b)
		x.Run(newSt())
		if x.Aborted != "" {
			R.Fail("R18d", c.Cfg+key+":proxy-call-guarded:explore", "", "exploration did not complete: "+x.Aborted)
		}
	}
	R.Check(n >= 3, "R18d", c.Cfg+"proxy-call-sites", "", "the backend Get / Contains call sites of cache/disk were analysed", fmt.Sprintf("found %d", n))
}

// isQueueWorker: fi drains the backend-check queue (it ranges over / receives from the containsQueue
// field), or is only ever called from such a function (a helper split off the worker).
func isQueueWorker(c *Ctx, fi *FuncInfo, depth int) bool {
	info := fi.Pkg.TypesInfo
	drains := false
	ast.Inspect(fi.Decl.Body, func(n ast.Node) bool {
		switch n := n.(type) {
		case *ast.RangeStmt:
			if sel, ok := ast.Unparen(n.X).(*ast.SelectorExpr); ok && fieldOf(info, sel) == "disk.diskCache.containsQueue" {
				drains = true
			}
		case *ast.UnaryExpr:
			if n.Op == token.ARROW {
				if sel, ok := ast.Unparen(n.X).(*ast.SelectorExpr); ok && fieldOf(info, sel) == "disk.diskCache.containsQueue" {
					drains = true
				}
			}
		}
		return true
	})
	if drains {
		return true
	}
	if depth > 2 {
		return false
	}
	callers := 0
	for _, g := range c.P.FuncsInPkg("/cache/disk") {
		if g.Decl.Body == nil || g == fi || strings.HasSuffix(c.P.Fset.Position(g.Decl.Pos()).Filename, "_test.go") {
			continue
		}
		for _, call := range callsIn(g.Decl.Body, true) {
			if calleeKey(g.Pkg.TypesInfo, call) == fi.Key {
				callers++
				if !isQueueWorker(c, g, depth+1) {
					return false
				}
			}
		}
	}
	return callers > 0
}
