package main

// R07a lockset / R07b nothing blocking under the mutex, over every method of
// diskCache and metricsDecorator (and the function literals inside them).

import (
	"fmt"
	"go/ast"
	"go/types"
	"sort"
	"strings"
)

// SizedLRU methods that read or write index state and therefore need c.mu.
// Derived from the type on every run: every method of SizedLRU except the
// frozen exceptions below.
var lruNoLockNeeded = map[string]string{
	"MaxSize":                            "reads an immutable field",
	"RegisterMetrics":                    "start-up only, before serving",
	"performQueuedEvictions":             "documented lock-free: channel + atomic only (checked by R07a-remover)",
	"performQueuedEvictionsContinuously": "documented lock-free: channel + atomic only",
}

// Functions of diskCache that run before the cache is shared.
var startupFuncs = map[string]string{
	"disk.(*diskCache).loadExistingFiles": "runs in New before the cache is returned",
	"disk.(*diskCache).scanDir":           "runs in New before the cache is returned",
	"disk.(*diskCache).migrateDirectories": "runs in New before the cache is returned",
}

func blockingCallee(name string) string {
	switch {
	case name == "golang.org/x/sync/semaphore.(Weighted).Acquire":
		return "diskWaitSem.Acquire (lock order: diskWaitSem before mu)"
	case strings.HasPrefix(name, modPath+"/cache.(Proxy)."):
		return "proxy backend call"
	case name == "io.Copy" || name == "io.ReadAll" || name == "io.ReadFull":
		return "stream I/O"
	case name == "os.Open" || name == "os.OpenFile" || name == "os.Remove" || name == "os.RemoveAll" || name == "os.Rename" || name == "os.ReadDir" || name == "os.Stat":
		return "file-system call"
	case strings.HasPrefix(name, modPath+"/cache/disk/casblob."):
		return "casblob I/O"
	case name == modPath+"/utils/tempfile.(Creator).Create":
		return "temp file creation"
	case name == "time.Sleep" || name == "sync.(WaitGroup).Wait":
		return "sleep/wait"
	}
	return ""
}

func lockRules(c *Ctx) {
	R := c.R
	R.Rule("R07a", "E2", "lockset: every SizedLRU index method is called with c.mu held; Lock/Unlock are balanced on every path; no function returns holding c.mu; no path locks twice", 20)
	R.Rule("R07b", "E2+E4", "no blocking call (semaphore, proxy, file system, casblob, stream copy, channel send on containsQueue, a callee that itself locks c.mu) while c.mu is held", 6)
	pkg := c.P.Pkg("/cache/disk")
	if pkg == nil {
		R.Fail("R07a", "anchor:cache/disk", "", "package cache/disk does not load")
		return
	}
	// methods of SizedLRU needing the lock
	need := map[string]bool{}
	if o := pkg.Types.Scope().Lookup("SizedLRU"); o != nil {
		if n, ok := o.Type().(*types.Named); ok {
			for i := 0; i < n.NumMethods(); i++ {
				m := n.Method(i)
				if _, skip := lruNoLockNeeded[m.Name()]; !skip {
					need[funcKey(m)] = true
				}
			}
		}
	}
	if len(need) < 10 {
		R.Fail("R07a", "anchor:SizedLRU", "", fmt.Sprintf("only %d SizedLRU methods found", len(need)))
	}
	// functions that acquire c.mu (directly or through same-receiver callees)
	var fns []*FuncInfo
	for _, fi := range c.P.FuncsInPkg("/cache/disk") {
		if strings.HasPrefix(fi.Key, "disk.(*diskCache).") || strings.HasPrefix(fi.Key, "disk.(*metricsDecorator).") {
			fns = append(fns, fi)
		}
	}
	acquires := map[string]bool{}
	isMuCall := func(info *types.Info, call *ast.CallExpr, method string) bool {
		if fullCalleeName(info, call) != "sync.(Mutex)."+method {
			return false
		}
		sel, ok := call.Fun.(*ast.SelectorExpr)
		if !ok {
			return false
		}
		inner, ok := ast.Unparen(sel.X).(*ast.SelectorExpr)
		return ok && fieldOf(info, inner) == "disk.diskCache.mu"
	}
	for changed := true; changed; {
		changed = false
		for _, fi := range fns {
			if acquires[fi.Key] {
				continue
			}
			for _, call := range callsIn(fi.Decl.Body, true) {
				if isMuCall(fi.Pkg.TypesInfo, call, "Lock") || acquires[calleeKey(fi.Pkg.TypesInfo, call)] {
					acquires[fi.Key] = true
					changed = true
					break
				}
			}
		}
	}
	// interface methods of disk.Cache implemented by diskCache also acquire
	for k := range acquires {
		if i := strings.LastIndex(k, "."); i > 0 {
			acquires["disk.(Cache)"+k[i:]] = acquires["disk.(Cache)"+k[i:]] || strings.HasPrefix(k, "disk.(*diskCache).")
		}
	}
	R.Count("diskCache/metricsDecorator methods analysed for lock discipline", len(fns))
	R.Count("methods that acquire c.mu (summary)", len(acquires))

	frozenUnderLock := map[string]string{
		"disk.(*diskCache).updateCacheAgeMetric:github.com/djherbis/atime.Stat": "stats one file under the lock once a minute (bounded, cannot wait on a request)",
		"disk.(*diskCache).availableOrTryProxy:os.Open":                         "slow path after ENOENT: re-lookup and open(2) under the lock by design so that the entry cannot be replaced in between; open does not wait on any request",
	}

	for _, fi := range fns {
		fi := fi
		startup := startupFuncs[fi.Key] != ""
		ord := &ordinals{}
		var base *Base
		base = NewBase(Hooks{
			EveryCall: func(x *Exec, call *ast.CallExpr, s St) []St {
				info := x.Fn.Info
				locked := s.Get("mu") == "L"
				key := calleeKey(info, call)
				full := fullCalleeName(info, call)
				site := fmt.Sprintf("%s:%s", fi.Key, key)
				if isMuCall(info, call, "Lock") || isMuCall(info, call, "Unlock") {
					return []St{s}
				}
				if need[key] && !startup {
					R.Check(locked, "R07a", c.Cfg+site+":locked", c.P.Pos(call.Pos()), "SizedLRU."+key[strings.LastIndex(key, ".")+1:]+" is called with c.mu held on every path",
						"index method reachable without c.mu (unsynchronised access to the LRU index)", x.Trace()...)
				}
				if locked {
					if reason, ok := frozenUnderLock[fi.Key+":"+full]; ok {
						R.OK("R07b", c.Cfg+site+":frozen-exception", c.P.Pos(call.Pos()), "frozen exception: "+reason)
					} else if why := blockingCallee(full); why != "" {
						R.Fail("R07b", c.Cfg+site+":blocking-locked", c.P.Pos(call.Pos()), "no "+why+" while c.mu is held", x.Trace()...)
					}
					if acquires[key] {
						R.Fail("R07b", c.Cfg+site+":relock", c.P.Pos(call.Pos()), "no callee that itself locks c.mu is called while c.mu is held (self-deadlock)", x.Trace()...)
					}
				} else if why := blockingCallee(full); why != "" {
					R.OK("R07b", c.Cfg+site+":blocking", c.P.Pos(call.Pos()), why+" happens outside the critical section")
				}
				return []St{s}
			},
			Call: func(x *Exec, call *ast.CallExpr, lhs []ast.Expr, s St) ([]St, bool) {
				info := x.Fn.Info
				if isMuCall(info, call, "Lock") {
					k := ord.next("Lock")
					_ = k
					R.Check(s.Get("mu") != "L", "R07a", c.Cfg+fi.Key+":Lock@"+lockSite(x, call)+":nodouble", c.P.Pos(call.Pos()), "c.mu is not already held when it is locked",
						"c.mu.Lock() reachable with c.mu already held (self-deadlock)", x.Trace()...)
					return []St{s.Set("mu", "L")}, true
				}
				if isMuCall(info, call, "Unlock") {
					R.Check(s.Get("mu") == "L", "R07a", c.Cfg+fi.Key+":Unlock@"+lockSite(x, call)+":held", c.P.Pos(call.Pos()), "c.mu is held when it is unlocked",
						"c.mu.Unlock() reachable without holding c.mu (panic: unlock of unlocked mutex)", x.Trace()...)
					return []St{s.Set("mu", "")}, true
				}
				return nil, false
			},
			Stmt: func(x *Exec, n ast.Node, s St) ([]St, bool) {
				if snd, ok := n.(*ast.SendStmt); ok && s.Get("mu") == "L" {
					if sel, ok := ast.Unparen(snd.Chan).(*ast.SelectorExpr); ok && fieldOf(x.Fn.Info, sel) == "disk.diskCache.containsQueue" {
						R.Fail("R07b", c.Cfg+fi.Key+":send-containsQueue", c.P.Pos(snd.Pos()), "no send on containsQueue while c.mu is held", x.Trace()...)
					}
				}
				return nil, false
			},
			Exit: func(x *Exec, ret *ast.ReturnStmt, s St) {
				key := "end"
				pos := c.P.Pos(x.Fn.Body.Rbrace)
				if ret != nil {
					key = fmt.Sprintf("return#%d", returnOrdinal(x.Fn, ret))
					pos = c.P.Pos(ret.Pos())
				}
				R.Check(s.Get("mu") != "L", "R07a", c.Cfg+x.Fn.Name+":"+key+":unlocked", pos, "c.mu is not held when the function returns",
					"function can return with c.mu held (every later request deadlocks)", x.Trace()...)
			},
		})
		fl := c.P.FlowOf(fi)
		x := NewExec(fl, base)
		x.Run(newSt())
		if x.Aborted != "" {
			R.Fail("R07a", c.Cfg+fi.Key+":explore", "", "exploration did not complete: "+x.Aborted)
		}
		R.Count("abstract states explored (lockset)", x.stats.States)
		// non-deferred function literals run with the mutex not held
		var lits []*ast.FuncLit
		deferred := map[*ast.FuncLit]bool{}
		ast.Inspect(fi.Decl.Body, func(n ast.Node) bool {
			if d, ok := n.(*ast.DeferStmt); ok {
				if l, ok := d.Call.Fun.(*ast.FuncLit); ok {
					deferred[l] = true
				}
			}
			if l, ok := n.(*ast.FuncLit); ok {
				lits = append(lits, l)
			}
			return true
		})
		sort.Slice(lits, func(i, j int) bool { return lits[i].Pos() < lits[j].Pos() })
		for _, l := range lits {
			if deferred[l] {
				continue
			}
			y := NewExec(enclosingLit(fl, l), base)
			y.Run(newSt())
			R.Count("abstract states explored (lockset)", y.stats.States)
		}
	}
}

func enclosingLit(fl *FlowFn, l *ast.FuncLit) *FlowFn {
	// find the innermost FlowFn that directly contains l
	cur := fl
	for {
		var next *ast.FuncLit
		ast.Inspect(cur.Body, func(n ast.Node) bool {
			if next != nil {
				return false
			}
			if m, ok := n.(*ast.FuncLit); ok {
				if m == l {
					return false
				}
				if m.Pos() <= l.Pos() && l.End() <= m.End() {
					next = m
				}
				return false
			}
			return true
		})
		if next == nil {
			return cur.Lit(l)
		}
		cur = cur.Lit(next)
	}
}

func lockSite(x *Exec, call *ast.CallExpr) string {
	fn := x.Fn
	n := 0
	root := fn
	for root.Outer != nil {
		root = root.Outer
	}
	name := fullCalleeName(fn.Info, call)
	ast.Inspect(root.Body, func(m ast.Node) bool {
		if c, ok := m.(*ast.CallExpr); ok && c.Pos() <= call.Pos() && fullCalleeName(root.Info, c) == name {
			n++
		}
		return true
	})
	return fmt.Sprint(n)
}
