package main

// E3/E4 support: go/ssa program and call graphs, built lazily.

import (
	"golang.org/x/tools/go/callgraph"
	"golang.org/x/tools/go/callgraph/cha"
	"golang.org/x/tools/go/callgraph/vta"
	"golang.org/x/tools/go/packages"
	"golang.org/x/tools/go/ssa"
	"golang.org/x/tools/go/ssa/ssautil"
)

type ssaProg struct {
	Prog *ssa.Program
	Pkgs []*ssa.Package
	cg   *callgraph.Graph
}

func (p *Prog) SSA() *ssaProg {
	if p.ssa != nil {
		return p.ssa
	}
	all := []*packages.Package{}
	all = append(all, p.Pkgs...)
	prog, pkgs := ssautil.AllPackages(all, ssa.InstantiateGenerics)
	prog.Build()
	p.ssa = &ssaProg{Prog: prog, Pkgs: pkgs}
	return p.ssa
}

// VTA returns the VTA call graph (over a CHA seed) of the whole program.
func (s *ssaProg) VTA() *callgraph.Graph {
	if s.cg == nil {
		fns := ssautil.AllFunctions(s.Prog)
		s.cg = vta.CallGraph(fns, cha.CallGraph(s.Prog))
	}
	return s.cg
}

// FuncByKey finds the ssa.Function of a source function.
func (s *ssaProg) Func(fi *FuncInfo) *ssa.Function {
	return s.Prog.FuncValue(fi.Obj)
}
