package main

// Read-side and protocol rules:
//   C02: R02a read_limit, R02b empty blob, R02c encoding label
//   C06: R06a digest coverage, R06b check decides, R06c miss mapping, R06d/e
//   C10: R10a..R10g FindMissingBlobs
//   C15: R15b..R15e key spaces, mangling, key validation
//   C16: R16a..R16d ByteStream.Write protocol
//   C18: R18b..R18d size limits

import (
	"fmt"
	"go/ast"
	"go/token"
	"go/types"
	"sort"
	"strings"
)

const emptyShaLit = `"e3b0c44298fc1c149afbf4c8996fb92427ae41e4649b934ca495991b7852b855"`

func hasEmptyShaAtom(s St, val string) bool {
	for k, v := range s.m {
		if strings.HasPrefix(k, "p:#"+emptyShaLit+"==") && v == val {
			return true
		}
	}
	return false
}

// errFork is the usual treatment of calls whose last result is an error.
func errFork(b *Base) func(x *Exec, call *ast.CallExpr, lhs []ast.Expr, s St) ([]St, bool) {
	return func(x *Exec, call *ast.CallExpr, lhs []ast.Expr, s St) ([]St, bool) {
		if nonNilCall(x.Fn.Info, call) || b.Inline[calleeKey(x.Fn.Info, call)] {
			return nil, false // constructors of errors never fail; inlined callees are interpreted
		}
		if b.AutoInline != nil {
			if f := Callee(x.Fn.Info, call); f != nil {
				if fi := x.Fn.P.FuncOf(f); fi != nil && fi.Decl.Body != nil && b.autoInline(x, fi) {
					return nil, false
				}
			}
		}
		if len(lhs) >= 1 {
			if tv := x.Fn.Info.TypeOf(lhs[len(lhs)-1]); tv != nil && tv.String() == "error" {
				return b.ForkErr(x, lhs, len(lhs)-1, s, nil, nil), true
			}
		}
		return nil, false
	}
}

// ---------- C02 ----------

func readRules(c *Ctx) {
	R := c.R
	R.Rule("R02a", "E2", "read_limit is never exceeded: every Send in the read loop is dominated, when a limit applies, by the test sendLimitRemaining - n < 0 (error return) and the remaining budget is decreased by the same n that is sent", 2)
	R.Rule("R02b", "E2+E4", "the empty blob needs no storage: Get/GetZstd/Contains answer the empty SHA-256 before any index lookup, FindMissing skips it, and the gRPC readers answer size 0 without touching the cache", 12)
	R.Rule("R02c", "E3", "encoding label = encoding delivered: Compressor_ZSTD / Content-Encoding: zstd is set exactly on the paths whose bytes came from Cache.GetZstd", 4)

	if fi := c.P.MustFunc(R, "R02a", "server.(*grpcServer).Read"); fi != nil {
		info := fi.Pkg.TypesInfo
		// locals by role: the request is the first parameter; the budget is the local assigned from
		// its ReadLimit field; the switch is the bool local whose definition tests ReadLimit
		reqObj := paramObj(fi, 0)
		isReadLimit := func(e ast.Expr) bool {
			sel, ok := ast.Unparen(e).(*ast.SelectorExpr)
			return ok && sel.Sel.Name == "ReadLimit" && reqObj != nil && identObj(info, sel.X) == reqObj
		}
		var limObj, budgetObj types.Object
		limDefOK := false
		ast.Inspect(fi.Decl.Body, func(n ast.Node) bool {
			as, ok := n.(*ast.AssignStmt)
			if !ok || len(as.Lhs) != 1 || len(as.Rhs) != 1 {
				return true
			}
			o := identObj(info, as.Lhs[0])
			if o == nil {
				return true
			}
			if isReadLimit(as.Rhs[0]) {
				budgetObj = o
			}
			if isBoolType(o.Type()) {
				neq0, identity := false, false
				ast.Inspect(as.Rhs[0], func(m ast.Node) bool {
					if be, ok := m.(*ast.BinaryExpr); ok {
						l, r := be.X, be.Y
						if isReadLimit(r) {
							l, r = r, l
						}
						if k, isC := constInt(info, r); isReadLimit(l) && isC && k == 0 && be.Op == token.NEQ {
							neq0 = true
						}
						if be.Op == token.EQL {
							for _, side := range []ast.Expr{be.X, be.Y} {
								if sel, ok := ast.Unparen(side).(*ast.SelectorExpr); ok && sel.Sel.Name == "Identity" {
									identity = true
								}
							}
						}
					}
					return true
				})
				if neq0 {
					limObj = o
					limDefOK = identity
				}
			}
			return true
		})
		var base *Base
		nsend := 0
		// the test that a chunk of n bytes fits the remaining budget b, in any spelling:
		// (b - n) < 0, n > b, b < n  (all mean "does not fit")
		fitTest := func(x *Exec, cond ast.Expr, s St) (string, string, bool) {
			be, ok := ast.Unparen(cond).(*ast.BinaryExpr)
			if !ok {
				return "", "", false
			}
			if k, isC := constInt(x.Fn.Info, be.Y); isC && k == 0 && be.Op == token.LSS {
				if sub, ok := ast.Unparen(be.X).(*ast.BinaryExpr); ok && sub.Op == token.SUB {
					lt, ok1 := base.Term(x, sub.X, s)
					nt, ok2 := base.Term(x, sub.Y, s)
					return lt, nt, ok1 && ok2
				}
				return "", "", false
			}
			var bE, nE ast.Expr
			switch be.Op {
			case token.GTR:
				nE, bE = be.X, be.Y
			case token.LSS:
				bE, nE = be.X, be.Y
			default:
				return "", "", false
			}
			lt, ok1 := base.Term(x, bE, s)
			nt, ok2 := base.Term(x, nE, s)
			if !ok1 || !ok2 || budgetObj == nil || lt != objID(budgetObj) {
				return "", "", false
			}
			return lt, nt, true
		}
		base = NewBase(Hooks{
			Cond: func(x *Exec, cond ast.Expr, truth bool, s St) ([]St, bool) {
				if lt, nt, ok := fitTest(x, cond, s); ok {
					if truth {
						return []St{s}, true
					}
					return []St{s.Set("limitok", lt+"|"+nt)}, true
				}
				return nil, false
			},
			PreAssign: func(x *Exec, as *ast.AssignStmt, s St) St {
				if as.Tok == token.SUB_ASSIGN && len(as.Lhs) == 1 {
					lt, ok1 := base.Term(x, as.Lhs[0], s)
					nt, ok2 := base.Term(x, as.Rhs[0], s)
					if ok1 && ok2 && s.Get("limitok") == lt+"|"+nt {
						s = s.Set("deducted", nt)
					}
				}
				if len(as.Lhs) == 1 {
					if sel, ok := ast.Unparen(as.Lhs[0]).(*ast.SelectorExpr); ok && sel.Sel.Name == "Data" {
						// chunkResp.Data = buf[:n]
						if se, ok := ast.Unparen(as.Rhs[0]).(*ast.SliceExpr); ok && se.High != nil {
							if nt, ok := base.Term(x, se.High, s); ok {
								s = s.Set("sendn", nt)
							}
						}
					}
				}
				return s
			},
			Assign: func(x *Exec, as *ast.AssignStmt, s St) []St {
				// n, err := rc.Read(buf): a new chunk
				if len(as.Rhs) == 1 {
					if call, ok := as.Rhs[0].(*ast.CallExpr); ok && len(as.Lhs) == 2 {
						if sel, ok := call.Fun.(*ast.SelectorExpr); ok && sel.Sel.Name == "Read" {
							s = s.Set("limitok", "").Set("deducted", "").Set("sendn", "")
						}
					}
				}
				return []St{s}
			},
			EveryCall: func(x *Exec, call *ast.CallExpr, s St) []St {
				sel, ok := call.Fun.(*ast.SelectorExpr)
				if !ok || sel.Sel.Name != "Send" || !inLoopStmt(x.Fn.Body, call) {
					return []St{s}
				}
				if t := x.Fn.Info.TypeOf(sel.X); t == nil || !strings.HasSuffix(t.String(), "ByteStream_ReadServer") {
					return []St{s}
				}
				nsend++
				lim := ""
				if limObj != nil {
					lim = s.Get("b:" + objID(limObj))
				}
				n := s.Get("sendn")
				ok = lim == "false" || (s.Get("deducted") != "" && s.Get("deducted") == n && strings.HasSuffix(s.Get("limitok"), "|"+n))
				R.Check(ok, "R02a", c.Cfg+"server.(*grpcServer).Read:loop-send", c.P.Pos(call.Pos()), "with a read limit, the chunk sent was first tested against and deducted from the remaining budget",
					fmt.Sprintf("a chunk can be sent without the limit test / deduction (limited=%s tested=%q deducted=%q sent=%q)", lim, s.Get("limitok"), s.Get("deducted"), n), x.Trace()...)
				return []St{s}
			},
		})
		base.InlineOwnHelpers()
		x := NewExec(c.P.FlowOf(fi), base)
		x.Run(newSt())
		R.Check(nsend > 0, "R02a", c.Cfg+"server.(*grpcServer).Read:has-send", "", "the read loop's Send was found", "no Send in a loop found")
		R.Check(limObj != nil && limDefOK && budgetObj != nil, "R02a", c.Cfg+"server.(*grpcServer).Read:limit-definitions", c.P.Pos(fi.Decl.Pos()), "the limit applies iff read_limit != 0 on an identity read, with read_limit as the budget", "the limit switch / the budget are not defined from the request's ReadLimit as expected")
	}

	// R02b (disk): the empty-blob shortcut is a guard made of nothing but the
	// three tests (kind == CAS, size <= 0 / == 0, hash == emptySha256); its true
	// branch answers positively without an index lookup, and every index
	// lookup is reached only through its false branch.
	for _, key := range []string{kGet, "disk.(*diskCache).Contains", "disk.(*diskCache).findMissingLocalCAS"} {
		fi := c.P.MustFunc(R, "R02b", key)
		if fi == nil {
			continue
		}
		var base *Base
		shortcut, lookups := 0, 0
		base = NewBase(Hooks{
			Cond: func(x *Exec, cond ast.Expr, truth bool, s St) ([]St, bool) {
				conj := flattenAnd(cond)
				hasEmpty, pure := false, true
				for _, cj := range conj {
					switch classifyEmptyConjunct(x.Fn.Info, cj) {
					case "hash":
						hasEmpty = true
					case "kind", "size":
					default:
						pure = false
					}
				}
				if !hasEmpty {
					return nil, false
				}
				outs := base.refineNoHook(x, cond, truth, s)
				for i := range outs {
					if truth {
						outs[i] = outs[i].Set("emptyIs", "1")
					} else if pure {
						outs[i] = outs[i].Set("emptyExcl", "1")
					}
				}
				return outs, true
			},
			EveryCall: func(x *Exec, call *ast.CallExpr, s St) []St {
				k := calleeKey(x.Fn.Info, call)
				if k == "disk.(*SizedLRU).Get" || k == kAvail {
					lookups++
					R.Check(s.Get("emptyExcl") == "1", "R02b", fmt.Sprintf("%s%s:%s#%d:not-empty", c.Cfg, key, k[strings.LastIndex(k, ".")+1:], callOrdinal(x, call)), c.P.Pos(call.Pos()),
						"the index is consulted only after the empty-blob shortcut (kind == CAS, size <= 0, hash == emptySha256 and nothing else) was found not to apply",
						"the empty blob can reach the index lookup: the shortcut is missing or carries an additional condition", x.Trace()...)
					return []St{s.Set("looked", "1")}
				}
				return []St{s}
			},
			PreAssign: func(x *Exec, as *ast.AssignStmt, s St) St {
				// findMissingLocalCAS: blobs[i] = nil on the shortcut
				if s.Get("emptyIs") == "1" && s.Get("looked") == "" && len(as.Rhs) == 1 && exprStr(as.Rhs[0]) == "nil" {
					if _, ok := ast.Unparen(as.Lhs[0]).(*ast.IndexExpr); ok {
						shortcut++
					}
				}
				return s
			},
			Exit: func(x *Exec, ret *ast.ReturnStmt, s St) {
				if s.Get("emptyIs") == "1" && s.Get("looked") == "" && ret != nil && len(ret.Results) > 0 {
					r0 := exprStr(ret.Results[0])
					if (key == kGet && strings.HasPrefix(r0, "io.NopCloser")) || (key != kGet && r0 == "true") {
						shortcut++
					}
				}
			},
		})
		x := NewExec(c.P.FlowOf(fi), base)
		x.Run(newSt())
		R.Check(shortcut > 0, "R02b", c.Cfg+key+":empty-shortcut", c.P.Pos(fi.Decl.Pos()), key+" answers the empty blob (hash == emptySha256) positively before any index lookup", "no positive answer for the empty SHA-256 that precedes the index lookup was found")
		R.Check(lookups > 0, "R02b", c.Cfg+key+":lookups", c.P.Pos(fi.Decl.Pos()), "the index lookups of "+key+" were found", "no index lookup found")
	}
	for _, key := range []string{"server.(*grpcServer).getBlobData", "server.(*grpcServer).Read"} {
		fi := c.P.MustFunc(R, "R02b", key)
		if fi == nil {
			continue
		}
		var base *Base
		n := 0
		base = NewBase(Hooks{Call: nil, EveryCall: func(x *Exec, call *ast.CallExpr, s St) []St {
			k := calleeKey(x.Fn.Info, call)
			if k == "disk.(Cache).Get" || k == "disk.(Cache).GetZstd" {
				n++
				sz := ""
				for kk, v := range s.m {
					if strings.HasPrefix(kk, "p:#0==size@") {
						sz = v
					}
				}
				R.Check(sz == "F", "R02b", fmt.Sprintf("%s%s:%s#%d:size-nonzero", c.Cfg, key, k[strings.LastIndex(k, ".")+1:], callOrdinal(x, call)), c.P.Pos(call.Pos()),
					"the cache is consulted only for size != 0 (size 0 is answered locally)", "a zero-size read can reach the cache", x.Trace()...)
			}
			return []St{s}
		}})
		base.H.Call = errFork(base)
		x := NewExec(c.P.FlowOf(fi), base)
		x.Run(newSt())
		R.Check(n > 0, "R02b", c.Cfg+key+":cache-reads", "", "cache reads found in "+key, "none found")
	}

	// R02c
	if fi := c.P.MustFunc(R, "R02c", "server.(*grpcServer).getBlobResponse"); fi != nil {
		var base *Base
		n := 0
		base = NewBase(Hooks{
			EveryCall: func(x *Exec, call *ast.CallExpr, s St) []St {
				switch calleeKey(x.Fn.Info, call) {
				case "disk.(Cache).GetZstd":
					return []St{s.Set("src", "zstd")}
				case "server.(*grpcServer).getBlobData", "disk.(Cache).Get":
					return []St{s.Set("src", "identity")}
				}
				return []St{s}
			},
			PreAssign: func(x *Exec, as *ast.AssignStmt, s St) St {
				for i, l := range as.Lhs {
					if strings.HasSuffix(exprStr(l), ".Compressor") && i < len(as.Rhs) {
						n++
						want := map[string]string{"pb.Compressor_ZSTD": "zstd", "pb.Compressor_IDENTITY": "identity"}[exprStr(as.Rhs[i])]
						R.Check(want != "" && s.Get("src") == want, "R02c", fmt.Sprintf("%sgetBlobResponse:label:%s", c.Cfg, exprStr(as.Rhs[i])), c.P.Pos(as.Pos()),
							"the compressor label "+exprStr(as.Rhs[i])+" is set on the path whose data came from the matching cache call", "label "+exprStr(as.Rhs[i])+" on a path whose data source is "+s.Get("src"), x.Trace()...)
					}
				}
				return s
			},
		})
		base.H.Call = errFork(base)
		// helpers split off getBlobResponse are interpreted in place (getBlobData is a data source
		// the rule models itself)
		base.AutoInline = localHelpers(c.P, "/server", "server.(*grpcServer).getBlobData")
		x := NewExec(c.P.FlowOf(fi), base)
		x.Run(newSt())
		R.Check(n >= 2, "R02c", c.Cfg+"getBlobResponse:labels", "", "both compressor labels are assigned", fmt.Sprintf("found %d", n))
	}
	if fi := c.P.MustFunc(R, "R02c", "server.(*httpCache).CacheHandler"); fi != nil {
		var base *Base
		ncopy := 0
		base = NewBase(Hooks{
			EveryCall: func(x *Exec, call *ast.CallExpr, s St) []St {
				info := x.Fn.Info
				switch calleeKey(info, call) {
				case "disk.(Cache).GetZstd":
					return []St{s.Set("src", "zstd")}
				case "disk.(Cache).Get":
					return []St{s.Set("src", "identity")}
				}
				full := fullCalleeName(info, call)
				if full == "net/http.(Header).Set" && len(call.Args) == 2 {
					if k, _ := constString(info, call.Args[0]); k == "Content-Encoding" {
						v, _ := constString(info, call.Args[1])
						return []St{s.Set("ce", v)}
					}
				}
				if full == "io.Copy" && len(call.Args) == 2 && strings.HasSuffix(info.TypeOf(call.Args[0]).String(), "net/http.ResponseWriter") && s.Get("src") != "" {
					ncopy++
					ok := (s.Get("src") == "zstd") == (s.Get("ce") == "zstd")
					R.Check(ok, "R02c", c.Cfg+"CacheHandler:GET:content-encoding", c.P.Pos(call.Pos()), "Content-Encoding: zstd is set exactly when the body comes from GetZstd", "body source "+s.Get("src")+" is sent with Content-Encoding "+s.Get("ce"), x.Trace()...)
				}
				return []St{s}
			},
		}, "server.parseRequestURL")
		base.InlineOwnHelpers()
		base.H.Call = errFork(base)
		x := NewExec(c.P.FlowOf(fi), base)
		x.Run(newSt())
		R.Check(ncopy > 0, "R02c", c.Cfg+"CacheHandler:GET:copies", "", "the GET body copy was found", "none found")
	}
	if fi := c.P.MustFunc(R, "R02c", "server.(*grpcServer).Read"); fi != nil {
		var base *Base
		sites := map[string]bool{}
		n := 0
		base = NewBase(Hooks{EveryCall: func(x *Exec, call *ast.CallExpr, s St) []St {
			k := calleeKey(x.Fn.Info, call)
			if k == "disk.(Cache).GetZstd" || k == "disk.(Cache).Get" {
				sites[k] = true
				n = len(sites)
				z := ""
				if ct, ok := base.Term(x, roleIdent(x, "cmp", "lhs:server.(*grpcServer).parseReadResource:2"), s); ok {
					if v, known := relLookup(s, "#1", "==", ct); known { // casblob.Zstandard == 1
						z = "F"
						if v {
							z = "T"
						}
					}
				}
				want := "F"
				if k == "disk.(Cache).GetZstd" {
					want = "T"
				}
				R.Check(z == want, "R02c", c.Cfg+"Read:"+k[strings.LastIndex(k, ".")+1:], c.P.Pos(call.Pos()), "compressed-blobs reads use GetZstd and blobs reads use Get", "the cache call does not match the resource's compressor", x.Trace()...)
			}
			return []St{s}
		}})
		base.H.Call = errFork(base)
		x := NewExec(c.P.FlowOf(fi), base)
		x.Run(newSt())
		R.Check(n == 2, "R02c", c.Cfg+"Read:cache-calls", "", "both cache calls of Read were found", fmt.Sprintf("found %d", n))
	}
}

// ---------- C06 ----------

func depRules(c *Ctx) {
	R := c.R
	R.Rule("R06a", "E3+E7", "digest coverage: every Digest-typed field reachable from ActionResult through OutputFile, OutputDirectory -> Tree -> Directory -> FileNode flows, in GetValidatedActionResult, into the list that is checked for presence or into the Get that fetches it (frozen exceptions listed)", 6)
	R.Rule("R06b", "E2", "the check decides the answer: the hit return is dominated by findMissingCasBlobsInternal(ctx, pendingValidations, failFast=true) returning nil; a missing blob maps to the miss result", 2)
	R.Rule("R06c", "E2", "miss mapping: GetActionResult answers NotFound for a nil result; the HTTP AC handlers answer 404 for nil data and write no 200 body before that test", 3)
	R.Rule("R06e", "E2", "who serves AC: with dependency checking / validation on, action-cache content reaches a client only through GetValidatedActionResult", 3)
	fi := c.P.MustFunc(R, "R06a", "disk.(*diskCache).GetValidatedActionResult")
	if fi == nil {
		return
	}
	info := fi.Pkg.TypesInfo
	// digest fields of the message types, from the generated Go types
	var digestPaths []string
	seenT := map[string]bool{}
	var walk func(t types.Type, path string)
	walk = func(t types.Type, path string) {
		for {
			if p, ok := t.(*types.Pointer); ok {
				t = p.Elem()
				continue
			}
			break
		}
		n, ok := t.(*types.Named)
		if !ok || !isProtoMsgStruct(n) {
			return
		}
		if seenT[n.Obj().Name()+"@"+path] || strings.Count(path, ".") > 6 {
			return
		}
		seenT[n.Obj().Name()+"@"+path] = true
		st := n.Underlying().(*types.Struct)
		for i := 0; i < st.NumFields(); i++ {
			f := st.Field(i)
			if !f.Exported() {
				continue
			}
			ft := f.Type()
			if sl, ok := ft.(*types.Slice); ok {
				ft = sl.Elem()
			}
			if isMsgPtr(ft) {
				en := ft.(*types.Pointer).Elem().(*types.Named).Obj().Name()
				if en == "Digest" {
					digestPaths = append(digestPaths, path+"."+f.Name())
				} else if en != n.Obj().Name() {
					walk(ft, path+"."+f.Name())
				}
			}
		}
	}
	arT := c.P.All[modPath+"/genproto/build/bazel/remote/execution/v2"]
	if arT == nil {
		R.Fail("R06a", c.Cfg+"anchor:genproto", "", "generated REAPI package not loaded")
		return
	}
	walk(arT.Types.Scope().Lookup("ActionResult").Type(), "ActionResult")
	walk(arT.Types.Scope().Lookup("Tree").Type(), "Tree")
	sort.Strings(digestPaths)
	// evidence in the function: appended / fetched expressions with the range they come from
	rangeOf := map[types.Object]ast.Expr{} // loop variable -> ranged expression
	for _, hb := range helperBodies(c, fi) {
		ast.Inspect(hb, func(n ast.Node) bool {
			if rs, ok := n.(*ast.RangeStmt); ok && rs.Value != nil {
				if o := identObj(info, rs.Value); o != nil {
					rangeOf[o] = rs.X
				}
			}
			return true
		})
	}
	// parameters of helpers split off the function stand for what the caller passes
	subst := map[types.Object]string{}
	evidence := map[string]bool{}
	// leftmost identifier of a selector / call chain
	var rootIdent func(e ast.Expr) *ast.Ident
	rootIdent = func(e ast.Expr) *ast.Ident {
		switch e := ast.Unparen(e).(type) {
		case *ast.Ident:
			return e
		case *ast.SelectorExpr:
			return rootIdent(e.X)
		case *ast.CallExpr:
			return rootIdent(e.Fun)
		}
		return nil
	}
	var resolve func(e ast.Expr) string
	resolve = func(e ast.Expr) string {
		s := strings.ReplaceAll(exprStr(e), " ", "")
		id := rootIdent(e)
		if id == nil {
			return s
		}
		if rx, ok := rangeOf[identObj(info, id)]; ok {
			rest := strings.TrimPrefix(s, id.Name)
			return "[" + resolve(rx) + "]" + rest
		}
		if v, ok := subst[identObj(info, id)]; ok {
			return v + strings.TrimPrefix(s, id.Name)
		}
		// name the root by its role (its type), not by what the code calls it
		if t := info.TypeOf(id); t != nil {
			ts := strings.TrimPrefix(t.String(), "*")
			switch {
			case strings.HasSuffix(ts, "execution/v2.ActionResult"):
				return "result" + strings.TrimPrefix(s, id.Name)
			case strings.HasSuffix(ts, "execution/v2.Tree"):
				return "tree" + strings.TrimPrefix(s, id.Name)
			}
		}
		return s
	}
	// the list that is handed to the presence check
	var pendObj types.Object
	for _, call := range callsIn(fi.Decl.Body, false) {
		if calleeKey(info, call) == "disk.(*diskCache).findMissingCasBlobsInternal" && len(call.Args) == 3 {
			pendObj = identObj(info, call.Args[1])
		}
	}
	pendAlias := map[types.Object]bool{}
	if pendObj != nil {
		pendAlias[pendObj] = true
	}
	var scan func(body *ast.BlockStmt, depth int)
	scan = func(body *ast.BlockStmt, depth int) {
		for _, call := range callsIn(body, false) {
			if fullCalleeName(info, call) == "builtin.append" && len(call.Args) > 0 && pendAlias[identObj(info, call.Args[0])] {
				for _, a := range call.Args[1:] {
					evidence[resolve(a)] = true
				}
			}
			if k := calleeKey(info, call); (k == "disk.(*diskCache).Get" || k == "disk.(Cache).Get") && len(call.Args) >= 4 && exprStr(call.Args[1]) == "cache.CAS" {
				h, sz := resolve(call.Args[2]), resolve(call.Args[3])
				if strings.TrimSuffix(h, ".Hash") == strings.TrimSuffix(sz, ".SizeBytes") {
					evidence["get:"+strings.TrimSuffix(h, ".Hash")] = true
				}
			}
			// a helper of the package: bind its parameters to the arguments and look inside
			if h := c.P.Func(calleeKey(info, call)); h != nil && h.Pkg == fi.Pkg && !ast.IsExported(h.Decl.Name.Name) && h.Decl.Body != nil && depth < 3 &&
				h.Key != "disk.(*diskCache).findMissingCasBlobsInternal" && h.Key != "disk.(*diskCache).get" {
				for i, a := range call.Args {
					po := paramObj(h, i)
					if po == nil {
						continue
					}
					if pendAlias[identObj(info, a)] {
						pendAlias[po] = true
					}
					subst[po] = resolve(a)
				}
				scan(h.Decl.Body, depth+1)
			}
		}
	}
	scan(fi.Decl.Body, 0)
	wantEv := map[string]string{
		"ActionResult.StdoutDigest":                   "result.StdoutDigest",
		"ActionResult.StderrDigest":                   "result.StderrDigest",
		"ActionResult.OutputFiles.Digest":             "[result.OutputFiles].Digest",
		"ActionResult.OutputDirectories.TreeDigest":   "get:[result.OutputDirectories].TreeDigest",
		"Tree.Root.Files.Digest":                      "[tree.Root.GetFiles()].Digest",
		"Tree.Children.Files.Digest":                  "[[tree.GetChildren()].GetFiles()].Digest",
	}
	frozen := map[string]string{
		"ActionResult.OutputDirectories.RootDirectoryDigest": "REAPI 2.3 alternative to tree_digest that this server neither stores nor serves; the property lists the Tree blob",
		"Tree.Root.Directories.Digest":                       "child directories are embedded in the Tree message (Tree.Children); their digests name no separate blob the result depends on",
		"Tree.Children.Directories.Digest":                   "see Tree.Root.Directories.Digest",
	}
	for _, p := range digestPaths {
		if why, ok := frozen[p]; ok {
			R.OK("R06a", c.Cfg+"digest:"+p, "", "frozen exception: "+why)
			continue
		}
		ev, known := wantEv[p]
		R.Check(known && evidence[ev], "R06a", c.Cfg+"digest:"+p, c.P.Pos(fi.Decl.Pos()), "digest field "+p+" is collected for the presence check ("+ev+")",
			fmt.Sprintf("digest field %s of the generated messages is not checked for presence by GetValidatedActionResult (expected evidence %q; found %v)", p, ev, keysOf(evidence)))
	}
	R.Count("digest-typed fields reachable from ActionResult/Tree", len(digestPaths))
	// inline-content files are exempt exactly when they carry contents
	okInline := false
	ast.Inspect(fi.Decl.Body, func(n ast.Node) bool {
		if is, ok := n.(*ast.IfStmt); ok {
			if be, ok := ast.Unparen(is.Cond).(*ast.BinaryExpr); ok && be.Op == token.EQL {
				if k, isC := constInt(info, be.Y); isC && k == 0 {
					if call, ok := ast.Unparen(be.X).(*ast.CallExpr); ok && exprStr(call.Fun) == "len" && len(call.Args) == 1 {
						if sel, ok := ast.Unparen(call.Args[0]).(*ast.SelectorExpr); ok && sel.Sel.Name == "Contents" {
							if rx, ok := rangeOf[identObj(info, sel.X)]; ok && strings.HasSuffix(exprStr(rx), ".OutputFiles") {
								okInline = true
							}
						}
					}
				}
			}
		}
		return true
	})
	R.Check(okInline, "R06a", c.Cfg+"inline-exemption", c.P.Pos(fi.Decl.Pos()), "an output file is exempt from the presence check only when it carries inline contents", "the len(f.Contents) == 0 guard was not found")

	// R06b
	var base *Base
	hits := 0
	base = NewBase(Hooks{
		Call: func(x *Exec, call *ast.CallExpr, lhs []ast.Expr, s St) ([]St, bool) {
			if calleeKey(x.Fn.Info, call) == "disk.(*diskCache).findMissingCasBlobsInternal" && len(lhs) == 1 && len(call.Args) == 3 {
				good := pendObj != nil && identObj(x.Fn.Info, call.Args[1]) == pendObj && exprStr(call.Args[2]) == "true"
				R.Check(good, "R06b", c.Cfg+"GetValidatedActionResult:check-args", c.P.Pos(call.Pos()), "the presence check runs over the collected digests with failFast = true", "arguments are "+exprStr(call.Args[1])+", "+exprStr(call.Args[2]))
				return base.ForkErr(x, lhs, 0, s, func(ok St) St { return ok.Set("checked", "1") }, nil), true
			}
			return errFork(base)(x, call, lhs, s)
		},
		Cond: func(x *Exec, cond ast.Expr, truth bool, s St) ([]St, bool) {
			if call, ok := ast.Unparen(cond).(*ast.CallExpr); ok && fullCalleeName(x.Fn.Info, call) == "errors.Is" && exprStr(call.Args[1]) == "errMissingBlob" {
				if truth {
					return []St{s.Set("missing", "1")}, true
				}
				return []St{s}, true
			}
			return nil, false
		},
		Exit: func(x *Exec, ret *ast.ReturnStmt, s St) {
			if ret == nil || len(ret.Results) != 3 {
				return
			}
			if s.Get("missing") == "1" {
				all := exprStr(ret.Results[0]) == "nil" && exprStr(ret.Results[1]) == "nil" && exprStr(ret.Results[2]) == "nil"
				R.Check(all, "R06b", fmt.Sprintf("%sGetValidatedActionResult:return#%d:missing-is-miss", c.Cfg, returnOrdinal(x.Fn, ret)), c.P.Pos(ret.Pos()), "a missing blob maps to the miss result (nil, nil, nil)", "errMissingBlob does not map to a plain miss", x.Trace()...)
				return
			}
			if exprStr(ret.Results[0]) == "nil" || RetNil(x.Fn, s, 2) == "nonnil" {
				return
			}
			hits++
			R.Check(s.Get("checked") == "1", "R06b", fmt.Sprintf("%sGetValidatedActionResult:return#%d:hit-after-check", c.Cfg, returnOrdinal(x.Fn, ret)), c.P.Pos(ret.Pos()), "a hit is returned only after the presence check returned nil", "a hit is returned on a path where the presence check did not succeed", x.Trace()...)
		},
	})
	x := NewExec(c.P.FlowOf(fi), base)
	x.Run(newSt())
	R.Check(hits > 0, "R06b", c.Cfg+"GetValidatedActionResult:hit-returns", "", "hit return found", "none found")

	// R06c
	if fg := c.P.MustFunc(R, "R06c", "server.(*grpcServer).GetActionResult"); fg != nil {
		var b2 *Base
		n := 0
		b2 = NewBase(Hooks{Exit: func(x *Exec, ret *ast.ReturnStmt, s St) {
			for k, v := range s.m {
				if strings.HasPrefix(k, "n:result@") && v == "nil" && ret != nil && s.Get("depscheck") == "1" {
					n++
					R.Check(strings.Contains(exprStr(ret.Results[1]), "codes.NotFound"), "R06c", fmt.Sprintf("%sGetActionResult:return#%d:nil-is-notfound", c.Cfg, returnOrdinal(x.Fn, ret)), c.P.Pos(ret.Pos()), "a nil (missing or incomplete) ActionResult is answered with NotFound", "a nil result is answered with "+exprStr(ret.Results[1]), x.Trace()...)
				}
			}
		}})
		b2.H.Call = func(x *Exec, call *ast.CallExpr, lhs []ast.Expr, s St) ([]St, bool) {
			if calleeKey(x.Fn.Info, call) == "disk.(Cache).GetValidatedActionResult" && len(lhs) == 3 {
				return b2.ForkErr(x, lhs, 2, s.Set("depscheck", "1"), nil, nil), true
			}
			return errFork(b2)(x, call, lhs, s)
		}
		x2 := NewExec(c.P.FlowOf(fg), b2)
		x2.Run(newSt())
		R.Check(n > 0, "R06c", c.Cfg+"GetActionResult:nil-result-paths", "", "nil-result paths found", "none found")
	}
	for _, key := range []string{"server.(*httpCache).handleGetValidAC", "server.(*httpCache).handleContainsValidAC"} {
		fh := c.P.MustFunc(R, "R06c", key)
		if fh == nil {
			continue
		}
		var b3 *Base
		n := 0
		b3 = NewBase(Hooks{EveryCall: func(x *Exec, call *ast.CallExpr, s St) []St {
			full := fullCalleeName(x.Fn.Info, call)
			if full == "net/http.(ResponseWriter).Write" || (full == "net/http.(ResponseWriter).WriteHeader" && exprStr(call.Args[0]) == "http.StatusOK") {
				n++
				dn := ""
				for k, v := range s.m {
					if strings.HasPrefix(k, "n:data@") {
						dn = v
					}
				}
				en := ""
				for k, v := range s.m {
					if strings.HasPrefix(k, "n:err@") {
						en = v
					}
				}
				_ = en
				R.Check(dn == "nonnil", "R06c", fmt.Sprintf("%s%s:%s#%d", c.Cfg, key, full[strings.LastIndex(full, ".")+1:], callOrdinal(x, call)), c.P.Pos(call.Pos()), "a success body/status is written only when GetValidatedActionResult returned data", "a 200 answer can be written although the validated lookup returned no data", x.Trace()...)
			}
			return []St{s}
		}})
		b3.H.Call = errFork(b3)
		x3 := NewExec(c.P.FlowOf(fh), b3)
		x3.Run(newSt())
		R.Check(n > 0, "R06c", c.Cfg+key+":success-writes", "", "success writes found", "none found")
	}

	// R06e
	if fg := c.P.MustFunc(R, "R06e", "server.(*grpcServer).GetActionResult"); fg != nil {
		var b4 *Base
		b4 = NewBase(Hooks{EveryCall: func(x *Exec, call *ast.CallExpr, s St) []St {
			if calleeKey(x.Fn.Info, call) == "disk.(Cache).Get" && exprStr(call.Args[1]) == "cache.AC" {
				R.Check(s.Get("b:$recv.depsCheck") == "false", "R06e", c.Cfg+"GetActionResult:raw-ac-read", c.P.Pos(call.Pos()), "the unchecked action-cache read is reachable only with the dependency check switched off", "an action-cache entry can be read without the dependency check although it is enabled", x.Trace()...)
			}
			return []St{s}
		}})
		b4.H.Call = errFork(b4)
		x4 := NewExec(c.P.FlowOf(fg), b4)
		x4.Run(newSt())
	}
	if fh := c.P.MustFunc(R, "R06e", "server.(*httpCache).CacheHandler"); fh != nil {
		var b5 *Base
		n := 0
		b5 = NewBase(Hooks{EveryCall: func(x *Exec, call *ast.CallExpr, s St) []St {
			k := calleeKey(x.Fn.Info, call)
			if k == "disk.(Cache).Get" || k == "disk.(Cache).Contains" || k == "disk.(Cache).GetZstd" {
				n++
				kindAC := false
				if k != "disk.(Cache).GetZstd" && len(call.Args) > 1 {
					if kt, ok := b5.Term(x, call.Args[1], s); ok && (s.Get("c:"+kt) == "0" || kt == "#0") {
						kindAC = true
					}
				}
				R.Check(!(kindAC && s.Get("b:$recv.validateAC") == "true"), "R06e", fmt.Sprintf("%sCacheHandler:%s#%d", c.Cfg, k[strings.LastIndex(k, ".")+1:], callOrdinal(x, call)), c.P.Pos(call.Pos()),
					"with validation on, AC entries are not read through the unvalidated path", "a validated-AC request can reach the unvalidated cache read", x.Trace()...)
			}
			return []St{s}
		}}, "server.parseRequestURL")
		b5.InlineOwnHelpers()
		b5.H.Call = errFork(b5)
		x5 := NewExec(c.P.FlowOf(fh), b5)
		x5.Run(newSt())
		R.Check(n >= 3, "R06e", c.Cfg+"CacheHandler:unvalidated-reads", "", "the unvalidated read sites of CacheHandler were found", fmt.Sprintf("found %d", n))
	}
}

func keysOf(m map[string]bool) []string {
	var out []string
	for k := range m {
		out = append(out, k)
	}
	sort.Strings(out)
	return out
}


// flattenAnd returns the conjuncts of a && b && c.
func flattenAnd(e ast.Expr) []ast.Expr {
	e = ast.Unparen(e)
	if be, ok := e.(*ast.BinaryExpr); ok && be.Op == token.LAND {
		return append(flattenAnd(be.X), flattenAnd(be.Y)...)
	}
	return []ast.Expr{e}
}

// classifyEmptyConjunct recognises the three tests of the empty-blob
// shortcut by their resolved operands: a comparison with the empty SHA-256
// constant ("hash"), with the CAS kind constant ("kind"), or of a size with
// zero by == or <= ("size"); anything else is "".
func classifyEmptyConjunct(info *types.Info, e ast.Expr) string {
	be, ok := ast.Unparen(e).(*ast.BinaryExpr)
	if !ok {
		return ""
	}
	constOf := func(x ast.Expr) (string, bool) {
		if tv, ok := info.Types[x]; ok && tv.Value != nil {
			return tv.Value.ExactString(), true
		}
		return "", false
	}
	for _, pair := range [][2]ast.Expr{{be.X, be.Y}, {be.Y, be.X}} {
		v, isConst := constOf(pair[1])
		if !isConst {
			continue
		}
		if _, otherConst := constOf(pair[0]); otherConst {
			continue
		}
		t := info.TypeOf(pair[0])
		switch {
		case be.Op == token.EQL && v == emptyShaLit:
			return "hash"
		case be.Op == token.EQL && t != nil && strings.HasSuffix(t.String(), "cache.EntryKind"):
			if id, ok := ast.Unparen(pair[1]).(*ast.SelectorExpr); ok && id.Sel.Name == "CAS" {
				return "kind"
			}
		case v == "0" && pair[1] == be.Y && (be.Op == token.EQL || be.Op == token.LEQ):
			return "size"
		case v == "0" && pair[1] == be.X && be.Op == token.EQL:
			return "size"
		}
	}
	return ""
}
