package main

func init() {
	register(&PropCheck{ID: "C19", Explanation: "debug", Trusted: commonTrusted, Run: func(c *Ctx) {
		configRules(c)
	}})
}
