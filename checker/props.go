package main

// The registry: which rules decide which property, what they decide and what
// they leave undecided.  A rule is emitted by a generator (a function over the
// loaded program); a property owns a list of rules and the framework runs the
// generators that can emit them and keeps the owned rules only.

var requestPkgs = []string{"/server", "/cache/disk", "/cache/disk/casblob", "/utils/validate", "/cache/grpcproxy", "/cache/httpproxy", "/cache/s3proxy", "/cache/azblobproxy", "/cache"}

type generator struct {
	name  string
	rules []string
	run   func(c *Ctx, want map[string]bool)
}

var diskflowRules = []string{"R14j", "R03a", "R04a", "R01a", "R01c", "R17f", "R17g", "R12a", "R12c", "R12d", "R12e", "R18a", "R18d"}

var diskflowDocs = map[string]string{
	"R14j": "Put reads its reader to the end on every exit: the reader parameter is reassigned only to nil and only after writeAndCloseFile consumed it, so the deferred io.Copy(io.Discard, r) drains it on every other path (pipes handed to Put rely on this)",
	"R03a": "reservation pairing in Put / get / availableOrTryProxy (commit inlined): Reserve is called with no reservation held; every exit is reached with the reservation released exactly once with the reserved amount (deferred clean-up included); availableOrTryProxy hands a held reservation to its caller only together with tryProxy == true; commit releases the reservation and adds the entry under one lock",
	"R04a": "temp-file pairing: a file created by tempfile.Create is, on every exit, either indexed by commit or removed; the deferred clean-up never removes a committed file; no second file is created while one is pending",
	"R01a": "verify -> commit -> acknowledge: commit (index insertion) is dominated by writeAndCloseFile returning nil for the file created for this very upload; a nil error / reader is returned only with the entry committed",
	"R01c": "verifier selection: writeAndCloseFile receives Put's own reader, kind, hash and size, and inside it every success return for a CAS blob passed the digest-verifying writer built from those parameters",
	"R17f": "admission before creation: every tempfile.Create is dominated by a successful Reserve for the item (or the item is empty)",
	"R17g": "reads are not subject to admission: a local hit is returned without calling Reserve",
	"R12a": "proxy.Get / proxy.Contains are dominated by c.proxy != nil",
	"R12c": "write-through once and only verified data: proxy.Put is reached at most once per upload and only after writeAndCloseFile succeeded",
	"R12d": "a backend answer is used only when 0 <= foundSize <= maxProxyBlobSize and it does not mismatch the requested size",
	"R12e": "a proxied entry is handed to the client only after its bytes were validated by writeAndCloseFile and the entry was committed",
	"R18a": "Put rejects size > maxBlobSize before reserving anything",
	"R18d": "proxy limits: every proxy.Get / proxy.Contains / queued backend check in cache/disk is dominated by requested size <= maxProxyBlobSize, and a positive answer that uses a backend-reported size is dominated by foundSize <= maxProxyBlobSize",
}

var diskflowMins = map[string]int{"R14j": 1, "R03a": 30, "R04a": 25, "R01a": 8, "R01c": 1, "R17f": 2, "R17g": 4, "R12a": 1, "R12c": 2, "R12d": 3, "R12e": 2, "R18a": 1, "R18d": 1}

func allCloserEntries() []closerEntry {
	return append(append(append([]closerEntry{}, diskCloserEntries...), proxyCloserEntries...), serverCloserEntries...)
}

func wantAny(want map[string]bool, rules ...string) map[string]bool {
	m := map[string]bool{}
	for _, r := range rules {
		if want[r] {
			m[r] = true
		}
	}
	return m
}

var generators = []generator{
	{"diskflow", diskflowRules, func(c *Ctx, want map[string]bool) {
		obs := diskFlowObligs(c)
		var take []string
		for _, r := range diskflowRules {
			if want[r] {
				c.R.Rule(r, "E2 path-sensitive dataflow", diskflowDocs[r], diskflowMins[r])
				take = append(take, r)
			}
		}
		takeRules(c, obs, take...)
	}},
	{"lock", []string{"R07a", "R07b"}, func(c *Ctx, _ map[string]bool) { lockRules(c) }},
	{"guards", []string{"R14a", "R14b", "R14c", "R14h"}, func(c *Ctx, _ map[string]bool) { guardFacts(c, requestPkgs, true, true, true) }},
	{"extra", []string{"R01g", "R02e", "R04e", "R06d", "R06f", "R07g", "R08e", "R11c"}, extraRules},
	{"extra2", []string{"R01i", "R04f", "R06g", "R09e", "R11e", "R14i", "R20f"}, extraRules2},
	{"closers-all", []string{"R14d"}, func(c *Ctx, _ map[string]bool) {
		runCloserRules(c, "R14d", allCloserEntries(), 55, "closers are closed, returned or handed to an owner on every path: every file, response body, backend stream, pipe end and reader obtained in a request path of package server, cache/disk, casblob and the proxy back ends is, on every exit of the function that obtained it, closed (possibly deferred), returned to the caller or handed to a callee that owns it (policies of the owning callees are themselves checked); an interface value that may be nil is not called")
	}},
	{"closers-proxy", []string{"R12b"}, func(c *Ctx, _ map[string]bool) {
		ents := append(append([]closerEntry{}, diskCloserEntries...), proxyCloserEntries...)
		runCloserRules(c, "R12b", ents, 35, "backend streams and files on proxy paths are released on every exit: the reader a backend returned, the HTTP response body, the file a backend stream is written to and the reader handed to a backend upload are closed, returned or handed to an owner on every path, including every error path; a nil reader is never called")
	}},
	{"c13", []string{"R13a", "R13b", "R13c", "R13d", "R13e", "R13f", "R13g"}, func(c *Ctx, _ map[string]bool) {
		c13Inventory(c)
		c13Interceptors(c)
		c13GrpcInstall(c)
		c13HTTPStacks(c)
		c13HTTPSplit(c)
	}},
	{"lru-writers", []string{"R03b", "R05a"}, func(c *Ctx, _ map[string]bool) { lruWriters(c) }},
	{"lru-accounting", []string{"R03c", "R03d", "R03e", "R04b", "R04g", "R05b", "R05d", "R17a", "R17b"}, func(c *Ctx, _ map[string]bool) { lruAccounting(c) }},
	{"lru-misc", []string{"R05a", "R03f", "R04c", "R17c", "R17e", "R01b", "R05e"}, func(c *Ctx, want map[string]bool) {
		lruMisc(c, wantAny(want, "R05a", "R03f", "R04c", "R17c", "R17e", "R01b", "R05e"))
	}},
	{"stale-handles", []string{"R03e"}, func(c *Ctx, _ map[string]bool) { staleHandles(c) }},
	{"casblob-write", []string{"R01c", "R08b", "R01d", "R01e", "R08a"}, func(c *Ctx, _ map[string]bool) {
		writeFileRules(c)
		writeAndCloseRules(c)
	}},
	{"casblob-header", []string{"R08d"}, func(c *Ctx, _ map[string]bool) { readHeaderRules(c) }},
	{"casblob-format", []string{"R20a", "R20b", "R02d", "R20c"}, func(c *Ctx, want map[string]bool) {
		formatRules(c, wantAny(want, "R20a", "R20b", "R02d", "R20c"))
	}},
	{"ingress", []string{"R01f"}, func(c *Ctx, _ map[string]bool) { digestPairs(c) }},
	{"ok-after-store", []string{"R01h"}, func(c *Ctx, _ map[string]bool) { okAfterStore(c) }},
	{"ac", []string{"R11a", "R11b", "R11d", "R11e"}, func(c *Ctx, _ map[string]bool) { acRules(c) }},
	{"config", []string{"R19a", "R19b", "R19c", "R19d", "R19e", "R19f", "R19g"}, func(c *Ctx, _ map[string]bool) { configRules(c) }},
	{"multi-exec", []string{"R07e"}, func(c *Ctx, _ map[string]bool) { multiExecutorWrites(c) }},
	{"workers", []string{"R07f"}, func(c *Ctx, _ map[string]bool) { workerWrites(c) }},
	{"pipes", []string{"R14e"}, func(c *Ctx, _ map[string]bool) { pipeRules(c) }},
	{"channels", []string{"R14f"}, func(c *Ctx, _ map[string]bool) { channelCapacity(c) }},
	{"no-fatal", []string{"R14g"}, func(c *Ctx, _ map[string]bool) { noFatalOnRequestPaths(c) }},
	{"names", []string{"R04e", "R20d", "R15a", "R09c", "R09b", "R09e", "R09f"}, func(c *Ctx, want map[string]bool) {
		nameRules(c, wantAny(want, "R04e", "R20d", "R15a", "R09c", "R09b", "R09e", "R09f"))
	}},
	{"paths", []string{"R04d"}, func(c *Ctx, _ map[string]bool) { pathProvenance(c) }},
	{"backend-names", []string{"R12g"}, func(c *Ctx, _ map[string]bool) { backendNames(c) }},
	{"reads", []string{"R02a", "R02b", "R02c"}, func(c *Ctx, _ map[string]bool) { readRules(c) }},
	{"deps", []string{"R06a", "R06b", "R06c", "R06e"}, func(c *Ctx, _ map[string]bool) { depRules(c) }},
	{"findmissing", []string{"R10a", "R10b", "R10c", "R10d", "R10g"}, func(c *Ctx, _ map[string]bool) { findMissingRules(c) }},
	{"keyspaces", []string{"R15b", "R15c", "R15d", "R15e"}, func(c *Ctx, _ map[string]bool) { keyspaceRules(c) }},
	{"write-protocol", []string{"R16a", "R16b", "R16c", "R16d"}, func(c *Ctx, _ map[string]bool) { writeProtocolRules(c) }},
	{"size-limits", []string{"R18b", "R18c", "R18d"}, func(c *Ctx, want map[string]bool) {
		sizeLimitRules(c)
		if want["R18d"] {
			proxyCallGuards(c)
		}
	}},
	{"status-mapping", []string{"R17d"}, func(c *Ctx, _ map[string]bool) { statusMapping(c) }},
	{"file-handles", []string{"R14k", "R04h"}, func(c *Ctx, _ map[string]bool) { fileHandleRules(c) }},
	{"nilled-elements", []string{"R14l"}, func(c *Ctx, _ map[string]bool) { nilledElements(c) }},
}

// runOwned runs the generators that can emit one of the property's rules.
func runOwned(c *Ctx, rules []string) {
	want := map[string]bool{}
	for _, r := range rules {
		want[r] = true
	}
	for _, g := range generators {
		hit := false
		for _, r := range g.rules {
			if want[r] {
				hit = true
			}
		}
		if hit {
			c.R.Count("generators run"+c.Cfg, 1)
			g.run(c, want)
		}
	}
}

func prop(id string, rules []string, explanation, notDecided string, extraTrust ...string) {
	rs := rules
	register(&PropCheck{
		ID: id, Rules: rs, Explanation: explanation, NotDecided: notDecided,
		Trusted: append(append([]string{}, commonTrusted...), extraTrust...),
		Run:     func(c *Ctx) { runOwned(c, rs) },
	})
}

const structural = "Static analysis of /repo's current type-checked source (go/packages + go/types, per-function go/cfg explored path-sensitively with bounded inlining of the module's own callees). Decided are structural necessary conditions of the property - breaking any of them changes the behaviour the property describes - not the behaviour itself. "

func init() {
	prop("C01", []string{"R01a", "R01b", "R01c", "R01d", "R01e", "R01f", "R01g", "R01h", "R01i", "R16a", "R08a"},
		structural+"Decided: (R01f) at every ingress that reaches Cache.Put the hash and the size come from one declaration or from the stored bytes themselves; (R01c/R01d/R01e) inside the disk cache every CAS byte stream goes through a writer that hashes exactly the bytes it stores, compares SHA-256 and length with the declared ones and probes for trailing bytes before its only success return; (R01a/R01b) the index insertion is dominated by that success and nothing else inserts; (R01g) the reader handed to Cache.Put is the whole request payload (body, decoder over it, pipe fed by it, or the complete byte slice), never a truncating wrapper, so trailing or extra bytes reach the verifying writer; (R01h) every OK / nil / 200 acknowledgement in package server is dominated by Put having returned nil for that blob; (R08a) a compressed CAS file becomes a readable casblob (chunk table written) only after the trailing-data probe and the hash comparison, so a rejected or still unverified upload never leaves a file the start-up loader would index under the claimed digest.",
		"Not decided: that SHA-256 / zstd libraries compute what they claim; that a well-formed upload within limits is accepted (liveness); that an acknowledged blob stays readable until evicted (C05/C07 clauses); the content of decompressed data (decoder correctness).")
	prop("C02", []string{"R02a", "R02b", "R02c", "R02d", "R02e"},
		structural+"Decided: (R02a) the read_limit budget test dominates every Send in ByteStream.Read and the budget is decreased by what is sent; (R02b) the empty blob is answered before any index lookup on every read / existence path; (R02c) a zstd label (Compressor_ZSTD, Content-Encoding: zstd) is produced exactly on paths whose bytes come from GetZstd; (R02d) the casblob readers take chunk size and chunk positions from the parsed header only, never from the writer's default; (R02e) a reader stops after the first decoded chunk only when that chunk is the last one of the header's table.",
		"Not decided: byte-for-byte equality of delivered and stored content, offset arithmetic inside the zstd decoders, equivalence of the cgo and pure-Go zstd implementations: these quantify over data values, which no static argument in reach bounds.")
	prop("C03", []string{"R03a", "R03b", "R03c", "R03d", "R03e", "R03f"},
		structural+"Decided: (R03b) the three counters and the index are written only by Add / removeElement / Reserve / Unreserve; (R03c) each of those changes the counters by exactly the 4 KiB-rounded size of the entry that enters or leaves, or the reserved amount, on every exit (linear-form analysis), failing exits change nothing; (R03d) the eviction loops run exactly until currentSize + delta <= maxSize for the delta added next; (R03a) every Reserve in the disk cache is paired with exactly one Unreserve of the same amount on every path including deferred clean-up; (R03e) removeElement re-validates stale list handles; (R03f) /status reports those counters.",
		"Not decided: the arithmetic invariant as a statement about runtime values across interleavings (that is induction over histories; the rules give its inductive step per mutator and the pairing per request path); overflow of int64 sums.")
	prop("C04", []string{"R04a", "R04b", "R04c", "R04d", "R04e", "R04f", "R04g", "R04h"},
		structural+"Decided: (R04a) every temp file created in Put / get is indexed or removed on every exit; (R04b) every removal from the index queues the removed entry's file for deletion, an overwrite queues the old value; (R04c) the background remover deletes exactly the queued entry's path; (R04d) every os.Remove / Open in cache/disk works on a path derived from FileLocation / getElementPath or a created temp file; (R04e) the name a file is created under, the name computed for lookups and the start-up loader's grammar agree for every (kind, legacy) combination; (R04f) the file opened for a hit is the indexed entry's own path; (R04g) SizedLRU.Add refuses an entry before it touches list, map, value or eviction queue, so the caller's removal of the refused file cannot leave an indexed entry without a file; (R04h) an entry whose file cannot be opened while the index lock is held is dropped from the index.",
		"Not decided: file-system behaviour (rename/remove atomicity), that the directory is otherwise untouched, timing of the background remover (quiescence is a runtime notion).")
	prop("C05", []string{"R05a", "R05b", "R05d", "R05e", "R03d", "R03c"},
		structural+"Decided: (R05a) every index hit moves the element to the front before it is returned and Add pushes to the front, the map is touched by SizedLRU methods only; (R05b) victims come from the back of the list; (R03d) the eviction loop guard is the exact negation of the fit condition for the incoming delta (no eviction without pressure, minimal eviction); (R05d) an item that cannot fit is rejected before any eviction; (R05e) Put reserves the logical size and commit adds size = logical size, sizeOnDisk = bytes written; (R03c) the accounted size every eviction decision is taken from changes by exactly the entry that enters or leaves, so no phantom pressure builds up.",
		"Not decided: the LRU order as a property of histories (the rules fix the per-operation list discipline from which it follows by induction); 'present immediately afterwards' under concurrency.")
	prop("C06", []string{"R06a", "R06b", "R06c", "R06d", "R06e", "R06f", "R06g", "R10c", "R10a"},
		structural+"Decided: (R06a) every Digest-typed field reachable from ActionResult through OutputFile, OutputDirectory -> Tree -> Directory -> FileNode (enumerated from the generated protobuf types) flows into the presence check or is fetched; (R06b) the hit return is dominated by that check returning nil and a missing blob maps to a miss; (R06c) a nil result maps to NotFound / 404 with no 200 body before; (R06d) in the backend worker every answer that does not confirm the blob (absent, or another size) raises the fail-fast miss signal; (R06e) with dependency checking on, AC content reaches clients only through GetValidatedActionResult; (R10a) the presence check the hit rests on counts a digest as present only on a sized hit in the index, a positive sized backend answer, or the empty blob (hash and size both).",
		"Not decided: 'at that moment' (atomicity of the check with respect to concurrent eviction), the backend's truthfulness.")
	prop("C07", []string{"R07a", "R07b", "R07e", "R07f", "R07g", "R03e", "R01a", "R12e", "R04f"},
		structural+"Decided: (R07a) lockset: every access to the LRU index is made with c.mu held, Lock/Unlock balanced on every path, no double lock; (R07b) no blocking operation (file system, backend, semaphore, channel send, re-locking callee) while c.mu is held - the static deadlock argument; (R07e/R07f) closures run by several goroutines write shared variables only through atomics / disjoint slice elements that are awaited; (R03e) stale handles are re-validated; (R01a/R12e) an entry becomes visible in the index only after its file is complete, verified, synced and closed (whole values); (R07g) cache files are never modified once created - new content goes to a new O_EXCL file, old files are only unlinked - which is what keeps a streaming read unaffected by overwrite and eviction.",
		"Not decided: linearizability of histories, data-race freedom in general (only the enumerated sharing patterns), that a streaming read survives eviction (relies on POSIX unlink semantics).")
	prop("C08", []string{"R08a", "R08b", "R08d", "R08e", "R01a", "R04a", "R06g"},
		structural+"Decided: (R08a) WriteAndClose writes the chunk table only after all chunks, the trailing probe and the hash comparison, then f.Sync() and f.Close() are error-checked before success; the header written first cannot validate without the table; (R08b) raw files are synced and closed with checked errors before success; (R08d) readHeader rejects every torn or inconsistent table (magic, count, frame size, chunk size, monotone offsets, last offset == file size) and both readers start with it; (R01a) the entry is indexed only after writeAndCloseFile returned nil; (R04a) a file that was not verified is removed on every exit - files are created under their final names, so a leftover would be indexed by the next start; (R08e) every class of entry that is served (compressed CAS, legacy CAS, AC/RAW) passed a completeness check of its file - on the pinned tree only compressed CAS does, the other two classes are recorded known findings (D31: a torn AC/RAW/.v1 file left by a kill is indexed and served).",
		"Not decided: crash behaviour of the file system itself (ordering of rename vs. data blocks beyond fsync of the file; the directory is not fsynced), start-up success on arbitrary torn directories (C09).")
	prop("C09", []string{"R09b", "R09c", "R09e", "R09f", "R04e", "R15a", "R05d", "R17c"},
		structural+"Decided: (R04e/R15a) every name the writer can produce is accepted by the loader's grammar with the capture groups landing on the fields scanDir assigns, and the kind/prefix tables invert; (R09c) migration of the legacy layouts produces loadable names in the right directory with .v1 exactly for CAS; (R09b) scanned files are ordered by ascending access time and inserted oldest first; (R09e) only lost+found and .DS_Store are tolerated; (R09f) start-up returns only once the eviction backlog drained, and (R17c) the backlog counter it waits on is increased and decreased by the same field of the same entry (otherwise the wait never ends or ends early); (R05d) the loader's Add rejects an entry only when its on-disk size exceeds max_size (everything that fits is kept).",
		"Not decided: behaviour on every possible directory content (that quantifies over file-system states), content preservation of migrated files, atime semantics of the platform.")
	prop("C10", []string{"R10a", "R10b", "R10c", "R10d", "R10g", "R07f", "R02b", "R18d"},
		structural+"Decided: (R10a) a digest is marked found only on a sized local hit, the empty-digest test or a positive backend answer; (R10b) oversize digests are never asked of the backend; (R10c) the batching loop consumes the whole list with consistent bounds; (R10d) compaction is a single forward, order-preserving copy of the non-nil elements; (R10g) the response is the filtered request slice, every digest validated first; (R07f) each worker writes its own slice element and all are awaited before the result is read; (R02b) the empty blob is never missing; (R18d) every call of the backend's Contains / Get in cache/disk - whatever function makes it - is made for a requested size that was compared with max_proxy_blob_size on that path.",
		"Not decided: 'present throughout the call' under concurrent eviction, backend truthfulness.")
	prop("C11", []string{"R11a", "R11b", "R11c", "R11d", "R11e"},
		structural+"Decided: (R11a) every Cache.Put that can carry an action-cache entry is dominated by validate.ActionResult(ar) == nil and stores the marshalling of that same message; (R11b) every return of AC content is dominated by validation of the unmarshalled stored bytes; (R11c) validate.ActionResult checks every Digest-typed field reachable from the message (enumerated from the generated types) and every path-typed field; (R11d) no error return is reachable after the AC Put succeeded; (R11e) between validation and marshalling only the worker metadata is filled in.",
		"Not decided: equality of the returned and the uploaded message (data values), that the validator accepts exactly the well-formed messages, JSON/protobuf view agreement, last-writer-wins.")
	prop("C12", []string{"R12a", "R12b", "R12c", "R12d", "R12e", "R12g", "R18d", "R03a", "R04a"},
		structural+"Decided: (R12a) the backend is consulted only when configured; (R12d/R18d) a backend answer is used only with 0 <= size <= max_proxy_blob_size and no size mismatch; (R12e) proxied bytes are verified by the same digest-checking writer as uploads and committed before they are served - a short or corrupt stream cannot be committed; (R12c) write-through happens once, after verification; (R12b) backend streams, response bodies, files and pipe ends on proxy paths are released on every exit and a nil reader is never called; (R03a/R04a) reservations and temp files of a backend fetch are released on every exit; (R12g) backend object names are the published templates, identical across S3 / Azure and accepted by this server's own grammar.",
		"Not decided: that the content a backend delivers equals what was uploaded (data values), goroutine lifetimes inside third-party clients, the 'full upload queue' drop policy beyond the select/default shape.")
	prop("C13", []string{"R13a", "R13b", "R13c", "R13d", "R13e", "R13f", "R13g"},
		structural+"Decided: (R13a/b/c) the inventory of registered gRPC methods is read from the service descriptors, each is classified mutating iff its handler reaches Cache.Put, and the unauthenticated-read allow-list contains only registered, non-mutating methods; (R13d) in each auth interceptor every path to the handler is the health check, an allowed read, or a passed credential check; (R13e/R13f) for every valuation of the configuration the gRPC server and every HTTP route (/, /status, /metrics) is wrapped by the interceptor / handler that valuation requires; (R13g) the unauthenticated wrapper forwards only GET and HEAD and every Put in the HTTP handler is behind the PUT method and the write-certificate check.",
		"Not decided: the cryptographic verification itself (crypto/tls, go-http-auth, LDAP library), TLS handshake configuration beyond ClientAuth, password file parsing.")
	prop("C14", []string{"R14a", "R14b", "R14c", "R14d", "R14e", "R14f", "R14g", "R14h", "R14i", "R14j", "R14k", "R14l", "R03a", "R04a", "R16c"},
		structural+"Decided: (R14a) every field selection through a nilable protobuf message pointer in request code is dominated by a non-nil fact; (R14b) every division by a non-constant is dominated by a non-zero fact; (R14c) every non-induction index is dominated by a length bound; (R14g) no log.Fatal / os.Exit / panic is reachable from a handler, interceptor or cache method; (R14d) every closer obtained on a request path is closed, returned or handed over on every exit; (R14e) every pipe's read end is terminated so writers cannot block for ever; (R14f) goroutines started by a request can always finish (sends never exceed channel capacity); (R14h) every digest put into the list handed to the presence check is non-nil (the check dereferences its elements while holding the cache lock); (R03a/R04a) reservations and temp files are released on every exit; (R14j) disk.Put gives up its reader (which disarms its deferred drain) only after the verifying writer consumed it, so a pipe writer feeding Put can always finish; (R14k) no method is called on an *os.File on a path where the open that produced it failed; (R14l) slice elements that a callee may have cleared (the digests found locally) are nil-tested before they are dereferenced.",
		"Not decided: panics inside third-party libraries, unbounded memory from huge messages, termination of loops over attacker-controlled data, goroutines of the gRPC/HTTP servers themselves.")
	prop("C15", []string{"R15a", "R15b", "R15c", "R15d", "R15e"},
		structural+"Decided: (R15a) the kind -> key-prefix and kind -> directory tables are injective, prefix-free and inverted consistently by the path and loader code; (R15b) compressed reads are CAS-only; (R15c) the kind argument of every Cache call in package server is a constant or derived from the URL by the one parser; (R15d) every action-cache access is dominated by the mangling step with the request's own instance name and CAS keys are never mangled; TransformActionCacheKey is the identity exactly for the empty instance; (R15e) request hashes are validated before they become file names.",
		"Not decided: collision resistance of SHA-256 (mangled keys), isolation as a statement over histories (follows from the key tables being injective).")
	prop("C16", []string{"R16a", "R16b", "R16c", "R16d", "R12g", "R01c", "R01e"},
		structural+"Decided: (R16a) SendAndClose with a success response is dominated by the Put result (nil, or io.EOF for already present); (R16b) committed_size is assigned only the four documented values; (R16c) the Put goroutine starts only for a first message with offset 0, a parsable name and a size within limits, and every protocol violation sends a real error to the result channel; (R16d) QueryWriteStatus reports complete with the full size exactly on presence; (R12g) the resource-name templates this code base writes are accepted by its own grammar; (R01c/R01e) 'more or fewer bytes than declared fails and stores nothing' rests on the store itself: the stream Write pipes into Cache.Put reaches the verifying writer unwrapped and uncut, which compares length and SHA-256 and probes for trailing bytes before its only success return.",
		"Not decided: that any REAPI-conformant prefix/suffix parses (quantifies over strings; the regular expressions are not compared with the REAPI grammar), number of bytes actually received.")
	prop("C17", []string{"R17a", "R17b", "R17c", "R17d", "R17e", "R17f", "R17g"},
		structural+"Decided: (R17a) in Reserve the hard-limit rejection dominates every eviction and counter store (refusal evicts nothing, stores nothing); (R17b) the compared quantity is currentSize + queuedEvictionsSize + requested size; (R17c) the backlog counter is increased on queueing and decreased by the same field after the file was removed (retry succeeds later); (R17e) the limit is active only when configured > 0 and 507 is produced nowhere else; (R17f) every file creation is dominated by a successful admission; (R17g) hits are returned without admission; (R17d) on every write path of package server the error of Cache.Put - followed through copies, result channels and returns to callers - is translated by gRPCErrCode, whose table maps 507 to RESOURCE_EXHAUSTED (400 to INVALID_ARGUMENT, 404 to NOT_FOUND), or is answered over HTTP with the cache error's own code.",
		"Not decided: timing of the background remover; that a retry succeeds once the backlog has drained (liveness).")
	prop("C18", []string{"R18a", "R18b", "R18c", "R18d", "R12d", "R10b", "R17d"},
		structural+"Decided: (R18a) Put rejects size > max_blob_size before reserving; (R18b) every ingress guard in package server is the strict comparison size > limit on the very value handed to Put (exactly-the-limit accepted, nothing stronger); (R18c) one configured value flows unchanged to the disk cache, the HTTP server, the gRPC server and GetCapabilities; (R18d/R12d/R10b) every backend lookup, every queued existence check and every use of a backend-reported size is dominated by the max_proxy_blob_size comparison.; (R17d) the disk-level refusal (cache error 400) reaches gRPC clients as INVALID_ARGUMENT and HTTP clients as 400 on every write path (handlers without a guard of their own - UpdateActionResult, FetchBlob - rely on it).",
		"Not decided: that the logical size of compressed uploads equals the declared one (C01), client error codes.")
	prop("C19", []string{"R19a", "R19b", "R19c", "R19d", "R19e", "R19f", "R19g"},
		structural+"Decided: (R19a/b/c/d) every command-line flag is read with the accessor of its own type into the field whose YAML tag is the flag's name, defaults agree, every flag is read and every YAML field has a flag; (R19e) both front ends return a configuration only through the one validator; (R19g) both normalise the listener addresses alike; (R19f) for each class of invalid set-up named by the property the validator has an error exit reached exactly by that defect (class-sliced exploration of validateConfig).",
		"Not decided: environment-variable handling inside urfave/cli, YAML parser behaviour, semantic equivalence of nested proxy configurations beyond field wiring.")
	prop("C20", []string{"R20a", "R20b", "R20c", "R20d", "R20f", "R12g", "R02d", "R04e"},
		structural+"Decided: (R20a) the header writer emits the published v2 layout (magic, frame size, logical size, compression byte, chunk size, count, offsets; little-endian; table at byte 29); (R20b) the reader consumes the same (type, width) sequence; (R20c) each chunk is one independent zstd frame and the offset table records the file offset before each; (R02d) readers honour whatever chunk size the header states; (R20d) file names follow the published layout per key space; (R12g) backend object and resource names are the published injective templates.",
		"Not decided: that zstd frames produced by the libraries are standard-conformant, readability by an independent implementation (needs executing one).")
}
