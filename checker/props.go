package main

func init() {
	register(&PropCheck{
		ID:          "C03",
		Explanation: "debug",
		Trusted:     commonTrusted,
		Run: func(c *Ctx) {
			obs := diskFlowObligs(c)
			c.R.Rule("R03a", "E2", "reservation pairing", 1)
			c.R.Rule("R04a", "E2", "tempfile pairing", 1)
			c.R.Rule("R01a", "E2", "verify->commit->ack", 1)
			lockRules(c)
			takeRules(c, obs, "R03a", "R04a", "R01a", "R01c", "R17f", "R17g", "R12a", "R12c", "R12d", "R12e", "R18a", "R18d")
		},
	})
}

var requestPkgs = []string{"/server", "/cache/disk", "/cache/disk/casblob", "/utils/validate", "/cache/grpcproxy", "/cache/httpproxy", "/cache/s3proxy", "/cache/azblobproxy", "/cache"}

func init() {
	register(&PropCheck{
		ID:          "C14",
		Explanation: "debug",
		Trusted:     commonTrusted,
		Run: func(c *Ctx) {
			guardFacts(c, requestPkgs, true, true, true)
		},
	})
}
