package main

func init() {
	register(&PropCheck{ID: "C02", Explanation: "debug", Trusted: commonTrusted, Run: func(c *Ctx) {
		readRules(c)
		depRules(c)
	}})
}
