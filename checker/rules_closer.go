package main

// Ownership typestate for closers (R14d, R12b, R12c):
// every ReadCloser / *os.File / HTTP response body obtained on a request path
// is, on every path, closed, returned to the caller, or handed to an owner.
//
// state keys:  rc:<term> = <resource id>      (several terms may alias one resource)
//              r:<id>    = open | closed | moved | returned
//              what:<id>, own:<id>

import (
	"os"
	"fmt"
	"go/ast"
	"go/token"
	"go/types"
	"sort"
	"strings"
)

type closerRules struct {
	c       *Ctx
	base    *Base
	rule    string
	consume map[string]map[int]string // funcKey -> param index -> policy
	keep    func(what string) bool
}

// acquirers: callee -> (result index of the closer, index of the error result)
type acquireSpec struct {
	res, err   int
	field      string // closer is result.<field> (e.g. Body)
	what       string
	nonNilOK   bool // result is non-nil whenever err is nil
	errMayHold bool // a non-nil closer may be returned together with a non-nil error
}

var closerAcquirers = map[string]acquireSpec{
	"disk.(Cache).Get":                         {res: 0, err: 2, what: "reader from the cache"},
	"disk.(Cache).GetZstd":                     {res: 0, err: 2, what: "reader from the cache"},
	"disk.(*diskCache).Get":                    {res: 0, err: 2, what: "reader from the cache"},
	"disk.(*diskCache).GetZstd":                {res: 0, err: 2, what: "reader from the cache"},
	"disk.(*diskCache).get":                    {res: 0, err: 2, what: "reader from the cache"},
	"disk.(*diskCache).availableOrTryProxy":    {res: 0, err: 3, what: "file", errMayHold: true},
	"cache.(Proxy).Get":                        {res: 0, err: 2, what: "backend stream", errMayHold: true},
	"os.Open":                                  {res: 0, err: 1, what: "file", nonNilOK: true},
	"os.OpenFile":                              {res: 0, err: 1, what: "file", nonNilOK: true},
	"tempfile.(*Creator).Create":               {res: 0, err: 2, what: "temp file", nonNilOK: true},
	"http.(*Client).Do":                        {res: 0, err: 1, field: "Body", what: "HTTP response body", nonNilOK: true},
	"minio.(*Core).GetObject":                  {res: 0, err: 3, what: "S3 object stream", nonNilOK: true},
	"casblob.GetUncompressedReadCloser":        {res: 0, err: 1, what: "casblob reader", nonNilOK: true},
	"casblob.GetZstdReadCloser":                {res: 0, err: 1, what: "casblob reader", nonNilOK: true},
	"casblob.GetLegacyZstdReadCloser":          {res: 0, err: 1, what: "casblob reader", nonNilOK: true},
	"casblob.ExtractLogicalSize":               {res: 0, err: 2, what: "wrapped backend stream", nonNilOK: true},
	"grpcproxy.(*remoteGrpcProxyCache).Get":    {res: 0, err: 2, what: "backend stream"},
	"blob.(*DownloadStreamResponse).NewRetryReader": {res: 0, err: -1, what: "Azure blob stream", nonNilOK: true},
}

// external consumers: callee -> argument index taken over
var closerConsumers = map[string]map[int]string{
	"cache.(Proxy).Put":          {5: "always"},
	"http.NewRequestWithContext": {3: "on-success-moved"}, // http.Client.Do closes the request body
	"http.NewRequest":            {2: "on-success-moved"},
}

// closerWrappers: constructors whose result's Close closes the argument at the given index.
var closerWrappers = map[string]int{"sha256verifier.New": 2}

func shortKey(info *types.Info, call *ast.CallExpr) string {
	f := Callee(info, call)
	if f == nil {
		return ""
	}
	return funcKey(f)
}

type closerEntry struct {
	key    string
	owned  []string // parameter names (or "param.Field") that are open on entry and must be consumed
	policy string   // "always" (closed/moved at every exit) or "error-closed" (closed on error exits; on success owned by the result)
}

// runCloserRulesOnly runs the ownership analysis but reports only the
// resources whose kind passes keep (the rule is declared by the caller).
func runCloserRulesOnly(c *Ctx, rule string, entries []closerEntry, keep func(what string) bool) {
	runCloserRulesF(c, rule, entries, keep)
}

func runCloserRules(c *Ctx, rule string, entries []closerEntry, min int, doc string) {
	c.R.Rule(rule, "E2", doc, min)
	runCloserRulesF(c, rule, entries, nil)
}

func runCloserRulesF(c *Ctx, rule string, entries []closerEntry, keep func(what string) bool) {
	R := c.R
	g := &closerRules{c: c, rule: rule, consume: map[string]map[int]string{}, keep: keep}
	allEntries := append(append(append([]closerEntry{}, diskCloserEntries...), proxyCloserEntries...), serverCloserEntries...)
	for _, e := range allEntries {
		if len(e.owned) == 0 {
			continue
		}
		fi := c.P.Func(e.key)
		if fi == nil {
			continue
		}
		m := map[int]string{}
		for _, o := range e.owned {
			if idx, _, _ := ownedParam(fi, o); idx >= 0 {
				m[idx] = e.policy
			}
		}
		g.consume[e.key] = m
	}
	g.base = NewBase(Hooks{Call: g.call, Assign: g.assign, Return: g.ret, Exit: g.exit, Stmt: g.stmt})
	// helpers split off an analysed function are interpreted in its context; functions with an
	// ownership summary of their own (the entries) are not
	isEntry := map[string]bool{}
	for _, e := range allEntries {
		isEntry[e.key] = true
	}
	g.base.AutoInline = func(h *FuncInfo) bool {
		// exported helpers of other module packages too (backendproxy.Enqueue-style): what matters is
		// that the function has no ownership summary of its own and handles something closable
		if isEntry[h.Key] || !strings.Contains(h.Pkg.PkgPath, modPath) || !hasCloserSig(h) {
			return false
		}
		if _, summarised := closerConsumers[h.Key]; summarised {
			return false
		}
		if _, acq := closerAcquirers[h.Key]; acq {
			return false
		}
		return true
	}
	// a resource whose variable is found to be nil does not exist on that path;
	// remember it at the test (loop-scoped variables are forgotten per iteration)
	g.base.H.PostCond = func(x *Exec, cond ast.Expr, truth bool, outs []St) []St {
		be, ok := ast.Unparen(cond).(*ast.BinaryExpr)
		if !ok || (be.Op != token.EQL && be.Op != token.NEQ) {
			return outs
		}
		e := be.X
		if isNilIdent(x.Fn.Info, be.X) {
			e = be.Y
		} else if !isNilIdent(x.Fn.Info, be.Y) {
			return outs
		}
		for i := range outs {
			t, ok := g.base.Term(x, e, outs[i])
			if !ok {
				continue
			}
			if id := outs[i].Get("rc:" + t); id != "" && outs[i].Get("r:"+id) == "open" && outs[i].Get("n:"+t) == "nil" {
				outs[i] = outs[i].Set("r:"+id, "absent")
			}
		}
		return outs
	}
	nf := 0
	for _, e := range entries {
		fi := c.P.Func(e.key)
		if fi == nil {
			R.Fail(rule, c.Cfg+"anchor:"+e.key, "", "anchor function "+e.key+" does not resolve")
			continue
		}
		nf++
		g.analyse(c.P.FlowOf(fi), e)
	}
	R.Count("functions analysed for closer ownership ("+rule+")", nf)
}

func (g *closerRules) analyse(fl *FlowFn, e closerEntry) {
	init := newSt()
	x := NewExec(fl, g.base)
	for _, o := range e.owned {
		fi := g.c.P.Func(e.key)
		if fi == nil {
			continue
		}
		idx, obj, field := ownedParam(fi, o)
		if idx < 0 || obj == nil {
			g.c.R.Fail(g.rule, g.c.Cfg+fl.Name+":owned-parameter:"+o, "", "the closer parameter "+o+" of "+e.key+" was not found (neither by name nor by type)")
			continue
		}
		t := objID(obj)
		if field != "" {
			t += "." + field
		}
		id := "param:" + o
		init = init.Set("rc:"+t, id).Set("r:"+id, "open").Set("n:"+t, "nonnil").Set("own:"+id, e.policy).Set("what:"+id, "parameter "+o).Set("name:"+id, o)
	}
	x.Run(init)
	if x.Aborted != "" {
		g.c.R.Fail(g.rule, g.c.Cfg+fl.Name+":explore", "", "exploration did not complete: "+x.Aborted)
	}
	g.c.R.Count("abstract states explored (closers)", x.stats.States)
	var lits []*ast.FuncLit
	deferred := map[*ast.FuncLit]bool{}
	ast.Inspect(fl.Body, func(n ast.Node) bool {
		if d, ok := n.(*ast.DeferStmt); ok {
			if l, ok := d.Call.Fun.(*ast.FuncLit); ok {
				deferred[l] = true
			}
		}
		if l, ok := n.(*ast.FuncLit); ok {
			lits = append(lits, l)
			return false
		}
		return true
	})
	for _, l := range lits {
		if !deferred[l] {
			y := NewExec(fl.Lit(l), g.base)
			y.Run(newSt())
			g.c.R.Count("abstract states explored (closers)", y.stats.States)
		}
	}
}

func (g *closerRules) res(x *Exec, e ast.Expr, s St) (id, state string) {
	t, ok := g.base.Term(x, e, s)
	if !ok {
		return "", ""
	}
	id = s.Get("rc:" + t)
	if id == "" {
		return "", ""
	}
	return id, s.Get("r:" + id)
}

func (g *closerRules) closeCallsIn(x *Exec, n ast.Node, s St) St {
	for _, c := range callsIn(n, false) {
		if sel, ok := c.Fun.(*ast.SelectorExpr); ok && (sel.Sel.Name == "Close" || sel.Sel.Name == "CloseWithError") {
			if id, st := g.res(x, sel.X, s); id != "" && st != "" {
				s = s.Set("r:"+id, "closed")
			}
		}
	}
	return s
}

func (g *closerRules) call(x *Exec, call *ast.CallExpr, lhs []ast.Expr, s St) ([]St, bool) {
	info := x.Fn.Info
	b := g.base
	key := shortKey(info, call)
	// x.Close() / x.CloseWithError(e)
	if sel, ok := call.Fun.(*ast.SelectorExpr); ok && (sel.Sel.Name == "Close" || sel.Sel.Name == "CloseWithError") {
		if id, _ := g.res(x, sel.X, s); id != "" {
			if s.Get("maynil:"+id) != "" && !x.InDefer && g.keep == nil {
				// R12f: a method call on an interface value that can be nil panics
				// (deferred calls are judged where they are registered)
				t, _ := b.Term(x, sel.X, s)
				g.report(x, s.Get("n:"+t) == "nonnil", "nilcall:"+s.Get("name:"+id)+"("+id+")", call.Pos(),
					s.Get("what:"+id)+" "+s.Get("name:"+id)+" is known to be non-nil when "+sel.Sel.Name+" is called on it",
					"the callee can return a nil "+s.Get("what:"+id)+" (miss); calling "+sel.Sel.Name+" on it panics the handler")
			}
			st := s.Set("r:"+id, "closed")
			for _, l := range lhs {
				st = b.AssignValue(x, l, nil, st)
			}
			return []St{st}, true
		}
	}
	// a HEAD request has no response body to close
	if (key == "http.NewRequestWithContext" || key == "http.NewRequest") && len(lhs) == 2 {
		mi := 1
		if key == "http.NewRequest" {
			mi = 0
		}
		if m, ok := constString(info, call.Args[mi]); ok && m == "HEAD" {
			outs := b.ForkErr(x, lhs, 1, s, func(o St) St {
				if t, ok := b.Term(x, lhs[0], o); ok {
					return o.Set("v:"+t, "head")
				}
				return o
			}, nil)
			return outs, true
		}
	}
	st := s
	moved := false
	if cons, ok := closerConsumers[key]; ok {
		for i, pol := range cons {
			if i < len(call.Args) {
				if id, rs := g.res(x, call.Args[i], st); id != "" && rs == "open" {
					if pol == "always" {
						st = st.Set("r:"+id, "moved")
						moved = true
					} else if pol == "on-success-moved" && len(lhs) == 2 {
						return b.ForkErr(x, lhs, 1, st, func(o St) St { return o.Set("r:"+id, "moved") }, nil), true
					}
				}
			}
		}
	}
	if cons, ok := g.consume[key]; ok {
		for i, pol := range cons {
			if i >= len(call.Args) {
				continue
			}
			id, rs := g.res(x, call.Args[i], st)
			if id == "" || rs != "open" {
				continue
			}
			switch pol {
			case "always":
				st = st.Set("r:"+id, "moved")
				moved = true
			case "error-closed":
				spec, isAcq := closerAcquirers[key]
				errIdx := len(lhs) - 1
				if isAcq {
					errIdx = spec.err
				}
				return b.ForkErr(x, lhs, errIdx, st, func(o St) St {
					o = o.Set("r:"+id, "moved")
					if isAcq && spec.res < len(lhs) {
						o = g.acquire(x, call, key, spec, lhs, o, true)
					}
					return o
				}, func(bad St) St {
					bad = bad.Set("r:"+id, "closed")
					if isAcq && spec.res < len(lhs) {
						if rt, ok := b.Term(x, lhs[spec.res], bad); ok {
							bad = bad.Set("n:"+rt, "nil")
						}
					}
					return bad
				}), true
			}
		}
	}
	if spec, ok := closerAcquirers[key]; ok && (len(lhs) > spec.res) {
		if id, isBlank := lhs[spec.res].(*ast.Ident); isBlank && id.Name == "_" {
			g.report(x, false, "acquire:"+key+":discarded", call.Pos(), spec.what+" is bound to a variable", "the "+spec.what+" returned by "+key+" is discarded and can never be closed")
			return nil, false
		}
		if key == "http.(*Client).Do" && len(call.Args) == 1 {
			if t, ok := b.Term(x, call.Args[0], st); ok && st.Get("v:"+t) == "head" {
				return nil, false
			}
		}
		if spec.err < 0 {
			for _, l := range lhs {
				st = b.AssignValue(x, l, nil, st)
			}
			return []St{g.acquire(x, call, key, spec, lhs, st, true)}, true
		}
		mayHold := spec.errMayHold
		if mayHold {
			if fi := g.c.P.Func(key); fi != nil && g.errImpliesNil(fi, spec.res, spec.err) {
				mayHold = false // derived from the callee's own exits
			}
		}
		return b.ForkErr(x, lhs, spec.err, st, func(o St) St {
			return g.acquire(x, call, key, spec, lhs, o, spec.nonNilOK)
		}, func(bad St) St {
			if mayHold {
				return g.acquire(x, call, key, spec, lhs, bad, false)
			}
			if rt, ok := b.Term(x, lhs[spec.res], bad); ok && spec.field == "" {
				bad = bad.Set("n:"+rt, "nil")
			}
			return bad
		}), true
	}
	if moved {
		for _, l := range lhs {
			st = b.AssignValue(x, l, nil, st)
		}
		return []St{st}, true
	}
	return nil, false
}

var errImpliesNilCache = map[string]bool{}

// errImpliesNil derives, from the callee's own exits, that whenever its error
// result can be non-nil its closer result is nil.
func (g *closerRules) errImpliesNil(fi *FuncInfo, res, errIdx int) bool {
	k := fmt.Sprintf("%p|%s|%d|%d", g.c.P, fi.Key, res, errIdx)
	if v, ok := errImpliesNilCache[k]; ok {
		return v
	}
	errImpliesNilCache[k] = false
	ok := true
	b := NewBase(Hooks{Exit: func(x *Exec, ret *ast.ReturnStmt, s St) {
		if RetNil(x.Fn, s, errIdx) != "nil" && RetNil(x.Fn, s, res) != "nil" {
			ok = false
		}
	}})
	x := NewExec(g.c.P.FlowOf(fi), b)
	x.Run(newSt())
	if x.Aborted != "" {
		ok = false
	}
	g.c.R.Check(ok, g.rule, g.c.Cfg+fi.Key+":summary:error-implies-nil-result", g.c.P.Pos(fi.Decl.Pos()),
		fi.Key+" returns a nil closer whenever it returns a non-nil error (derived from its exits), so callers may drop the result on error",
		"an exit returns a possibly non-nil closer together with a possibly non-nil error: the caller's error path leaks it")
	errImpliesNilCache[k] = ok
	return ok
}

func (g *closerRules) acquire(x *Exec, call *ast.CallExpr, key string, spec acquireSpec, lhs []ast.Expr, o St, nonNil bool) St {
	rt, ok := g.base.Term(x, lhs[spec.res], o)
	if !ok {
		return o
	}
	name := exprStr(lhs[spec.res])
	if spec.field != "" {
		o = o.Set("n:"+rt, "nonnil")
		rt += "." + spec.field
		name += "." + spec.field
	}
	id := siteKey(x, call, key)
	o = o.Set("rc:"+rt, id).Set("r:"+id, "open").Set("what:"+id, spec.what).Set("name:"+id, name)
	if nonNil {
		o = o.Set("n:"+rt, "nonnil")
	} else {
		o = o.Set("maynil:"+id, "1")
	}
	return o
}

// assign: a plain copy (rc = f; rc := resp.Body) makes both names refer to the
// same resource; composite literals (&wrapper{file: f}) take ownership.
func (g *closerRules) assign(x *Exec, as *ast.AssignStmt, s St) []St {
	if len(as.Lhs) != len(as.Rhs) {
		return []St{s}
	}
	b := g.base
	for i, r := range as.Rhs {
		r = ast.Unparen(r)
		if u, ok := r.(*ast.UnaryExpr); ok && u.Op == token.AND {
			r = ast.Unparen(u.X)
		}
		switch r := r.(type) {
		case *ast.CompositeLit:
			// item := UploadReq{..., Rc: rc}: a local struct variable holds the closer in a field; it
			// stays this function's responsibility until the variable is sent, returned or the closer
			// closed (a literal built in place for a send / return / argument is handed over at once)
			if lt, ok := b.LTerm(x, as.Lhs[i], s); ok {
				if _, isIdent := ast.Unparen(as.Lhs[i]).(*ast.Ident); isIdent {
					aliased := false
					for _, el := range r.Elts {
						kv, isKV := el.(*ast.KeyValueExpr)
						if !isKV {
							continue
						}
						if id, rs := g.res(x, kv.Value, s); id != "" && rs == "open" {
							s = s.Set("rc:"+lt+"."+exprStr(kv.Key), id)
							aliased = true
						}
					}
					if aliased {
						continue
					}
				}
			}
			s = g.moveIntoLit(x, r, s)
		case *ast.Ident, *ast.SelectorExpr:
			id, rs := g.res(x, r, s)
			lt, ok2 := b.Term(x, as.Lhs[i], s)
			if id != "" && rs != "" && ok2 {
				s = s.Set("rc:"+lt, id)
				if rt, ok := b.Term(x, r, s); ok {
					if v := s.Get("n:" + rt); v != "" {
						s = s.Set("n:"+lt, v)
					}
				}
			}
		case *ast.CallExpr:
			// wrappers that own their argument: x := io.NopCloser(y) does not apply
			// (NopCloser does not close); dec.IOReadCloser() etc. are separate resources.
			// The digest verifier closes the writer it wraps: closing it closes that resource.
			if ai, ok := closerWrappers[shortKey(x.Fn.Info, r)]; ok && ai < len(r.Args) {
				id, rs := g.res(x, r.Args[ai], s)
				if lt, ok2 := b.Term(x, as.Lhs[i], s); id != "" && rs != "" && ok2 {
					s = s.Set("rc:"+lt, id)
				}
			}
		}
	}
	return []St{s}
}

func (g *closerRules) moveIntoLit(x *Exec, cl *ast.CompositeLit, s St) St {
	for _, el := range cl.Elts {
		v := el
		if kv, ok := el.(*ast.KeyValueExpr); ok {
			v = kv.Value
		}
		if id, rs := g.res(x, v, s); id != "" && rs == "open" {
			s = s.Set("r:"+id, "moved")
		}
	}
	return s
}

// inLoop reports whether node n of fn lies inside a for/range statement.
func inLoop(fn *FlowFn, n ast.Node) bool {
	found := false
	ast.Inspect(fn.Body, func(m ast.Node) bool {
		switch m := m.(type) {
		case *ast.ForStmt:
			if m.Body.Pos() <= n.Pos() && n.End() <= m.Body.End() {
				found = true
			}
		case *ast.RangeStmt:
			if m.Body.Pos() <= n.Pos() && n.End() <= m.Body.End() {
				found = true
			}
		case *ast.FuncLit:
			return false
		}
		return !found
	})
	return found
}

func (g *closerRules) stmt(x *Exec, n ast.Node, s St) ([]St, bool) {
	// defer r.Close() / defer func() { _ = r.Close() }(): the nil check that
	// guards the registration is what matters; inside a loop the deferred call
	// is bound to this iteration's variable, so the resource counts as closed.
	if d, ok := n.(*ast.DeferStmt); ok {
		st := s
		var calls []*ast.CallExpr
		if lit, ok := d.Call.Fun.(*ast.FuncLit); ok {
			calls = callsIn(lit.Body, false)
		} else {
			calls = []*ast.CallExpr{d.Call}
		}
		loop := inLoop(x.Fn, d)
		for _, c := range calls {
			sel, ok := c.Fun.(*ast.SelectorExpr)
			if !ok || (sel.Sel.Name != "Close" && sel.Sel.Name != "CloseWithError") {
				continue
			}
			id, rs := g.res(x, sel.X, st)
			if id == "" {
				continue
			}
			if st.Get("maynil:"+id) != "" && g.keep == nil {
				t, _ := g.base.Term(x, sel.X, st)
				g.report(x, st.Get("n:"+t) == "nonnil", "nilcall:"+st.Get("name:"+id)+"("+id+")", c.Pos(),
					st.Get("what:"+id)+" "+st.Get("name:"+id)+" is known to be non-nil when the deferred "+sel.Sel.Name+" is registered",
					"the callee can return a nil "+st.Get("what:"+id)+" (miss); the deferred "+sel.Sel.Name+" on it panics the handler")
				st = st.Set("maynil:"+id, "")
			}
			if loop && rs == "open" {
				st = st.Set("r:"+id, "closed")
			}
		}
		return []St{st}, true
	}
	if snd, ok := n.(*ast.SendStmt); ok {
		st := s

		v := ast.Unparen(snd.Value)
		if cl, ok := v.(*ast.CompositeLit); ok {
			st = g.moveIntoLit(x, cl, st)
		} else if t, ok := g.base.Term(x, v, st); ok {
			// a struct variable holding the closer in one of its fields
			for k, id := range st.m {
				if strings.HasPrefix(k, "rc:"+t+".") && st.Get("r:"+id) == "open" {
					st = st.Set("r:"+id, "moved")
				}
			}
			if id := st.Get("rc:" + t); id != "" && st.Get("r:"+id) == "open" {
				st = st.Set("r:"+id, "moved")
			}
			// item := UploadReq{..., Rc: rc}: the literal took the closer when it was built
		}
		return []St{st}, true
	}
	if gs, ok := n.(*ast.GoStmt); ok {
		// go worker(f, pw): a named function started as a goroutine owns the resources it is handed
		// and closes (as the closure form is judged: a Close on that parameter somewhere in its body)
		if _, isLit := gs.Call.Fun.(*ast.FuncLit); !isLit {
			if h := g.c.P.Func(shortKey(x.Fn.Info, gs.Call)); h != nil && h.Decl.Body != nil {
				st := s.Set("gostarted", "1")
				for i, a := range gs.Call.Args {
					id, rs := g.res(x, a, st)
					po := paramObj(h, i)
					if id == "" || rs != "open" || po == nil {
						continue
					}
					for _, c := range callsIn(h.Decl.Body, true) {
						if sel, ok := c.Fun.(*ast.SelectorExpr); ok && (sel.Sel.Name == "Close" || sel.Sel.Name == "CloseWithError") && identObj(h.Pkg.TypesInfo, sel.X) == po {
							st = st.Set("r:"+id, "moved")
						}
					}
				}
				return []St{st}, true
			}
		}
		if lit, ok := gs.Call.Fun.(*ast.FuncLit); ok {
			st := s.Set("gostarted", "1")
			for _, c := range callsIn(lit.Body, true) {
				if sel, ok := c.Fun.(*ast.SelectorExpr); ok && (sel.Sel.Name == "Close" || sel.Sel.Name == "CloseWithError") {
					if id, rs := g.res(x, sel.X, st); id != "" && rs == "open" {
						st = st.Set("r:"+id, "moved")
					}
				}
			}
			return []St{st}, true
		}
	}
	return nil, false
}

func (g *closerRules) ret(x *Exec, ret *ast.ReturnStmt, s St) []St {
	if ret == nil {
		return []St{s}
	}
	s = g.closeCallsIn(x, ret, s)
	for _, r := range ret.Results {
		r = ast.Unparen(r)
		if u, ok := r.(*ast.UnaryExpr); ok && u.Op == token.AND {
			r = ast.Unparen(u.X)
		}
		if cl, ok := r.(*ast.CompositeLit); ok {
			s = g.moveIntoLit(x, cl, s)
			continue
		}
		if call, ok := r.(*ast.CallExpr); ok {
			// return f(x): x is handed on (return casblob.ExtractLogicalSize(rsp.Body))
			key := shortKey(x.Fn.Info, call)
			for i, a := range call.Args {
				if id, rs := g.res(x, a, s); id != "" && rs == "open" {
					if pol := g.consume[key][i]; pol != "" {
						s = s.Set("r:"+id, "moved")
					} else if sel, ok := call.Fun.(*ast.SelectorExpr); !ok || (sel.Sel.Name != "Close") {
						if _, known := closerAcquirers[key]; known {
							s = s.Set("r:"+id, "moved")
						}
					}
				}
			}
			continue
		}
		if id, rs := g.res(x, r, s); id != "" && rs == "open" {
			s = s.Set("r:"+id, "returned")
		}
	}
	return []St{s}
}

func (g *closerRules) report(x *Exec, ok bool, key string, pos token.Pos, what, why string) {
	root := x.Fn
	for root.Outer != nil {
		root = root.Outer
	}
	k := g.c.Cfg + root.Name + ":" + key
	var tr []string
	if !ok {
		tr = x.Trace()
	}
	g.c.R.Check(ok, g.rule, k, g.c.P.Pos(pos), what, why, tr...)
}

func (g *closerRules) exit(x *Exec, ret *ast.ReturnStmt, s St) {
	var ids []string
	for k := range s.m {
		if strings.HasPrefix(k, "r:") {
			ids = append(ids, k[2:])
		}
	}
	sort.Strings(ids)
	pos := x.Fn.Body.Rbrace
	if ret != nil {
		pos = ret.Pos()
	}
	errNil := RetNil(x.Fn, s, -1)
	if os.Getenv("VCHECK_DEBUG_CLOSER") != "" && strings.HasSuffix(x.Fn.Name, os.Getenv("VCHECK_DEBUG_CLOSER")) {
		fmt.Println("EXIT", g.c.P.Pos(pos), s.String())
	}
	for _, id := range ids {
		v := s.Get("r:" + id)
		// A resource whose variable was found nil is marked absent where the
		// test happened (PostCond); nil-ness at the exit itself says nothing:
		// `return nil, err` overwrites a named result that still holds it.
		isNil := false
		what, name := s.Get("what:"+id), s.Get("name:"+id)
		if g.keep != nil && !g.keep(what) {
			continue
		}
		leaked := v == "open" && !isNil
		if what == "pipe read end" && s.Get("gostarted") == "" {
			leaked = false // nobody writes to the pipe on this path: it is simply dropped
		}
		if own := s.Get("own:" + id); own == "error-closed" {
			if errNil == "nonnil" {
				leaked = v == "open" || v == "returned"
			} else {
				leaked = v == "open"
			}
		}
		g.report(x, !leaked, fmt.Sprintf("%s(%s)", name, id), pos, fmt.Sprintf("%s %s is closed, returned or handed to an owner on every path", what, name),
			fmt.Sprintf("%s %s is still open at this exit and nobody owns it (file descriptor / connection leak)", what, name))
	}
}

// ownedParam resolves an owned-parameter spec ("f", "rc", "item.Rc") to the parameter's index and
// object: by name, and when a refactoring renamed it, by type (the *os.File, the io.ReadCloser,
// the struct that has the named field).
func ownedParam(fi *FuncInfo, spec string) (int, types.Object, string) {
	parts := strings.SplitN(spec, ".", 2)
	field := ""
	if len(parts) == 2 {
		field = parts[1]
	}
	for i := 0; ; i++ {
		o := paramObj(fi, i)
		if o == nil {
			break
		}
		if o.Name() == parts[0] {
			return i, o, field
		}
	}
	for i := 0; ; i++ {
		o := paramObj(fi, i)
		if o == nil {
			break
		}
		ts := o.Type().String()
		switch {
		case field != "":
			if st, ok := o.Type().Underlying().(*types.Struct); ok {
				for k := 0; k < st.NumFields(); k++ {
					if st.Field(k).Name() == field {
						return i, o, field
					}
				}
			}
		case parts[0] == "f" && ts == "*os.File":
			return i, o, ""
		case parts[0] == "rc" && ts == "io.ReadCloser":
			return i, o, ""
		}
	}
	return -1, nil, ""
}

// hasCloserSig: a parameter or result of h can be closed (has a Close method): only such helpers
// matter to the ownership analysis and are interpreted in their caller's context.
func hasCloserSig(h *FuncInfo) bool {
	sig, ok := h.Obj.Type().(*types.Signature)
	if !ok {
		return false
	}
	var closable func(t types.Type, depth int) bool
	closable = func(t types.Type, depth int) bool {
		for _, tt := range []types.Type{t, types.NewPointer(t)} {
			ms := types.NewMethodSet(tt)
			for i := 0; i < ms.Len(); i++ {
				if ms.At(i).Obj().Name() == "Close" {
					return true
				}
			}
		}
		// a struct (or channel of structs) that carries something closable: an upload request
		if depth < 2 {
			switch u := t.Underlying().(type) {
			case *types.Struct:
				for i := 0; i < u.NumFields(); i++ {
					if closable(u.Field(i).Type(), depth+1) {
						return true
					}
				}
			case *types.Pointer:
				return closable(u.Elem(), depth+1)
			}
		}
		return false
	}
	for i := 0; i < sig.Params().Len(); i++ {
		if closable(sig.Params().At(i).Type(), 0) {
			return true
		}
	}
	for i := 0; i < sig.Results().Len(); i++ {
		if closable(sig.Results().At(i).Type(), 0) {
			return true
		}
	}
	return false
}
