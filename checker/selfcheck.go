package main

// Positive controls for the thorough tier: every patch under
// /verif/mutants/<property>/ breaks exactly one rule instance of that
// property in a scratch copy of /repo's *current* tree (made outside /repo and
// /verif, removed afterwards). The check must report a violation on each
// mutant, otherwise a rule "went blind" and the thorough run fails.
// A patch that no longer applies (the tree changed under it) is reported as
// skipped in the evidence, not as a failure of the property.

import (
	"bufio"
	"fmt"
	"os"
	"os/exec"
	"path/filepath"
	"sort"
	"strings"
	"sync"
)

type mutantResult struct {
	Name     string `json:"mutant"`
	Expect   string `json:"expected_rule"`
	Outcome  string `json:"outcome"` // killed | survived | skipped(...)
	Reported string `json:"reported,omitempty"`
}

func patchHeader(path, key string) string {
	f, err := os.Open(path)
	if err != nil {
		return ""
	}
	defer f.Close()
	sc := bufio.NewScanner(f)
	for sc.Scan() {
		l := sc.Text()
		if strings.HasPrefix(l, "# "+key+":") {
			return strings.TrimSpace(strings.TrimPrefix(l, "# "+key+":"))
		}
		if strings.HasPrefix(l, "--- ") {
			break
		}
	}
	return ""
}

func copyTree(src, dst string) error {
	cmd := exec.Command("rsync", "-a", "--exclude", ".git", "--exclude", "bazel-*", src+"/", dst+"/")
	out, err := cmd.CombinedOutput()
	if err != nil {
		return fmt.Errorf("rsync: %v: %s", err, out)
	}
	return nil
}

func runOneMutant(id, repo, vdir, patch string) mutantResult {
	res := mutantResult{Name: filepath.Base(patch), Expect: patchHeader(patch, "expect")}
	tmp, err := os.MkdirTemp("", "vcheck-mut-")
	if err != nil {
		res.Outcome = "skipped(" + err.Error() + ")"
		return res
	}
	defer os.RemoveAll(tmp)
	rdir := filepath.Join(tmp, "repo")
	vtmp := filepath.Join(tmp, "verif")
	_ = os.MkdirAll(rdir, 0o755)
	_ = os.MkdirAll(vtmp, 0o755)
	if err := copyTree(repo, rdir); err != nil {
		res.Outcome = "skipped(" + err.Error() + ")"
		return res
	}
	if b, err := os.ReadFile(filepath.Join(vdir, "known_findings.jsonl")); err == nil {
		_ = os.WriteFile(filepath.Join(vtmp, "known_findings.jsonl"), b, 0o644)
	}
	if b, err := os.ReadFile(filepath.Join(vdir, "properties.jsonl")); err == nil {
		_ = os.WriteFile(filepath.Join(vtmp, "properties.jsonl"), b, 0o644)
	}
	ap := exec.Command("patch", "-p1", "-s", "--no-backup-if-mismatch", "-i", patch)
	ap.Dir = rdir
	if out, err := ap.CombinedOutput(); err != nil {
		res.Outcome = "skipped(patch does not apply to the current tree: " + strings.TrimSpace(string(out)) + ")"
		return res
	}
	exe, _ := os.Executable()
	cmd := exec.Command(exe, "-p", id, "-tier", "quick", "-repo", rdir, "-verif", vtmp)
	cmd.Env = append(os.Environ(), "VCHECK_NO_CONTROLS=1")
	out, _ := cmd.CombinedOutput()
	txt := string(out)
	if strings.Contains(txt, "type-check errors") {
		res.Outcome = "skipped(mutant does not compile)"
		return res
	}
	var rules []string
	for _, l := range strings.Split(txt, "\n") {
		if strings.HasPrefix(l, "  R") && strings.Contains(l, "[") {
			f := strings.Fields(l)
			if len(f) >= 2 {
				rules = append(rules, f[0]+" "+f[1])
			}
		}
	}
	res.Reported = strings.Join(rules, "; ")
	if !strings.Contains(txt, "VIOLATION property="+id) {
		res.Outcome = "survived"
		return res
	}
	if res.Expect != "" {
		hit := false
		for _, r := range rules {
			for _, e := range strings.Split(res.Expect, ",") {
				if e = strings.TrimSpace(e); e != "" && strings.HasPrefix(r, e+" ") {
					hit = true
				}
			}
		}
		if !hit {
			res.Outcome = "killed-by-other-rule"
			return res
		}
	}
	res.Outcome = "killed"
	return res
}

func runMutantControls(id, repo, vdir string, r *Report) {
	if os.Getenv("VCHECK_NO_CONTROLS") != "" {
		return
	}
	// A mutant belongs to every property that owns one of the rules it is
	// expected to trip.
	all, _ := filepath.Glob(filepath.Join(vdir, "mutants", "*.patch"))
	sort.Strings(all)
	owned := map[string]bool{}
	if chk := registry[id]; chk != nil {
		for _, ru := range chk.Rules {
			owned[ru] = true
		}
	}
	var patches []string
	for _, p := range all {
		for _, e := range strings.Split(patchHeader(p, "expect"), ",") {
			if owned[strings.TrimSpace(e)] {
				patches = append(patches, p)
				break
			}
		}
	}
	results := make([]mutantResult, len(patches))
	sem := make(chan struct{}, 8)
	var wg sync.WaitGroup
	for i, p := range patches {
		wg.Add(1)
		go func(i int, p string) {
			defer wg.Done()
			sem <- struct{}{}
			defer func() { <-sem }()
			results[i] = runOneMutant(id, repo, vdir, p)
		}(i, p)
	}
	wg.Wait()
	r.Rule("CTRL", "selfcheck", "positive controls: each recorded mutant of this property (one rule instance broken in a scratch copy of the current tree) must be reported", 0)
	killed, skipped := 0, 0
	for _, m := range results {
		switch {
		case strings.HasPrefix(m.Outcome, "killed"):
			killed++
			r.OK("CTRL", "mutant:"+m.Name, "", "mutant is reported ("+m.Outcome+": "+m.Reported+")")
		case strings.HasPrefix(m.Outcome, "skipped"):
			skipped++
			r.Notes = append(r.Notes, "control "+m.Name+" "+m.Outcome)
		default:
			r.Fail("CTRL", "mutant:"+m.Name, "", "the check did not report mutant "+m.Name+" (expected rule "+m.Expect+"): a rule went blind")
		}
	}
	r.Count("mutant controls run", len(results))
	r.Count("mutant controls killed", killed)
	r.Count("mutant controls skipped", skipped)
}
