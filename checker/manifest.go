package main

import (
	"encoding/json"
	"fmt"
	"sort"
	"strings"
)

// printManifest emits /verif/MANIFEST.json from the registry, so that the
// interface file and the checker cannot drift apart.
func printManifest() {
	ids := []string{}
	for id := range registry {
		ids = append(ids, id)
	}
	sort.Strings(ids)
	type level struct {
		Category  string `json:"category"`
		Text      string `json:"text"`
		DesignRef string `json:"design_ref"`
	}
	type check struct {
		PropertyID string `json:"property_id"`
		Quick      string `json:"quick_cmd"`
		Thorough   string `json:"thorough_cmd"`
		Evidence   string `json:"evidence_file"`
		Replay     string `json:"replay_cmd_template"`
		Engine     string `json:"engine"`
		Level      level  `json:"level_claimed"`
		Note       string `json:"level_note"`
		Technique  string `json:"technique"`
	}
	checks := []check{}
	for _, id := range ids {
		c := registry[id]
		checks = append(checks, check{
			PropertyID: id,
			Quick:      "./bin/vcheck -p " + id + " -tier quick",
			Thorough:   "./bin/vcheck -p " + id + " -tier thorough",
			Evidence:   "/verif/evidence/" + id + ".json",
			Replay:     "./bin/vcheck -replay {path}",
			Engine:     "vcheck",
			Level: level{
				Category:  "other",
				Text:      "static analysis, rules " + strings.Join(c.Rules, ", ") + ". " + strings.TrimPrefix(c.Explanation, structural) + " Every obligation is keyed by rule + construct and recomputed from /repo's working tree on every run; each rule has a minimum instance count confirmed by hand so that it cannot pass vacuously. The thorough tier repeats the analysis for the cgo-off build configuration and re-runs the property's mutant controls (patches under /verif/mutants that must be reported).",
				DesignRef: "DESIGN.md section 'Per-property rules', " + id,
			},
			Note:      c.NotDecided + " Trusted: " + strings.Join(c.Trusted, "; "),
			Technique: "static analysis: path-sensitive dataflow/typestate over go/cfg with bounded inlining, type-resolved call and field queries (go/packages, go/types)",
		})
	}
	m := map[string]any{
		"version":   1,
		"setup_cmd": "cd checker && . ./env.sh && go build -o ../bin/vcheck .",
		"hooks": map[string]any{
			"guard":            "verif",
			"enable":           "no hooks: the checks read /repo's source and need no instrumentation; nothing in /repo is guarded by the tag",
			"baseline_off_cmd": "cd /repo && GOFLAGS=-mod=mod GOPROXY=off go test -vet=off -count=1 ./...",
			"source_commits":   []string{},
			"add_only":         true,
		},
		"engines": []map[string]any{{
			"name": "vcheck", "path": "checker/", "serves_properties": ids,
			"kind_free_text": "repository-specific static analyser (Go, golang.org/x/tools v0.50.0): loader, path-sensitive abstract interpreter over go/cfg (nil/bool/relational/linear/string-template/typestate facts, bounded inlining, defers, select, goroutine bodies), rule generators per property, obligations keyed by rule+construct, known-findings matching, mutant controls",
		}},
		"checks":         checks,
		"not_applicable": []any{},
		"notes":          "All 20 properties are decided by static analysis only, each through structural necessary conditions (level 'other'); what each check does not decide is stated in level_note and DESIGN.md. Genuine defects found on the pinned tree were repaired in /repo by 'fix:' commits and are recorded in known_findings.jsonl as fixed: lines.",
	}
	b, _ := json.MarshalIndent(m, "", " ")
	fmt.Println(string(b))
}
