package main

// C15 — key spaces (R15b, R15c), mangling (R15d), key validation (R15e).

import (
	"go/token"
	"sort"
	"go/types"
	"fmt"
	"go/ast"
	"strings"
)

func keyspaceRules(c *Ctx) {
	R := c.R
	R.Rule("R15b", "E2+E3", "compressed reads are CAS-only: GetZstd fixes kind = CAS, get rejects zstd for other kinds before any lookup, and the server calls GetZstd only where the kind is CAS", 3)
	R.Rule("R15c", "E3", "the kind is the namespace: the kind argument of every Cache call in package server is a constant or the kind parseRequestURL derived from the URL (cas/ -> CAS, ac/ -> AC iff validation is on, else RAW)", 15)
	R.Rule("R15d", "E2+E3", "mangling at every AC entry point with the request's instance: each action-cache access is dominated by `if mangleACKeys { hash = TransformActionCacheKey(hash, instance) }` with the request's instance name; CAS keys are never mangled; TransformActionCacheKey returns the key unchanged iff the instance is empty, else hex(sha256(key || instance))", 6)
	R.Rule("R15e", "E2", "keys are validated before they become file names: every Cache call in package server whose hash comes from a request is dominated by validateHash / the hash regexp / the URL regexp / validate.ActionResult, or the hash is the output of hex.EncodeToString; cache/disk checks the length before slicing the hash", 15)

	// R15b
	if fi := c.P.MustFunc(R, "R15b", "disk.(*diskCache).GetZstd"); fi != nil {
		ok := false
		for _, call := range callsIn(fi.Decl.Body, false) {
			if calleeKey(fi.Pkg.TypesInfo, call) == kGet && exprStr(call.Args[1]) == "cache.CAS" && exprStr(call.Args[5]) == "true" {
				ok = true
			}
		}
		R.Check(ok, "R15b", c.Cfg+"GetZstd:kind", c.P.Pos(fi.Decl.Pos()), "GetZstd always reads the CAS", "GetZstd does not call get(ctx, cache.CAS, ..., true)")
	}
	if fi := c.P.MustFunc(R, "R15b", kGet); fi != nil {
		var base *Base
		n := 0
		base = NewBase(Hooks{EveryCall: func(x *Exec, call *ast.CallExpr, s St) []St {
			if calleeKey(x.Fn.Info, call) == kAvail {
				n++
				kt, _ := base.Term(x, roleIdent(x, "kind", "param:1"), s)
				zt, _ := base.Term(x, roleIdent(x, "zstd", "param:5"), s)
				isCAS, known := relLookup(s, "#1", "==", kt)
				ok := s.Get("b:"+zt) == "false" || (known && isCAS)
				R.Check(ok, "R15b", c.Cfg+"get:lookup-guard", c.P.Pos(call.Pos()), "the lookup is reached with zstd only for kind == CAS", "a compressed read of a non-CAS key space can reach the lookup", x.Trace()...)
			}
			return []St{s}
		}})
		x := NewExec(c.P.FlowOf(fi), base)
		x.Run(newSt())
		R.Check(n > 0, "R15b", c.Cfg+"get:lookup-found", "", "the lookup call was analysed", "not found")
	}

	// helpers whose cache accesses are judged in the context of their callers: every unexported
	// function or method of package server that is called from (non-test) code of the package.
	// Extracting part of a handler into a helper therefore moves no obligation out of sight.
	var helpers []string
	isHelper := map[string]bool{}
	{
		srvFuncs := map[string]*FuncInfo{}
		for _, fi := range c.P.FuncsInPkg("/server") {
			if !strings.HasSuffix(c.P.Fset.Position(fi.Decl.Pos()).Filename, "_test.go") {
				srvFuncs[fi.Key] = fi
			}
		}
		for _, fi := range srvFuncs {
			for _, call := range callsIn(fi.Decl.Body, true) {
				k := calleeKey(fi.Pkg.TypesInfo, call)
				if h := srvFuncs[k]; h != nil && h != fi && !ast.IsExported(h.Decl.Name.Name) && !isHelper[k] {
					isHelper[k] = true
					helpers = append(helpers, k)
				}
			}
		}
		sort.Strings(helpers)
	}
	type site struct {
		fn   *FuncInfo
		call *ast.CallExpr
		op   string
	}
	var sites []site
	roots := map[string]bool{}
	callerOf := map[string]int{}
	for _, fi := range c.P.FuncsInPkg("/server") {
		if strings.HasSuffix(c.P.Fset.Position(fi.Decl.Pos()).Filename, "_test.go") {
			continue
		}
		for _, call := range callsIn(fi.Decl.Body, true) {
			k := calleeKey(fi.Pkg.TypesInfo, call)
			if isHelper[k] {
				callerOf[k]++
			}
			if strings.HasPrefix(k, "disk.(Cache).") {
				op := strings.TrimPrefix(k, "disk.(Cache).")
				switch op {
				case "Get", "Put", "Contains", "GetZstd", "GetValidatedActionResult":
					sites = append(sites, site{fi, call, op})
					if !isHelper[fi.Key] {
						roots[fi.Key] = true
					}
				}
			}
		}
	}
	_ = callerOf
	// roots: the non-helper functions from which a cache access is reachable through helpers
	{
		hasSite := map[string]bool{}
		for _, st := range sites {
			hasSite[st.fn.Key] = true
		}
		callees := map[string][]string{}
		for _, fi := range c.P.FuncsInPkg("/server") {
			if strings.HasSuffix(c.P.Fset.Position(fi.Decl.Pos()).Filename, "_test.go") {
				continue
			}
			for _, call := range callsIn(fi.Decl.Body, true) {
				if k := calleeKey(fi.Pkg.TypesInfo, call); isHelper[k] {
					callees[fi.Key] = append(callees[fi.Key], k)
				}
			}
		}
		var reaches func(k string, seen map[string]bool) bool
		reaches = func(k string, seen map[string]bool) bool {
			if hasSite[k] {
				return true
			}
			if seen[k] {
				return false
			}
			seen[k] = true
			for _, c2 := range callees[k] {
				if reaches(c2, seen) {
					return true
				}
			}
			return false
		}
		for _, fi := range c.P.FuncsInPkg("/server") {
			if strings.HasSuffix(c.P.Fset.Position(fi.Decl.Pos()).Filename, "_test.go") || isHelper[fi.Key] {
				continue
			}
			if reaches(fi.Key, map[string]bool{}) {
				roots[fi.Key] = true
			}
		}
	}
	// R15c: the kind argument is a constant, or the kind parseRequestURL derived from the request's
	// URL path - followed through the parameters of helpers to every caller
	var kindOK func(fn *FuncInfo, e ast.Expr, depth int) (bool, string)
	kindOK = func(fn *FuncInfo, e ast.Expr, depth int) (bool, string) {
		info := fn.Pkg.TypesInfo
		if tv, ok := info.Types[e]; ok && tv.Value != nil {
			// only the CAS and the validated action cache are addressed by a constant; the raw
			// key space is chosen by parseRequestURL alone
			v := tv.Value.ExactString()
			return v == constOfKind(c, "CAS") || v == constOfKind(c, "AC"), "constant key space " + exprStr(e) + " (only cache.CAS and cache.AC are addressed directly)"
		}
		o := identObj(info, e)
		if o == nil || depth > 3 {
			return false, "kind argument is " + exprStr(e)
		}
		// a parameter of a helper: every caller must pass an acceptable kind
		for i := 0; ; i++ {
			po := paramObj(fn, i)
			if po == nil {
				break
			}
			if po != o {
				continue
			}
			if !isHelper[fn.Key] {
				return false, "kind is a parameter of " + fn.Key + ", which is not a helper with known callers"
			}
			n := 0
			for _, g := range c.P.FuncsInPkg("/server") {
				if strings.HasSuffix(c.P.Fset.Position(g.Decl.Pos()).Filename, "_test.go") {
					continue
				}
				for _, call := range callsIn(g.Decl.Body, true) {
					if calleeKey(g.Pkg.TypesInfo, call) == fn.Key && i < len(call.Args) {
						n++
						if ok, why := kindOK(g, call.Args[i], depth+1); !ok {
							return false, why + " (passed by " + g.Key + ")"
						}
					}
				}
			}
			return n > 0, "no caller found"
		}
		// a local defined by parseRequestURL(<request>.URL.Path, <receiver>.validateAC)
		found, good := false, false
		ast.Inspect(fn.Decl.Body, func(n ast.Node) bool {
			if as, k2 := n.(*ast.AssignStmt); k2 && len(as.Rhs) == 1 && len(as.Lhs) == 4 {
				if call, k3 := as.Rhs[0].(*ast.CallExpr); k3 && calleeKey(info, call) == "server.parseRequestURL" && identObj(info, as.Lhs[0]) == o {
					found = true
					a0 := strings.TrimPrefix(exprStr(call.Args[0]), exprStr(rootOfSel(call.Args[0])))
					good = a0 == ".URL.Path" && strings.HasSuffix(info.TypeOf(rootOfSel(call.Args[0])).String(), "net/http.Request") && strings.HasSuffix(exprStr(call.Args[1]), ".validateAC")
				}
			}
			return true
		})
		if found {
			return good, "parseRequestURL is not applied to the request's URL path and the validateAC setting"
		}
		return false, "kind argument is " + exprStr(e)
	}
	ord := map[string]int{}
	for _, st := range sites {
		if st.op == "GetZstd" || st.op == "GetValidatedActionResult" {
			continue
		}
		ord[st.fn.Key+st.op]++
		key := fmt.Sprintf("%s%s:%s#%d:kind", c.Cfg, st.fn.Key, st.op, ord[st.fn.Key+st.op])
		ok, why := kindOK(st.fn, st.call.Args[1], 0)
		R.Check(ok, "R15c", key, c.P.Pos(st.call.Pos()), "the kind argument is a constant key space or the one derived from the request URL", why)
	}
	if fi := c.P.MustFunc(R, "R15c", "server.parseRequestURL"); fi != nil {
		var base *Base
		got := map[string]bool{}
		base = NewBase(Hooks{Exit: func(x *Exec, ret *ast.ReturnStmt, s St) {
			if ret == nil || len(ret.Results) != 4 || RetNil(x.Fn, s, 3) == "nonnil" {
				return
			}
			cas, va := "", ""
			for k, v := range s.m {
				if strings.HasPrefix(k, `p:#"cas/"==`) {
					cas = v
				}
				if strings.HasPrefix(k, "b:validateAC@") {
					va = v
				}
			}
			got[fmt.Sprintf("cas=%s,validate=%s->%s", cas, va, exprStr(ret.Results[0]))] = true
		}})
		base.H.Call = errFork(base)
		x := NewExec(c.P.FlowOf(fi), base)
		x.Run(newSt())
		want := []string{"cas=T,validate=->cache.CAS", "cas=F,validate=true->cache.AC", "cas=F,validate=false->cache.RAW"}
		ok := len(got) == 3
		for _, w := range want {
			if !got[w] {
				ok = false
			}
		}
		R.Check(ok, "R15c", c.Cfg+"parseRequestURL:table", c.P.Pos(fi.Decl.Pos()), "parseRequestURL maps cas/ -> CAS, ac/ -> AC when validating, else RAW", fmt.Sprintf("mapping is %v", keysOf(got)))
		// the grammar is the pattern of the package-level regexp whose FindStringSubmatch parses the URL
		pat := ""
		for _, call := range callsIn(fi.Decl.Body, true) {
			if fullCalleeName(fi.Pkg.TypesInfo, call) == "regexp.(Regexp).FindStringSubmatch" {
				if sel, ok := call.Fun.(*ast.SelectorExpr); ok {
					pat = regexpPattern(c, fi.Pkg.TypesInfo, sel.X)
				}
			}
		}
		R.Check(pat == "^/?(.*/)?(ac/|cas/)([a-f0-9]{64})$", "R15c", c.Cfg+"url-grammar", "", "the URL grammar is ^/?(.*/)?(ac/|cas/)([a-f0-9]{64})$", "the URL grammar is "+pat)
		// group 3 is the hash, group 1 the instance; the grammar is applied to the raw request path
		info := fi.Pkg.TypesInfo
		var mObj types.Object
		subjectRaw := false
		ast.Inspect(fi.Decl.Body, func(n ast.Node) bool {
			if as, ok := n.(*ast.AssignStmt); ok && len(as.Lhs) == 1 && len(as.Rhs) == 1 {
				if call, ok := ast.Unparen(as.Rhs[0]).(*ast.CallExpr); ok && fullCalleeName(info, call) == "regexp.(Regexp).FindStringSubmatch" && len(call.Args) == 1 {
					mObj = identObj(info, as.Lhs[0])
					if o := identObj(info, call.Args[0]); o != nil && o == paramObj(fi, 0) {
						subjectRaw = true
					}
				}
			}
			return true
		})
		okGroups, okInst := false, false
		urlAssigned := false
		ast.Inspect(fi.Decl.Body, func(n ast.Node) bool {
			as, ok := n.(*ast.AssignStmt)
			if !ok || len(as.Lhs) != 1 || len(as.Rhs) != 1 {
				return true
			}
			if o := identObj(info, as.Lhs[0]); o != nil && o == paramObj(fi, 0) {
				urlAssigned = true
			}
			if sl, ok := ast.Unparen(as.Rhs[0]).(*ast.SliceExpr); ok && mObj != nil && identObj(info, sl.X) == mObj && sl.Low != nil && exprStr(sl.Low) == "2" && sl.High == nil {
				okGroups = true
			}
			// instance = strings.TrimSuffix(m[1], "/")
			if call, ok := ast.Unparen(as.Rhs[0]).(*ast.CallExpr); ok && fullCalleeName(info, call) == "strings.TrimSuffix" && len(call.Args) == 2 {
				if ix, ok := ast.Unparen(call.Args[0]).(*ast.IndexExpr); ok && mObj != nil && identObj(info, ix.X) == mObj && exprStr(ix.Index) == "1" {
					if v, _ := constString(info, call.Args[1]); v == "/" {
						if o := identObj(info, as.Lhs[0]); o != nil && o == resultObj(fi, 2) {
							okInst = true
						}
					}
				}
			}
			return true
		})
		nInst := 0
		ast.Inspect(fi.Decl.Body, func(n ast.Node) bool {
			if as, ok := n.(*ast.AssignStmt); ok {
				for _, l := range as.Lhs {
					if o := identObj(info, l); o != nil && o == resultObj(fi, 2) {
						nInst++
					}
				}
			}
			return true
		})
		R.Check(okGroups, "R15c", c.Cfg+"parseRequestURL:groups", c.P.Pos(fi.Decl.Pos()), "kind and hash are taken from capture groups 2 and 3", "no slice m[2:] of the regexp match")
		R.Check(subjectRaw && !urlAssigned, "R15d", c.Cfg+"parseRequestURL:subject-is-raw-url", c.P.Pos(fi.Decl.Pos()), "the URL grammar is applied to the request path as received (the function's own url parameter, never reassigned)",
			"the URL regexp is matched against something other than the raw url parameter: the instance name (and the key) parsed over HTTP then differs from the one gRPC clients send")
		R.Check(okInst && nInst == 1, "R15d", c.Cfg+"parseRequestURL:instance-is-group1", c.P.Pos(fi.Decl.Pos()), "the HTTP instance name is capture group 1 without its trailing slash and nothing else (so that it equals the gRPC instance_name)",
			fmt.Sprintf("instance result is not exactly strings.TrimSuffix(m[1], \"/\") (assignments to it: %d)", nInst))
	}

	// R15d + R15e on the path engine
	mpos := 0
	// locals that hold the instance name parsed from the request URL (third result of parseRequestURL)
	urlInstanceTerms := map[string]bool{}
	for _, fi := range c.P.FuncsInPkg("/server") {
		finfo := fi.Pkg.TypesInfo
		ast.Inspect(fi.Decl, func(n ast.Node) bool {
			if as, ok := n.(*ast.AssignStmt); ok && len(as.Rhs) == 1 && len(as.Lhs) == 4 {
				if call, ok := as.Rhs[0].(*ast.CallExpr); ok && calleeKey(finfo, call) == "server.parseRequestURL" {
					if o := identObj(finfo, as.Lhs[2]); o != nil {
						urlInstanceTerms[objID(o)] = true
					}
				}
			}
			return true
		})
	}
	validHash := func(b *Base, x *Exec, s St, t string) bool {
		if t == "" {
			return false
		}
		if s.Get("okhash:"+t) == "1" {
			return true
		}
		// resolve range variables to the slice they range over
		root := t
		rest := ""
		if i := strings.IndexAny(t, ".["); i > 0 {
			root, rest = t[:i], t[i:]
		}
		for d := 0; d < 3; d++ {
			if sl := s.Get("rangeof:" + root); sl != "" {
				t2 := sl + rest
				root, rest = t2, ""
				if i := strings.Index(t2, "@"); i > 0 {
					if j := strings.IndexAny(t2[i:], ".["); j > 0 {
						root, rest = t2[:i+j], t2[i+j:]
					}
				}
				t = t2
				continue
			}
			break
		}
		for k := range s.m {
			if strings.HasPrefix(k, "validated:") && strings.HasPrefix(t, k[len("validated:"):]+".") {
				return true
			}
		}
		return false
	}
	for key := range roots {
		key := key
		fi := c.P.Func(key)
		if fi == nil {
			continue
		}
		var base *Base
		markOK := func(x *Exec, s St, e ast.Expr) St {
			t, ok := base.Term(x, e, s)
			if !ok {
				return s
			}
			s = s.Set("okhash:"+t, "1")
			// every element of the ranged slice has now passed (a failing one returns)
			if i := strings.IndexAny(t, "."); i > 0 {
				if sl := s.Get("rangeof:" + t[:i]); sl != "" {
					s = s.Set("elemvalid:"+sl+"|"+t[i:], "1")
				}
			}
			return s
		}
		base = NewBase(Hooks{
			Call: func(x *Exec, call *ast.CallExpr, lhs []ast.Expr, s St) ([]St, bool) {
				info := x.Fn.Info
				k := calleeKey(info, call)
				switch k {
				case "server.(*grpcServer).validateHash":
					return base.ForkErr(x, lhs, 0, s, func(okSt St) St { return markOK(x, okSt, call.Args[0]) }, nil), true
				case "validate.ActionResult":
					at, ok := base.Term(x, call.Args[0], s)
					return base.ForkErr(x, lhs, 0, s, func(okSt St) St {
						if ok {
							return okSt.Set("validated:"+at, "1")
						}
						return okSt
					}, nil), true
				case "server.(*grpcServer).parseWriteResource", "server.(*grpcServer).parseReadResource":
					return base.ForkErr(x, lhs, 3, s, func(okSt St) St {
						if t, ok := base.LTerm(x, lhs[0], okSt); ok {
							return okSt.Set("okhash:"+t, "1")
						}
						return okSt
					}, nil), true
				case "disk.(Cache).GetValidatedActionResult":
					return base.ForkErr(x, lhs, 2, s, func(okSt St) St {
						if t, ok := base.LTerm(x, lhs[0], okSt); ok && exprStr(lhs[0]) != "_" {
							return okSt.Set("validated:"+t, "1")
						}
						return okSt
					}, nil), true
				case "server.parseRequestURL":
					// inline, then: the hash result is a capture of the URL regexp
					if pf := x.Fn.P.Func(k); pf != nil && len(lhs) == 4 {
						outs := base.InlineCall(x, call, pf, lhs, s)
						for i := range outs {
							if et, ok := base.Term(x, lhs[3], outs[i]); ok && outs[i].Get("n:"+et) == "nil" {
								if ht, ok := base.LTerm(x, lhs[1], outs[i]); ok {
									outs[i] = outs[i].Set("okhash:"+ht, "1")
								}
							}
						}
						return outs, true
					}
				}
				if fullCalleeName(info, call) == "encoding/hex.EncodeToString" && len(lhs) == 1 {
					st := base.AssignValue(x, lhs[0], nil, s)
					if t, ok := base.LTerm(x, lhs[0], st); ok {
						st = st.Set("okhash:"+t, "1")
					}
					return []St{st}, true
				}
				return errFork(base)(x, call, lhs, s)
			},
			Cond: func(x *Exec, cond ast.Expr, truth bool, s St) ([]St, bool) {
				if call, ok := ast.Unparen(cond).(*ast.CallExpr); ok && strings.HasSuffix(exprStr(call.Fun), "HashKeyRegex.MatchString") {
					if truth {
						return []St{markOK(x, s, call.Args[0])}, true
					}
					return []St{s}, true
				}
				return nil, false
			},
			Stmt: func(x *Exec, n ast.Node, s St) ([]St, bool) {
				// leaving a loop that validates v.Hash of every element (and
				// returns on the first bad one): all elements are valid, also
				// after zero iterations
				le, ok := n.(*LoopExit)
				if !ok || le.Range.Value == nil {
					return nil, false
				}
				v := exprStr(le.Range.Value)
				validates := false
				for _, call := range callsIn(le.Range.Body, false) {
					k := calleeKey(x.Fn.Info, call)
					if (k == "server.(*grpcServer).validateHash" || strings.HasSuffix(exprStr(call.Fun), "HashKeyRegex.MatchString")) && len(call.Args) >= 1 && exprStr(call.Args[0]) == v+".Hash" {
						validates = true
					}
				}
				if validates {
					if st, ok := base.Term(x, le.Range.X, s); ok {
						return []St{s.Set("elemvalid:"+st+"|.Hash", "1")}, true
					}
				}
				return nil, false
			},
			PreAssign: func(x *Exec, as *ast.AssignStmt, s St) St {
				// req.BlobDigest = &pb.Digest{Hash: hex.EncodeToString(...), ...}
				if len(as.Lhs) == 1 && len(as.Rhs) == 1 {
					r := ast.Unparen(as.Rhs[0])
					if u, ok := r.(*ast.UnaryExpr); ok && u.Op.String() == "&" {
						r = u.X
					}
					if cl, ok := r.(*ast.CompositeLit); ok {
						for _, el := range cl.Elts {
							if kv, ok := el.(*ast.KeyValueExpr); ok && exprStr(kv.Key) == "Hash" {
								if call, ok := kv.Value.(*ast.CallExpr); ok && fullCalleeName(x.Fn.Info, call) == "encoding/hex.EncodeToString" {
									if lt, ok := base.LTerm(x, as.Lhs[0], s); ok {
										s = s.Set("pendok", lt+".Hash")
									}
								}
							}
						}
					}
				}
				// hash = cache.TransformActionCacheKey(hash, instance, logger)
				if len(as.Lhs) == 1 && len(as.Rhs) == 1 {
					if call, ok := as.Rhs[0].(*ast.CallExpr); ok && calleeKey(x.Fn.Info, call) == "cache.TransformActionCacheKey" {
						if lt, ok := base.Term(x, as.Lhs[0], s); ok {
							at, _ := base.Term(x, call.Args[0], s)
							prev := "0"
							if validHash(base, x, s, at) {
								prev = "1"
							}
							inst := "other:" + exprStr(call.Args[1])
							if sel, ok := ast.Unparen(call.Args[1]).(*ast.SelectorExpr); ok && sel.Sel.Name == "InstanceName" {
								inst = "request-instance"
							} else if it, ok := base.Term(x, call.Args[1], s); ok && urlInstanceTerms[it] {
								inst = "request-instance"
							}
							s = s.Set("pendmangle", lt+"|"+inst+"|"+prev)
						}
					}
					// copies: hash = req.ActionResult.StdoutDigest.Hash
					if rt, ok := base.Term(x, as.Rhs[0], s); ok && validHash(base, x, s, rt) {
						if lt, ok := base.LTerm(x, as.Lhs[0], s); ok {
							s = s.Set("pendok", lt)
						}
					}
				}
				return s
			},
			Assign: func(x *Exec, as *ast.AssignStmt, s St) []St {
				if pm := s.Get("pendmangle"); pm != "" {
					p := strings.Split(pm, "|")
					s = s.Set("pendmangle", "").Set("mangled:"+p[0], p[1])
					// hex(sha256(..)) or, for the empty instance, the key as it was
					s = s.Set("hexorsame:"+p[0], "1")
					if p[2] == "1" {
						s = s.Set("okhash:"+p[0], "1")
					}
				}
				if po := s.Get("pendok"); po != "" {
					s = s.Set("pendok", "").Set("okhash:"+po, "1")
				}
				// for _, v := range S
				if len(as.Rhs) == 1 && len(as.Lhs) == 2 {
					if u, ok := as.Rhs[0].(*ast.UnaryExpr); ok && u.Op.String() == "range" {
						if st, ok := base.Term(x, u.X, s); ok {
							if vt, ok := base.LTerm(x, as.Lhs[1], s); ok {
								s = s.Set("rangeof:"+vt, st)
								for k := range s.m {
									if strings.HasPrefix(k, "elemvalid:"+st+"|") {
										s = s.Set("okhash:"+vt+k[len("elemvalid:"+st+"|"):], "1")
									}
								}
							}
						}
					}
				}
				return []St{s}
			},
			EveryCall: func(x *Exec, call *ast.CallExpr, s St) []St {
				info := x.Fn.Info
				k := calleeKey(info, call)
				if !strings.HasPrefix(k, "disk.(Cache).") {
					return []St{s}
				}
				op := strings.TrimPrefix(k, "disk.(Cache).")
				hi := 2
				switch op {
				case "GetZstd", "GetValidatedActionResult":
					hi = 1
				case "Get", "Put", "Contains":
				default:
					return []St{s}
				}
				fnName := x.Fn.Name
				if i := strings.Index(fnName, "$"); i > 0 {
					fnName = fnName[:i]
				}
				site := fmt.Sprintf("%s%s:%s#%d", c.Cfg, fnName, op, callOrdinal(x, call))
				if op == "GetZstd" {
					// R15b: where the handler distinguishes kinds, a compressed read is CAS-only
					if ke := roleIdent(x, "kind", "lhs:server.parseRequestURL:0"); ke != nil {
						if t := x.Fn.Info.TypeOf(ke); t != nil && strings.HasSuffix(t.String(), "cache.EntryKind") {
							kt, _ := base.Term(x, ke, s)
							isCAS := s.Get("c:"+kt) != "" && s.Get("c:"+kt) == constOfKind(c, "CAS")
							for a, v := range s.m {
								if v == "T" && strings.HasPrefix(a, "p:#") && strings.HasSuffix(a, "=="+kt) {
									if cv := constOfKind(c, "CAS"); cv != "" && strings.HasPrefix(a, "p:#"+cv+"==") {
										isCAS = true
									}
								}
							}
							R.Check(isCAS, "R15b", site+":cas-only", c.P.Pos(call.Pos()), "GetZstd is called only on paths where the request's kind is CAS",
								"a compressed read can be served for a non-CAS key space (GetZstd always reads the CAS: the answer comes from another namespace)", x.Trace()...)
						}
					}
				}
				ht, hok := base.Term(x, call.Args[hi], s)
				viaMaybeInline := false
				for y := x; y != nil; y = y.Parent {
					if strings.HasPrefix(y.Fn.Name, "server.(*grpcServer).maybeInline") {
						viaMaybeInline = true
					}
				}
				if viaMaybeInline {
					R.OK("R15e", site+":validated", c.P.Pos(call.Pos()), "frozen exception: maybeInline only receives digests of an ActionResult that passed validate.ActionResult (GetValidatedActionResult) or digests it computed with sha256")
				} else {
					valid := hok && validHash(base, x, s, ht)
					// a mangled key is a hex digest unless the instance is empty, in which case it is the original key
					R.Check(valid, "R15e", site+":validated", c.P.Pos(call.Pos()), "the key handed to the cache was validated (validateHash / regexp / validated ActionResult / hex digest) on every path",
						"a request-controlled key "+exprStr(call.Args[hi])+" can reach the cache (and become a file name) without validation", x.Trace()...)
				}
				// ---- R15d ----
				isAC := op == "GetValidatedActionResult" || (hi == 2 && exprStr(call.Args[1]) == "cache.AC")
				kindVar := false
				if hi == 2 {
					if tv, ok := x.Fn.Info.Types[call.Args[1]]; !ok || tv.Value == nil {
						kindVar = true
					}
				}
				mangle := ""
				for kk, v := range s.m {
					if strings.HasPrefix(kk, "b:") && strings.HasSuffix(kk, ".mangleACKeys") {
						mangle = v
					}
				}
				m := ""
				if hok {
					m = s.Get("mangled:" + ht)
				}
				if kindVar {
					kc := ""
					if kt, ok := base.Term(x, call.Args[1], s); ok {
						kc = s.Get("c:" + kt)
					}
					if kc == "" {
						R.Fail("R15d", site+":kind-known", c.P.Pos(call.Pos()), "the key space of this access is not determined on this path (unrecognised construct)", x.Trace()...)
						return []St{s}
					}
					isAC = kc == "0" || kc == "2"
				}
				// accesses made by the de-inlining / blob helpers concern CAS blobs named by validated digests
				for y := x; y != nil; y = y.Parent {
					if strings.HasPrefix(y.Fn.Name, "server.(*grpcServer).maybeInline") {
						return []St{s}
					}
				}
				if fnName == "server.(*grpcServer).getBlobData" || fnName == "server.(*grpcServer).getBlobResponse" {
					return []St{s}
				}
				if isAC {
					mpos++
					want := "the request's instance name"
					ok := mangle == "false" || m == "request-instance"
					R.Check(ok, "R15d", site+":mangled", c.P.Pos(call.Pos()), "the action-cache key is mangled with the request's instance name whenever mangling is enabled",
						fmt.Sprintf("action-cache access with mangling=%q and key mangled with %q (want %s): entries of different instances collide or are not found", mangle, m, want), x.Trace()...)
				} else {
					R.Check(m == "", "R15d", site+":cas-not-mangled", c.P.Pos(call.Pos()), "CAS keys are never mangled", "a CAS access uses a key mangled with "+m, x.Trace()...)
				}
				return []St{s}
			},
		})
		base.AutoInline = func(h *FuncInfo) bool { return isHelper[h.Key] }
		base.FollowGo = true
		x := NewExec(c.P.FlowOf(fi), base)
		x.Run(newSt())
		if x.Aborted != "" {
			R.Fail("R15e", c.Cfg+key+":explore", "", "exploration did not complete: "+x.Aborted)
		}
		R.Count("abstract states explored (key validation / mangling)", x.stats.States)
	}
	R.Check(mpos >= 5, "R15d", c.Cfg+"ac-access-sites", "", "the action-cache access sites were analysed", fmt.Sprintf("only %d action-cache accesses seen", mpos))
	// TransformActionCacheKey
	if fi := c.P.MustFunc(R, "R15d", "cache.TransformActionCacheKey"); fi != nil {
		info := fi.Pkg.TypesInfo
		first := false
		if is, ok := fi.Decl.Body.List[0].(*ast.IfStmt); ok && strings.ReplaceAll(exprStr(is.Cond), " ", "") == `instance==""` {
			if r, ok := is.Body.List[0].(*ast.ReturnStmt); ok && exprStr(r.Results[0]) == "key" {
				first = true
			}
		}
		var writes []string
		hexRet, sha := false, false
		for _, call := range callsIn(fi.Decl.Body, false) {
			if strings.HasSuffix(fullCalleeName(info, call), ".Write") && len(call.Args) == 1 {
				writes = append(writes, strings.ReplaceAll(exprStr(call.Args[0]), " ", ""))
			}
			if fullCalleeName(info, call) == "encoding/hex.EncodeToString" {
				hexRet = true
			}
			if fullCalleeName(info, call) == "crypto/sha256.New" {
				sha = true
			}
		}
		R.Check(first && sha && hexRet && strings.Join(writes, ",") == "[]byte(key),[]byte(instance)", "R15d", c.Cfg+"TransformActionCacheKey:definition", c.P.Pos(fi.Decl.Pos()),
			"TransformActionCacheKey returns key for the empty instance, else hex(sha256(key || instance))", fmt.Sprintf("empty-returns-key=%v sha256=%v hex=%v writes=%v", first, sha, hexRet, writes))
	}
	for _, key := range []string{kPut, kGet, "disk.(*diskCache).Contains"} {
		fi := c.P.MustFunc(R, "R15e", key)
		if fi == nil {
			continue
		}
		// a rejection `len(<hash parameter>) != 64` (an if or a case of a tag-less switch whose body
		// returns) that comes before the first use of the hash as a string (slicing, key building)
		ok := false
		finfo := fi.Pkg.TypesInfo
		var hashParam types.Object
		for i := 0; ; i++ {
			po := paramObj(fi, i)
			if po == nil {
				break
			}
			if po.Type().String() == "string" && hashParam == nil {
				hashParam = po // the interface fixes the order (ctx, kind, hash, ...): the first string
			}
		}
		isLenTest := func(e ast.Expr) bool {
			be, k := ast.Unparen(e).(*ast.BinaryExpr)
			if !k || be.Op != token.NEQ {
				return false
			}
			l, r := be.X, be.Y
			if _, isC := constInt(finfo, l); isC {
				l, r = r, l
			}
			kv, isC := constInt(finfo, r)
			call, isCall := ast.Unparen(l).(*ast.CallExpr)
			return isC && kv == 64 && isCall && exprStr(call.Fun) == "len" && len(call.Args) == 1 && hashParam != nil && identObj(finfo, call.Args[0]) == hashParam
		}
		endsInReturn := func(list []ast.Stmt) bool {
			if len(list) == 0 {
				return false
			}
			_, isRet := list[len(list)-1].(*ast.ReturnStmt)
			return isRet
		}
		var testPos token.Pos
		ast.Inspect(fi.Decl.Body, func(n ast.Node) bool {
			switch n := n.(type) {
			case *ast.IfStmt:
				if isLenTest(n.Cond) && endsInReturn(n.Body.List) && testPos == 0 {
					testPos = n.Pos()
				}
			case *ast.CaseClause:
				for _, e := range n.List {
					if isLenTest(e) && endsInReturn(n.Body) && testPos == 0 {
						testPos = n.Pos()
					}
				}
			}
			return true
		})
		if testPos != 0 {
			ok = true
			// no slicing of the hash and no key built from it before the test
			ast.Inspect(fi.Decl.Body, func(n ast.Node) bool {
				if n == nil || n.Pos() >= testPos {
					return true
				}
				switch n := n.(type) {
				case *ast.SliceExpr:
					if identObj(finfo, n.X) == hashParam {
						ok = false
					}
				case *ast.CallExpr:
					if k := calleeKey(finfo, n); k == "cache.LookupKey" || strings.HasSuffix(k, ".FileLocationBase") || strings.HasSuffix(k, ".FileLocation") {
						ok = false
					}
				}
				return true
			})
		}
		R.Check(ok, "R15e", c.Cfg+key+":hash-length", c.P.Pos(fi.Decl.Pos()), key+" rejects a hash whose length is not 64 before anything else (hash[:2] cannot panic, the key cannot be shorter than its directory level)", "the leading len(hash) != sha256HashStrSize rejection was not found")
	}
}


// constOfKind returns the constant value of cache.<name> (an EntryKind).
func constOfKind(c *Ctx, name string) string {
	for path, pkg := range c.P.All {
		if strings.HasSuffix(path, "bazel-remote/v2/cache") {
			if o, ok := pkg.Types.Scope().Lookup(name).(*types.Const); ok {
				return o.Val().ExactString()
			}
		}
	}
	return ""
}

// resultObj returns the object of the idx-th named result of fi (nil if the
// results are unnamed or absent).
func resultObj(fi *FuncInfo, idx int) types.Object {
	i := 0
	if fi.Decl.Type.Results == nil {
		return nil
	}
	for _, f := range fi.Decl.Type.Results.List {
		for _, n := range f.Names {
			if i == idx {
				return fi.Pkg.TypesInfo.Defs[n]
			}
			i++
		}
	}
	return nil
}

// rootOfSel returns the innermost operand of a selector chain (r in r.URL.Path).
func rootOfSel(e ast.Expr) ast.Expr {
	for {
		s, ok := ast.Unparen(e).(*ast.SelectorExpr)
		if !ok {
			return ast.Unparen(e)
		}
		e = s.X
	}
}
