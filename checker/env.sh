# Source this: offline Go toolchain recipe for the checker and for loading /repo.
export PATH=/opt/veriftools/go1.26.8/bin:$PATH
export GOTOOLCHAIN=local GOFLAGS=-mod=mod GOPROXY=off GOSUMDB=off
unset GOWORK
