package main

// E2: path-sensitive typestate engine.
//
// A forward dataflow analysis over the go/cfg graph of one function whose
// lattice element is a *set of abstract states*; each abstract state is a
// small finite map (flags, nil-ness, predicate atoms, typestates, the defer
// stack). Branch conditions refine or prune states, so correlated flags
// ("unreserve is true exactly when a reservation is held") are tracked
// exactly; loops are handled by fixpoint because the state space is finite.
// Deferred calls run LIFO at every exit with the state as it is then.
// Callees named by a rule are inlined (bounded depth) with parameters bound
// to the caller's terms, which yields the callee "summaries" of DESIGN §2.2.
//
// No path condition is ever handed to a solver: conditions are only looked
// up in / recorded into the finite state.

import (
	"fmt"
	"go/ast"
	"go/token"
	"go/types"
	"sort"
	"strings"

	"golang.org/x/tools/go/cfg"
	"golang.org/x/tools/go/packages"
)

// St is an immutable abstract state.
type St struct {
	m   map[string]string
	key string
}

func newSt() St { return St{m: map[string]string{}} }

func (s St) Get(k string) string { return s.m[k] }
func (s St) Has(k string) bool   { _, ok := s.m[k]; return ok }

// Set returns a copy with k=v (v=="" deletes k).
func (s St) Set(k, v string) St {
	if cur, ok := s.m[k]; (ok && cur == v) || (!ok && v == "") {
		return s
	}
	m := make(map[string]string, len(s.m)+1)
	for a, b := range s.m {
		m[a] = b
	}
	if v == "" {
		delete(m, k)
	} else {
		m[k] = v
	}
	return St{m: m}
}

// Filter returns a copy without the keys for which drop returns true.
func (s St) Filter(drop func(k, v string) bool) St {
	var m map[string]string
	for k, v := range s.m {
		if drop(k, v) {
			if m == nil {
				m = make(map[string]string, len(s.m))
				for a, b := range s.m {
					m[a] = b
				}
			}
			delete(m, k)
		}
	}
	if m == nil {
		return s
	}
	return St{m: m}
}

func (s *St) Key() string {
	if s.key != "" || len(s.m) == 0 {
		return s.key
	}
	ks := make([]string, 0, len(s.m))
	for k := range s.m {
		ks = append(ks, k)
	}
	sort.Strings(ks)
	var b strings.Builder
	for _, k := range ks {
		b.WriteString(k)
		b.WriteByte('=')
		b.WriteString(s.m[k])
		b.WriteByte(';')
	}
	s.key = b.String()
	return s.key
}

func (s St) String() string {
	k := s.Key()
	return k
}

// FlowFn is a function body prepared for analysis.
type FlowFn struct {
	P     *Prog
	Pkg   *packages.Package
	Info  *types.Info
	Name  string // funcKey or funcKey + "$litN"
	Node  ast.Node
	Type  *ast.FuncType
	Recv  *ast.FieldList
	Body  *ast.BlockStmt
	Obj   *types.Func
	G     *cfg.CFG
	Outer *FlowFn // enclosing function for literals

	commStmts  map[ast.Node]*ast.CommClause // select comm statements (hoisted by go/cfg into the preamble)
	caseSwitch map[*ast.CaseClause]ast.Stmt // case clause -> its switch statement
	untracked  map[types.Object]bool        // address-taken, or assigned inside a non-deferred function literal
	defers     []*ast.DeferStmt
	deferIdx   map[*ast.DeferStmt]int
	lits       map[*ast.FuncLit]*FlowFn
	addrArgs   map[*ast.UnaryExpr]bool // &x used directly as a call argument
	assignSites map[types.Object][]token.Pos
	addrTaken   map[types.Object]bool
}

func noReturnCall(info *types.Info, call *ast.CallExpr) bool {
	name := fullCalleeName(info, call)
	switch name {
	case "builtin.panic", "os.Exit", "log.Fatal", "log.Fatalf", "log.Fatalln",
		"log.Panic", "log.Panicf", "log.Panicln", "runtime.Goexit",
		"log.(Logger).Fatal", "log.(Logger).Fatalf", "log.(Logger).Fatalln",
		"log.(Logger).Panic", "log.(Logger).Panicf", "log.(Logger).Panicln":
		return true
	}
	return false
}

var flowFnCache = map[ast.Node]*FlowFn{}

func (p *Prog) FlowOf(fi *FuncInfo) *FlowFn {
	if f := flowFnCache[fi.Decl]; f != nil {
		return f
	}
	f := newFlowFn(p, fi.Pkg, fi.Key, fi.Decl, fi.Decl.Type, fi.Decl.Recv, fi.Decl.Body, nil)
	f.Obj = fi.Obj
	flowFnCache[fi.Decl] = f
	return f
}

func newFlowFn(p *Prog, pkg *packages.Package, name string, node ast.Node, typ *ast.FuncType, recv *ast.FieldList, body *ast.BlockStmt, outer *FlowFn) *FlowFn {
	f := &FlowFn{P: p, Pkg: pkg, Info: pkg.TypesInfo, Name: name, Node: node, Type: typ, Recv: recv, Body: body, Outer: outer,
		commStmts: map[ast.Node]*ast.CommClause{}, caseSwitch: map[*ast.CaseClause]ast.Stmt{}, untracked: map[types.Object]bool{},
		deferIdx: map[*ast.DeferStmt]int{}, lits: map[*ast.FuncLit]*FlowFn{}, addrArgs: map[*ast.UnaryExpr]bool{},
		assignSites: map[types.Object][]token.Pos{}, addrTaken: map[types.Object]bool{}}
	info := f.Info
	f.G = cfg.New(body, func(c *ast.CallExpr) bool { return !noReturnCall(info, c) })
	deferredLits := map[*ast.FuncLit]bool{}
	ast.Inspect(body, func(n ast.Node) bool {
		if d, ok := n.(*ast.DeferStmt); ok {
			if l, ok := d.Call.Fun.(*ast.FuncLit); ok {
				deferredLits[l] = true
			}
		}
		return true
	})
	// Scan for structure; variables written in non-deferred literals or
	// address-taken are never tracked.
	var scan func(n ast.Node, inLit bool)
	scan = func(n ast.Node, inLit bool) {
		ast.Inspect(n, func(m ast.Node) bool {
			switch m := m.(type) {
			case *ast.FuncLit:
				if m == n {
					return true
				}
				scan(m.Body, inLit || !deferredLits[m])
				return false
			case *ast.SelectStmt:
				for _, c := range m.Body.List {
					cc := c.(*ast.CommClause)
					if cc.Comm != nil && !inLit {
						f.commStmts[cc.Comm] = cc
					}
				}
			case *ast.SwitchStmt:
				for _, c := range m.Body.List {
					f.caseSwitch[c.(*ast.CaseClause)] = m
				}
			case *ast.TypeSwitchStmt:
				for _, c := range m.Body.List {
					f.caseSwitch[c.(*ast.CaseClause)] = m
				}
			case *ast.DeferStmt:
				if !inLit {
					f.deferIdx[m] = len(f.defers)
					f.defers = append(f.defers, m)
				}
			case *ast.CallExpr:
				// &x passed as a call argument: the callee may write x during
				// the call; x is invalidated at that call instead of being
				// untracked for good.
				for _, a := range m.Args {
					if u, ok := ast.Unparen(a).(*ast.UnaryExpr); ok && u.Op == token.AND {
						if o := identObj(info, u.X); o != nil && !inLit {
							f.addrArgs[u] = true
						}
					}
				}
			case *ast.ReturnStmt:
				// return &x: x leaves with the function, nothing else can write it before
				for _, r := range m.Results {
					if u, ok := ast.Unparen(r).(*ast.UnaryExpr); ok && u.Op == token.AND {
						f.addrArgs[u] = true
					}
				}
			case *ast.UnaryExpr:
				if m.Op == token.AND && !f.addrArgs[m] {
					if o := identObj(info, m.X); o != nil {
						f.untracked[o] = true
						f.addrTaken[o] = true
					}
				}
			case *ast.AssignStmt:
				for _, l := range m.Lhs {
					if o := identObj(info, l); o != nil {
						f.assignSites[o] = append(f.assignSites[o], m.Pos())
						if inLit {
							f.untracked[o] = true
						}
					}
				}
			case *ast.IncDecStmt:
				if o := identObj(info, m.X); o != nil {
					f.assignSites[o] = append(f.assignSites[o], m.Pos())
					if inLit {
						f.untracked[o] = true
					}
				}
			}
			return true
		})
	}
	scan(body, false)
	return f
}

func (f *FlowFn) Lit(l *ast.FuncLit) *FlowFn {
	if g := f.lits[l]; g != nil {
		return g
	}
	n := 0
	ast.Inspect(f.Body, func(m ast.Node) bool {
		if x, ok := m.(*ast.FuncLit); ok && x.Pos() <= l.Pos() {
			n++
		}
		return true
	})
	g := newFlowFn(f.P, f.Pkg, fmt.Sprintf("%s$lit%d", f.Name, n), l, l.Type, nil, l.Body, f)
	// A literal shares the untracked set of its parent (captured variables).
	for o := range f.untracked {
		if o.Pos() >= l.Pos() && o.Pos() < l.End() {
			continue // the literal's own locals are judged by its own scan
		}
		if !f.addrTaken[o] {
			// a captured variable that is only written inside this literal, or
			// before the literal is created, has a single writer while the
			// literal runs: it can be tracked inside the literal
			only := true
			for _, p := range f.assignSites[o] {
				if !(p >= l.Pos() && p < l.End()) && p > l.Pos() {
					only = false
				}
			}
			if only {
				continue
			}
		}
		g.untracked[o] = true
	}
	f.lits[l] = g
	return g
}

// LoopExit is a marker node handed to Interp.Node when control leaves a range
// loop (after zero or more iterations).
type LoopExit struct {
	ast.EmptyStmt
	Range *ast.RangeStmt
}

func (l *LoopExit) Pos() token.Pos { return l.Range.End() }
func (l *LoopExit) End() token.Pos { return l.Range.End() }

// Interp gives meaning to nodes and branches for one rule.
type Interp interface {
	// Node applies a CFG node that is not a branch condition.
	Node(x *Exec, n ast.Node, s St) []St
	// Branch refines s by cond having the given truth (cond may be nil).
	Branch(x *Exec, cond ast.Expr, truth bool, s St) []St
	// Return is called at a return statement (ret==nil: falling off the end)
	// before the deferred calls run.
	Return(x *Exec, ret *ast.ReturnStmt, s St) []St
	// Exit is called after the deferred calls ran (top-level executions only).
	Exit(x *Exec, ret *ast.ReturnStmt, s St)
}

type visit struct {
	prevBlock int32
	prevKey   string
	note      string
}

type workItem struct {
	b *cfg.Block
	s St
}

type ExitState struct {
	Ret *ast.ReturnStmt
	S   St
}

type Exec struct {
	Fn      *FlowFn
	I       Interp
	Depth   int
	Parent  *Exec
	InDefer bool
	InComm  *ast.CommClause // set while a hoisted select comm statement is interpreted
	RetCall []string        // set while the single call of `return f(...)` is interpreted: the result terms it feeds
	Collect bool            // collect exits instead of calling I.Exit
	Exits   []ExitState
	Steps   int
	Aborted string

	visited  map[int32]map[string]visit
	work     []workItem
	curBlock int32
	curKey   string
	exitSeen map[string]bool
	stats    *flowStats
}

type flowStats struct {
	Functions map[string]bool
	States    int
	Exits     int
	Inlined   int
}

const maxFlowSteps = 400000

func NewExec(fn *FlowFn, i Interp) *Exec {
	return &Exec{Fn: fn, I: i, visited: map[int32]map[string]visit{}, exitSeen: map[string]bool{},
		stats: &flowStats{Functions: map[string]bool{}}}
}

func (x *Exec) sub(fn *FlowFn) *Exec {
	y := &Exec{Fn: fn, I: x.I, Depth: x.Depth + 1, Parent: x, Collect: true,
		visited: map[int32]map[string]visit{}, exitSeen: map[string]bool{}, stats: x.stats}
	return y
}

// Run explores fn from the initial state.
func (x *Exec) Run(init St) {
	x.stats.Functions[x.Fn.Name] = true
	if len(x.Fn.G.Blocks) == 0 {
		return
	}
	x.push(x.Fn.G.Blocks[0], init, -1, "", "")
	for len(x.work) > 0 {
		it := x.work[len(x.work)-1]
		x.work = x.work[:len(x.work)-1]
		x.block(it.b, it.s)
		if x.Aborted != "" {
			return
		}
	}
}

func (x *Exec) push(b *cfg.Block, s St, from int32, fromKey, note string) {
	k := s.Key()
	m := x.visited[b.Index]
	if m == nil {
		m = map[string]visit{}
		x.visited[b.Index] = m
	}
	if _, ok := m[k]; ok {
		return
	}
	m[k] = visit{prevBlock: from, prevKey: fromKey, note: note}
	x.stats.States++
	x.Steps++
	if x.root().totalSteps() > maxFlowSteps {
		x.abort("state budget exceeded")
		return
	}
	x.work = append(x.work, workItem{b, s})
}

func (x *Exec) root() *Exec {
	for x.Parent != nil {
		x = x.Parent
	}
	return x
}

func (x *Exec) totalSteps() int { return x.stats.States }

func (x *Exec) abort(why string) {
	for y := x; y != nil; y = y.Parent {
		y.Aborted = why
	}
}

// Trace reconstructs the branch decisions that lead to the current point.
func (x *Exec) Trace() []string {
	var out []string
	for y := x; y != nil; y = y.Parent {
		var seg []string
		b, k := y.curBlock, y.curKey
		for n := 0; b >= 0 && n < 10000; n++ {
			v, ok := y.visited[b][k]
			if !ok {
				break
			}
			if v.note != "" {
				seg = append(seg, v.note)
			}
			b, k = v.prevBlock, v.prevKey
		}
		// seg is innermost-last reversed; reverse it
		for i, j := 0, len(seg)-1; i < j; i, j = i+1, j-1 {
			seg[i], seg[j] = seg[j], seg[i]
		}
		hdr := "in " + y.Fn.Name + ":"
		out = append(append([]string{hdr}, seg...), out...)
	}
	return out
}

func dedupe(in []St) []St {
	if len(in) < 2 {
		return in
	}
	seen := map[string]bool{}
	out := in[:0:0]
	for i := range in {
		k := in[i].Key()
		if !seen[k] {
			seen[k] = true
			out = append(out, in[i])
		}
	}
	return out
}

func (x *Exec) block(b *cfg.Block, s St) {
	x.curBlock, x.curKey = b.Index, s.Key()
	states := []St{s}
	if b.Kind == cfg.KindSelectAfterCase && len(b.Succs) == 0 && len(b.Nodes) == 0 {
		// the last "no case chosen" block of a select without default is a
		// dead end in go/cfg: a select blocks until one of its cases runs
		return
	}
	if b.Kind == cfg.KindSelectAfterCase && len(b.Succs) == 1 && b.Succs[0].Kind == cfg.KindSelectDone && len(b.Nodes) == 0 {
		// go/cfg lets control fall from the last case test to the end of a
		// select; without a default clause a select blocks until one of its
		// cases is chosen, so that edge is infeasible.
		if sel, ok := b.Succs[0].Stmt.(*ast.SelectStmt); ok {
			hasDefault := false
			for _, cl := range sel.Body.List {
				if cc, ok := cl.(*ast.CommClause); ok && cc.Comm == nil {
					hasDefault = true
				}
			}
			if !hasDefault {
				return
			}
		}
	}
	if b.Kind == cfg.KindSelectCaseBody {
		if cc, ok := b.Stmt.(*ast.CommClause); ok && cc.Comm != nil {
			if _, hoisted := x.Fn.commStmts[cc.Comm]; hoisted {
				x.InComm = cc
				states = x.I.Node(x, cc.Comm, s)
				x.InComm = nil
			}
		}
	}
	if b.Kind == cfg.KindRangeBody || b.Kind == cfg.KindForBody {
		// variables declared inside the loop body are fresh in every
		// iteration: what was known about the previous iteration's
		// instances is dropped (sound, and keeps the state space small)
		var body *ast.BlockStmt
		switch st := b.Stmt.(type) {
		case *ast.RangeStmt:
			body = st.Body
		case *ast.ForStmt:
			body = st.Body
		}
		if body != nil {
			lo, hi := body.Pos(), body.End()
			for i := range states {
				states[i] = states[i].Filter(func(k, v string) bool {
					return isTrackKey(k) && (mentionsRange(k, lo, hi) || ((strings.HasPrefix(k, "al:") || strings.HasPrefix(k, "tm:") || strings.HasPrefix(k, "lin:")) && mentionsRange(v, lo, hi)))
				})
			}
		}
	}
	if b.Kind == cfg.KindRangeDone {
		if rs, ok := b.Stmt.(*ast.RangeStmt); ok {
			var next []St
			for _, st := range states {
				next = append(next, x.I.Node(x, &LoopExit{Range: rs}, st)...)
			}
			states = next
		}
	}
	if b.Kind == cfg.KindRangeBody {
		// the key/value variables are (re)assigned on every iteration
		if rs, ok := b.Stmt.(*ast.RangeStmt); ok && (rs.Key != nil || rs.Value != nil) {
			as := &ast.AssignStmt{Tok: token.DEFINE, TokPos: rs.For, Rhs: []ast.Expr{&ast.UnaryExpr{Op: token.RANGE, X: rs.X, OpPos: rs.For}}}
			if rs.Key != nil {
				as.Lhs = append(as.Lhs, rs.Key)
			} else {
				as.Lhs = append(as.Lhs, &ast.Ident{Name: "_", NamePos: rs.For})
			}
			if rs.Value != nil {
				as.Lhs = append(as.Lhs, rs.Value)
			}
			var next []St
			for _, st := range states {
				next = append(next, x.I.Node(x, as, st)...)
			}
			states = dedupe(next)
		}
	}
	nodes := b.Nodes
	var cond ast.Expr
	hasCond := false
	if len(b.Succs) == 2 {
		switch b.Succs[0].Kind {
		case cfg.KindIfThen, cfg.KindForBody:
			if len(nodes) > 0 {
				if e, ok := nodes[len(nodes)-1].(ast.Expr); ok {
					cond, hasCond = e, true
					nodes = nodes[:len(nodes)-1]
				}
			}
		case cfg.KindSwitchCaseBody:
			cc, _ := b.Succs[0].Stmt.(*ast.CaseClause)
			if sw, ok := x.Fn.caseSwitch[cc].(*ast.SwitchStmt); ok && len(nodes) > 0 {
				if e, ok := nodes[len(nodes)-1].(ast.Expr); ok {
					nodes = nodes[:len(nodes)-1]
					hasCond = true
					if sw.Tag != nil {
						cond = &ast.BinaryExpr{X: sw.Tag, Op: token.EQL, Y: e, OpPos: e.Pos()}
					} else {
						cond = e
					}
				}
			}
		}
	}
	for _, n := range nodes {
		if ret, ok := n.(*ast.ReturnStmt); ok {
			for _, st := range states {
				x.exit(ret, st)
			}
			return
		}
		var next []St
		for _, st := range states {
			next = append(next, x.node(n, st)...)
		}
		states = dedupe(next)
		if x.Aborted != "" || len(states) == 0 {
			return
		}
	}
	switch len(b.Succs) {
	case 0:
		if len(b.Nodes) > 0 {
			if es, ok := b.Nodes[len(b.Nodes)-1].(*ast.ExprStmt); ok {
				if c, ok := es.X.(*ast.CallExpr); ok && noReturnCall(x.Fn.Info, c) {
					return // process ends here; not a function exit
				}
			}
		}
		if b.Kind == cfg.KindUnreachable {
			return
		}
		for _, st := range states {
			x.exit(nil, st)
		}
	case 1:
		for _, st := range states {
			x.push(b.Succs[0], st, b.Index, x.curKey, "")
		}
	case 2:
		for _, st := range states {
			if hasCond {
				for _, truth := range []bool{true, false} {
					idx := 0
					if !truth {
						idx = 1
					}
					for _, s2 := range x.I.Branch(x, cond, truth, st) {
						note := fmt.Sprintf("%s: %s is %v", x.Fn.P.Pos(cond.Pos()), exprStr(cond), truth)
						x.push(b.Succs[idx], s2, b.Index, x.curKey, note)
					}
				}
			} else {
				kind := b.Succs[0].Kind.String()
				pos := ""
				if b.Succs[0].Stmt != nil {
					pos = x.Fn.P.Pos(b.Succs[0].Stmt.Pos())
				}
				x.push(b.Succs[0], st, b.Index, x.curKey, fmt.Sprintf("%s: enter %s", pos, kind))
				x.push(b.Succs[1], st, b.Index, x.curKey, "")
			}
		}
	}
}

func (x *Exec) node(n ast.Node, s St) []St {
	if d, ok := n.(*ast.DeferStmt); ok {
		if idx, ok := x.Fn.deferIdx[d]; ok {
			// let the rule see the registration (arguments are evaluated now)
			if outs := x.I.Node(x, d, s); len(outs) == 1 {
				s = outs[0]
			}
			cur := s.Get("defers")
			// a defer statement inside a loop is recorded once (finite state)
			for _, d := range strings.Split(cur, ",") {
				if d == fmt.Sprint(idx) {
					return []St{s}
				}
			}
			if cur != "" {
				cur += ","
			}
			return []St{s.Set("defers", cur+fmt.Sprint(idx))}
		}
	}
	if _, ok := x.Fn.commStmts[n]; ok {
		// go/cfg hoists the communication statements of a select in front of
		// the branching; the communication of a clause happens only if that
		// clause is chosen, so it is applied on entry to the clause body.
		return []St{s}
	}
	return x.I.Node(x, n, s)
}

// exit handles a return: Return hook, deferred calls LIFO, then Exit hook.
func (x *Exec) exit(ret *ast.ReturnStmt, s St) {
	for _, st := range x.I.Return(x, ret, s) {
		for _, st2 := range x.runDefers(st) {
			if x.Collect {
				k := fmt.Sprint(retIndex(x.Fn, ret)) + "|" + st2.Key()
				if !x.exitSeen[k] {
					x.exitSeen[k] = true
					x.Exits = append(x.Exits, ExitState{ret, st2})
				}
			} else {
				x.stats.Exits++
				x.I.Exit(x, ret, st2)
			}
		}
	}
}

func retIndex(f *FlowFn, ret *ast.ReturnStmt) int {
	if ret == nil {
		return -1
	}
	return int(ret.Pos())
}

func (x *Exec) runDefers(s St) []St {
	ds := s.Get("defers")
	if ds == "" {
		return []St{s}
	}
	idxs := strings.Split(ds, ",")
	states := []St{s.Set("defers", "")}
	for i := len(idxs) - 1; i >= 0; i-- {
		var k int
		fmt.Sscan(idxs[i], &k)
		d := x.Fn.defers[k]
		var next []St
		for _, st := range states {
			if lit, ok := d.Call.Fun.(*ast.FuncLit); ok {
				y := x.sub(x.Fn.Lit(lit))
				y.InDefer = true
				y.Run(st)
				for _, e := range y.Exits {
					next = append(next, e.S)
				}
			} else {
				x.InDefer = true
				next = append(next, x.I.Node(x, &ast.ExprStmt{X: d.Call}, st)...)
				x.InDefer = false
			}
		}
		states = dedupe(next)
	}
	return states
}

// Inline runs callee from the state init and returns its exits.
func (x *Exec) Inline(callee *FlowFn, init St) []ExitState {
	if x.Depth >= 4 {
		x.abort("inlining depth exceeded at " + callee.Name)
		return nil
	}
	for y := x; y != nil; y = y.Parent {
		if y.Fn == callee {
			x.abort("recursive inlining of " + callee.Name)
			return nil
		}
	}
	y := x.sub(callee)
	x.stats.Inlined++
	// the callee starts with an empty defer stack of its own
	saved := init.Get("defers")
	y.Run(init.Set("defers", ""))
	out := make([]ExitState, 0, len(y.Exits))
	for _, e := range y.Exits {
		out = append(out, ExitState{e.Ret, e.S.Set("defers", saved)})
	}
	return out
}
