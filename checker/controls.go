package main

// runControls is filled in by selfcheck.go (mutant controls for the thorough tier).
func runControls(id, repo, vdir string, r *Report) { runMutantControls(id, repo, vdir, r) }
