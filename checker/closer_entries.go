package main

var serverCloserEntries = []closerEntry{
	{key: "server.(*grpcServer).getBlobData"},
	{key: "server.(*grpcServer).getBlobResponse"},
	{key: "server.(*grpcServer).SpliceBlob"},
	{key: "server.(*grpcServer).Read"},
	{key: "server.(*grpcServer).GetActionResult"},
	{key: "server.(*grpcServer).FetchBlob"},
	{key: "server.(*grpcServer).fetchItem"},
	{key: "server.(*httpCache).CacheHandler"},
}

var diskCloserEntries = []closerEntry{
	{key: "disk.(*diskCache).availableOrTryProxy"},
	{key: "disk.(*diskCache).get"},
	{key: "disk.(*diskCache).Put"},
	{key: "disk.(*diskCache).GetValidatedActionResult"},
	{key: "disk.(*diskCache).writeAndCloseFile", owned: []string{"f"}, policy: "always"},
	{key: "casblob.GetUncompressedReadCloser", owned: []string{"f"}, policy: "error-closed"},
	{key: "casblob.GetZstdReadCloser", owned: []string{"f"}, policy: "error-closed"},
	{key: "casblob.GetLegacyZstdReadCloser", owned: []string{"f"}, policy: "error-closed"},
	{key: "casblob.WriteAndClose", owned: []string{"f"}, policy: "always"},
}

var proxyCloserEntries = []closerEntry{
	{key: "casblob.ExtractLogicalSize", owned: []string{"rc"}, policy: "error-closed"},
	{key: "httpproxy.(*remoteHTTPProxyCache).Get"},
	{key: "httpproxy.(*remoteHTTPProxyCache).Contains"},
	{key: "s3proxy.(*s3Cache).Get"},
	{key: "azblobproxy.(*azBlobCache).Get"},
	{key: "grpcproxy.(*remoteGrpcProxyCache).Get"},
	{key: "grpcproxy.(*remoteGrpcProxyCache).Contains"},
	{key: "httpproxy.(*remoteHTTPProxyCache).Put", owned: []string{"rc"}, policy: "always"},
	{key: "s3proxy.(*s3Cache).Put", owned: []string{"rc"}, policy: "always"},
	{key: "azblobproxy.(*azBlobCache).Put", owned: []string{"rc"}, policy: "always"},
	{key: "grpcproxy.(*remoteGrpcProxyCache).Put", owned: []string{"rc"}, policy: "always"},
	{key: "httpproxy.(*remoteHTTPProxyCache).UploadFile", owned: []string{"item.Rc"}, policy: "always"},
	{key: "s3proxy.(*s3Cache).UploadFile", owned: []string{"item.Rc"}, policy: "always"},
	{key: "azblobproxy.(*azBlobCache).UploadFile", owned: []string{"item.Rc"}, policy: "always"},
	{key: "grpcproxy.(*remoteGrpcProxyCache).UploadFile", owned: []string{"item.Rc"}, policy: "always"},
}

