package main

func init() {
	register(&PropCheck{ID: "C08", Explanation: "debug", Trusted: commonTrusted, Run: func(c *Ctx) {
		writeFileRules(c)
		writeAndCloseRules(c)
		readHeaderRules(c)
		formatRules(c, map[string]bool{"R20a": true, "R20b": true, "R02d": true, "R20c": true})
	}})
}
