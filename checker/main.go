package main

import (
	"encoding/json"
	"flag"
	"fmt"
	"os"
	"path/filepath"
	"runtime/debug"
	"sort"
	"strconv"
	"strings"
	"time"
)

// A PropCheck decides the structural clauses of one property.
type PropCheck struct {
	ID          string
	Explanation string   // clauses decided
	NotDecided  string   // what the check does not decide
	Trusted     []string // trusted base / assumptions
	Rules       []string // the rules this property owns; generators are selected from them
	Run         func(c *Ctx)
}

type Ctx struct {
	P        *Prog
	R        *Report
	Thorough bool
	Cfg      string // "" for the default build configuration, else a key prefix
}

var registry = map[string]*PropCheck{}

func register(c *PropCheck) { registry[c.ID] = c }

var commonTrusted = []string{
	"Go language semantics and the standard library contracts used by the summaries (os.OpenFile returns a non-nil file iff err is nil; http.Client.Do closes the request body; container/list; sync.Mutex)",
	"go/packages, go/types, go/cfg and go/ssa (golang.org/x/tools v0.50.0) faithfully represent /repo's source",
	"reflection and unsafe are not followed; loops are handled by fixpoint over a finite abstract state, not unrolled",
	"a discharged obligation is a necessary structural condition of the property, not the behaviour itself",
}

func main() {
	prop := flag.String("p", "", "property id (C01..C20) or 'all'")
	tier := flag.String("tier", "quick", "quick|thorough")
	repo := flag.String("repo", "/repo", "repository root")
	verif := flag.String("verif", "", "verif dir (default: parent of the binary's dir)")
	replay := flag.String("replay", "", "replay file written by an earlier run")
	list := flag.Bool("list", false, "list properties")
	listRules := flag.Bool("list-rules", false, "list properties with the rules they own")
	flag.BoolVar(&dumpObligs, "dump", false, "print every obligation with its verdict")
	manifest := flag.Bool("manifest", false, "print MANIFEST.json generated from the registry")
	flag.Parse()
	// The offline toolchain recipe (same as env.sh), so that registered
	// commands do not depend on the caller's environment.
	if _, err := os.Stat("/opt/veriftools/go1.26.8/bin/go"); err == nil {
		os.Setenv("PATH", "/opt/veriftools/go1.26.8/bin:"+os.Getenv("PATH"))
		os.Setenv("GOTOOLCHAIN", "local")
	}
	os.Setenv("GOFLAGS", "-mod=mod")
	os.Setenv("GOPROXY", "off")
	os.Setenv("GOSUMDB", "off")
	os.Unsetenv("GOWORK")
	if *listRules {
		ids := []string{}
		for id := range registry {
			ids = append(ids, id)
		}
		sort.Strings(ids)
		for _, id := range ids {
			fmt.Println(id, strings.Join(registry[id].Rules, " "))
		}
		return
	}
	if *manifest {
		printManifest()
		return
	}

	vdir := *verif
	if vdir == "" {
		exe, _ := os.Executable()
		vdir = filepath.Dir(filepath.Dir(exe))
		if _, err := os.Stat(filepath.Join(vdir, "properties.jsonl")); err != nil {
			vdir = "/verif"
		}
	}
	if t := os.Getenv("VERIF_TIER"); t != "" && *tier == "" {
		*tier = t
	}
	seed := 0
	if s := os.Getenv("VERIF_SEED"); s != "" {
		seed, _ = strconv.Atoi(s)
	}
	if *list {
		ids := []string{}
		for id := range registry {
			ids = append(ids, id)
		}
		sort.Strings(ids)
		for _, id := range ids {
			fmt.Println(id)
		}
		return
	}
	if *replay != "" {
		os.Exit(doReplay(*replay, *repo, vdir))
	}
	if *prop == "" {
		fmt.Fprintln(os.Stderr, "usage: vcheck -p Cxx [-tier quick|thorough] [-repo /repo]")
		os.Exit(2)
	}
	ids := []string{*prop}
	if *prop == "all" {
		ids = nil
		for id := range registry {
			ids = append(ids, id)
		}
		sort.Strings(ids)
	}
	code := 0
	var progs map[bool]*Prog = map[bool]*Prog{}
	for _, id := range ids {
		c := runProp(id, *tier, *repo, vdir, seed, progs)
		if c > code {
			code = c
		}
	}
	os.Exit(code)
}

func runProp(id, tier, repo, vdir string, seed int, progs map[bool]*Prog) (code int) {
	start := time.Now()
	chk := registry[id]
	if chk == nil {
		fmt.Fprintf(os.Stderr, "unknown property %q\n", id)
		return 2
	}
	r := newReport(id, tier)
	r.restrict(chk.Rules)
	configs := []string{"linux/amd64 cgo=on (default build)"}
	thorough := tier == "thorough"
	run := func(cgo bool, cfgName string) {
		defer func() {
			if e := recover(); e != nil {
				// An analysis panic is a failure of the check, never a pass.
				r.Fail("framework", "panic"+cfgName, "", fmt.Sprintf("analysis panicked: %v\n%s", e, debug.Stack()))
			}
		}()
		p := progs[cgo]
		if p == nil {
			var err error
			p, err = loadProg(repo, cgo)
			if err != nil {
				r.Fail("framework", "load"+cfgName, "", err.Error())
				return
			}
			progs[cgo] = p
		}
		activeProg = p
		r.Count("packages"+cfgName, len(p.Pkgs))
		r.Count("source functions"+cfgName, len(p.byKey))
		chk.Run(&Ctx{P: p, R: r, Thorough: thorough, Cfg: cfgName})
	}
	run(true, "")
	if thorough {
		configs = append(configs, "linux/amd64 cgo=off (drops cache/disk/zstdimpl/cgozstd.go)")
		run(false, " [cgo=off]")
		runControls(id, repo, vdir, r)
	}
	return r.finish(vdir, chk, start, seed, configs)
}

func doReplay(path, repo, vdir string) int {
	b, err := os.ReadFile(path)
	if err != nil {
		fmt.Println(err)
		return 2
	}
	var rp struct {
		Property   string `json:"property"`
		Tier       string `json:"tier"`
		Obligation Oblig  `json:"obligation"`
	}
	if err := json.Unmarshal(b, &rp); err != nil {
		fmt.Println(err)
		return 2
	}
	chk := registry[rp.Property]
	if chk == nil {
		fmt.Println("unknown property in replay file")
		return 2
	}
	p, err := loadProg(repo, true)
	if err != nil {
		fmt.Println(err)
		return 2
	}
	activeProg = p
	r := newReport(rp.Property, "quick")
	r.restrict(chk.Rules)
	func() {
		defer func() {
			if e := recover(); e != nil {
				r.Fail("framework", "panic", "", fmt.Sprint(e))
			}
		}()
		chk.Run(&Ctx{P: p, R: r})
	}()
	for _, o := range r.Obligs {
		if o.Rule == rp.Obligation.Rule && o.Key == rp.Obligation.Key {
			b, _ := json.MarshalIndent(o, "", " ")
			fmt.Println(string(b))
			if o.Status == "violated" {
				fmt.Printf("VIOLATION property=%s replay=%s\n", rp.Property, path)
				return 1
			}
			fmt.Println("obligation now discharged")
			return 0
		}
	}
	fmt.Println("obligation no longer generated (construct gone)")
	return 0
}
