package main

// C19 — configuration: flags and YAML agree; invalid set-ups are refused.

import (
	"fmt"
	"go/ast"
	"go/token"
	"go/types"
	"reflect"
	"sort"
	"strings"
)

type cliFlag struct {
	Name, Kind string // Kind: String, Int, Int64, Bool, Duration, ...
	Default    string // constant value, "" when not given
	HasDefault bool
	Pos        token.Pos
}

func cliFlags(c *Ctx, rule string) map[string]*cliFlag {
	out := map[string]*cliFlag{}
	fi := c.P.MustFunc(c.R, rule, "flags.GetCliFlags")
	if fi == nil {
		return out
	}
	info := fi.Pkg.TypesInfo
	ast.Inspect(fi.Decl.Body, func(n ast.Node) bool {
		u, ok := n.(*ast.UnaryExpr)
		if !ok || u.Op != token.AND {
			return true
		}
		cl, ok := u.X.(*ast.CompositeLit)
		if !ok {
			return true
		}
		tn := info.TypeOf(cl).String()
		if !strings.Contains(tn, "urfave/cli") || !strings.HasSuffix(tn, "Flag") {
			return true
		}
		f := &cliFlag{Kind: strings.TrimSuffix(tn[strings.LastIndex(tn, ".")+1:], "Flag"), Pos: cl.Pos()}
		for _, el := range cl.Elts {
			kv, ok := el.(*ast.KeyValueExpr)
			if !ok {
				continue
			}
			switch exprStr(kv.Key) {
			case "Name":
				f.Name, _ = constString(info, kv.Value)
			case "Value":
				if tv, ok := info.Types[kv.Value]; ok && tv.Value != nil {
					f.Default = tv.Value.ExactString()
					f.HasDefault = true
				} else {
					f.Default = "?" + exprStr(kv.Value)
					f.HasDefault = true
				}
			}
		}
		if f.Name != "" {
			out[f.Name] = f
		}
		return true
	})
	return out
}

// yamlFields lists the yaml-tagged fields of a struct type: tag -> field.
func yamlFields(t types.Type) map[string]*types.Var {
	out := map[string]*types.Var{}
	for {
		if p, ok := t.(*types.Pointer); ok {
			t = p.Elem()
			continue
		}
		break
	}
	st, ok := t.Underlying().(*types.Struct)
	if !ok {
		return out
	}
	for i := 0; i < st.NumFields(); i++ {
		tag := reflect.StructTag(st.Tag(i)).Get("yaml")
		name := strings.Split(tag, ",")[0]
		if name != "" {
			out[name] = st.Field(i)
		}
	}
	return out
}

var flagPrefixToYAML = map[string]string{
	"s3": "s3_proxy", "azblob": "azblob_proxy", "gcs_proxy": "gcs_proxy", "http_proxy": "http_proxy", "grpc_proxy": "grpc_proxy", "ldap": "ldap",
}

// ctxAccess matches ctx.String("name") etc.
func ctxAccess(info *types.Info, e ast.Expr) (kind, name string, ok bool) {
	call, isCall := unwrapConv(info, e).(*ast.CallExpr)
	if !isCall || len(call.Args) != 1 {
		return
	}
	full := fullCalleeName(info, call)
	if !strings.HasPrefix(full, "github.com/urfave/cli/v2.(Context).") {
		return
	}
	name, isStr := constString(info, call.Args[0])
	if !isStr {
		return
	}
	return strings.TrimPrefix(full, "github.com/urfave/cli/v2.(Context)."), name, true
}

func configRules(c *Ctx) {
	R := c.R
	R.Rule("R19a", "E3+E7", "flag -> field wiring: each ctx.<T>(name) read in config.get ends up in exactly the Config (or nested struct) field whose yaml tag is that name (under the prefix map s3.->s3_proxy, azblob.->azblob_proxy, ...); deprecated host/port forms excepted", 60)
	R.Rule("R19b", "E7", "accessor kind = flag kind: ctx.String/Int/Int64/Bool/Duration is applied to a flag declared with a compatible cli.*Flag type", 70)
	R.Rule("R19c", "E7", "defaults agree: the flag's default equals the value NewFromYaml pre-loads (or the zero value), modulo the frozen equivalence table", 60)
	R.Rule("R19d", "E7", "coverage: every declared flag is read and every basic yaml-tagged field has a flag (frozen exceptions)", 100)
	R.Rule("R19e", "E2", "one validator: both front ends return a Config only after validateConfig returned nil; Get additionally passes setLogger, setProxy, setTLSConfig", 4)
	R.Rule("R19f", "E2", "invalid classes are rejected: for each class of invalid set-up validateConfig (setTLSConfig / parseBucketLookupType for their values) has an error exit reached exactly by that defect", 11)
	R.Rule("R19g", "E2", "both front ends normalise the listener addresses alike: the (guard, rewrite) chains applied to http_address, grpc_address and profile_address in get and in NewFromYaml are the same", 3)

	flags := cliFlags(c, "R19b")
	R.Count("declared CLI flags", len(flags))
	cfgPkg := c.P.Pkg("/config")
	if cfgPkg == nil {
		R.Fail("R19a", c.Cfg+"anchor:config", "", "package config does not load")
		return
	}
	info := cfgPkg.TypesInfo
	cfgObj := cfgPkg.Types.Scope().Lookup("Config")
	if cfgObj == nil {
		R.Fail("R19a", c.Cfg+"anchor:Config", "", "type config.Config not found")
		return
	}
	top := yamlFields(cfgObj.Type())

	// ---- R19b + collect reads ----
	read := map[string]bool{}
	compatible := func(acc, kind string) bool {
		switch acc {
		case "String":
			return kind == "String"
		case "Int", "Int64":
			return kind == "Int" || kind == "Int64"
		case "Bool":
			return kind == "Bool"
		case "Duration":
			return kind == "Duration"
		}
		return false
	}
	for _, fi := range c.P.FuncsInPkg("/config") {
		if strings.HasSuffix(c.P.Fset.Position(fi.Decl.Pos()).Filename, "_test.go") {
			continue
		}
		ord := map[string]int{}
		for _, call := range callsIn(fi.Decl.Body, true) {
			acc, name, ok := ctxAccess(info, call)
			if !ok {
				continue
			}
			read[name] = true
			ord[name]++
			f := flags[name]
			key := fmt.Sprintf("%s%s:ctx.%s(%q)#%d", c.Cfg, fi.Key, acc, name, ord[name])
			if f == nil {
				R.Fail("R19b", key, c.P.Pos(call.Pos()), "ctx."+acc+"(\""+name+"\") reads a flag that is not declared: it always yields the zero value")
				continue
			}
			R.Check(compatible(acc, f.Kind), "R19b", key, c.P.Pos(call.Pos()), fmt.Sprintf("flag %s is a %sFlag and is read with ctx.%s", name, f.Kind, acc),
				fmt.Sprintf("flag %s is declared as cli.%sFlag but read with ctx.%s: the lookup fails and the setting is silently ignored", name, f.Kind, acc))
		}
	}

	// ---- R19a ----
	getFn := c.P.MustFunc(R, "R19a", "config.get")
	nfa := c.P.MustFunc(R, "R19a", "config.newFromArgs")
	wired := map[string]string{} // flag name -> yaml path it lands in
	if getFn != nil && nfa != nil {
		// newFromArgs: parameter -> Config field
		paramField := map[string]*types.Var{}
		ast.Inspect(nfa.Decl.Body, func(n ast.Node) bool {
			cl, ok := n.(*ast.CompositeLit)
			if !ok || !strings.HasSuffix(info.TypeOf(cl).String(), "config.Config") {
				return true
			}
			st := info.TypeOf(cl).Underlying().(*types.Struct)
			for _, el := range cl.Elts {
				kv, ok := el.(*ast.KeyValueExpr)
				if !ok {
					continue
				}
				if id, ok := kv.Value.(*ast.Ident); ok {
					for i := 0; i < st.NumFields(); i++ {
						if st.Field(i).Name() == exprStr(kv.Key) {
							if _, dup := paramField[id.Name]; dup {
								R.Fail("R19a", c.Cfg+"newFromArgs:param-used-twice:"+id.Name, c.P.Pos(kv.Pos()), "parameter "+id.Name+" initialises more than one Config field")
							}
							paramField[id.Name] = st.Field(i)
						}
					}
				}
			}
			return true
		})
		var params []string
		for _, fld := range nfa.Decl.Type.Params.List {
			for _, n := range fld.Names {
				params = append(params, n.Name)
			}
		}
		tagOf := func(v *types.Var) string {
			for tag, f := range top {
				if f == v {
					return tag
				}
			}
			return ""
		}
		// locals of get that hold struct literals / derived values
		localLits := map[string]*ast.CompositeLit{}
		ast.Inspect(getFn.Decl.Body, func(n ast.Node) bool {
			if as, ok := n.(*ast.AssignStmt); ok && len(as.Lhs) == 1 && len(as.Rhs) == 1 {
				r := ast.Unparen(as.Rhs[0])
				if u, ok := r.(*ast.UnaryExpr); ok && u.Op == token.AND {
					r = u.X
				}
				if cl, ok := r.(*ast.CompositeLit); ok {
					localLits[exprStr(as.Lhs[0])] = cl
				}
			}
			return true
		})
		var nfaCall *ast.CallExpr
		for _, call := range callsIn(getFn.Decl.Body, false) {
			if calleeKey(info, call) == "config.newFromArgs" {
				nfaCall = call
			}
		}
		if nfaCall == nil || len(nfaCall.Args) != len(params) {
			R.Fail("R19a", c.Cfg+"config.get:newFromArgs-call", "", "the call to newFromArgs was not found or has another arity")
		} else {
			for i, a := range nfaCall.Args {
				fld := paramField[params[i]]
				if fld == nil {
					R.Fail("R19a", c.Cfg+"newFromArgs:param:"+params[i], c.P.Pos(a.Pos()), "parameter "+params[i]+" of newFromArgs does not initialise a Config field")
					continue
				}
				ytag := tagOf(fld)
				if _, name, ok := ctxAccess(info, a); ok {
					wired[name] = ytag
					R.Check(ytag == name, "R19a", c.Cfg+"flag:"+name, c.P.Pos(a.Pos()), fmt.Sprintf("flag %s -> parameter %s -> Config.%s (yaml %q)", name, params[i], fld.Name(), ytag),
						fmt.Sprintf("flag %s is passed in the position of parameter %s, which initialises Config.%s (yaml key %q): the flag and the YAML key of the same name configure different things", name, params[i], fld.Name(), ytag))
					continue
				}
				id, isIdent := a.(*ast.Ident)
				if !isIdent {
					R.Fail("R19a", c.Cfg+"newFromArgs:arg:"+params[i], c.P.Pos(a.Pos()), "unrecognised argument expression "+exprStr(a))
					continue
				}
				if cl := localLits[id.Name]; cl != nil {
					sub := yamlFields(info.TypeOf(cl))
					stt := info.TypeOf(cl).Underlying().(*types.Struct)
					for _, el := range cl.Elts {
						kv, ok := el.(*ast.KeyValueExpr)
						if !ok {
							continue
						}
						var fv *types.Var
						for j := 0; j < stt.NumFields(); j++ {
							if stt.Field(j).Name() == exprStr(kv.Key) {
								fv = stt.Field(j)
							}
						}
						subTag := ""
						for tag, f := range sub {
							if f == fv {
								subTag = tag
							}
						}
						_, name, ok := ctxAccess(info, kv.Value)
						if !ok {
							// BaseURL: u  (u parsed from the .url flag)
							if exprStr(kv.Key) == "BaseURL" {
								for fname := range flags {
									if strings.HasSuffix(fname, ".url") && flagPrefixToYAML[strings.TrimSuffix(fname, ".url")] == ytag {
										wired[fname] = ytag + ".url"
										R.Check(subTag == "url", "R19a", c.Cfg+"flag:"+fname, c.P.Pos(kv.Pos()), "flag "+fname+" -> "+ytag+".url", "BaseURL is tagged "+subTag)
									}
								}
								continue
							}
							R.Fail("R19a", c.Cfg+"literal:"+id.Name+"."+exprStr(kv.Key), c.P.Pos(kv.Pos()), "field is not fed from a flag: "+exprStr(kv.Value))
							continue
						}
						dot := strings.Index(name, ".")
						pfx, suffix := "", name
						if dot > 0 {
							pfx, suffix = name[:dot], name[dot+1:]
						}
						wired[name] = ytag + "." + subTag
						R.Check(flagPrefixToYAML[pfx] == ytag && suffix == subTag, "R19a", c.Cfg+"flag:"+name, c.P.Pos(kv.Pos()), fmt.Sprintf("flag %s -> %s.%s", name, ytag, subTag),
							fmt.Sprintf("flag %s initialises %s.%s: the flag and the YAML key of the same name configure different things", name, ytag, subTag))
					}
					continue
				}
				// httpAddress / grpcAddress / profileAddress: deprecated host/port forms, excepted by the property
				switch ytag {
				case "http_address", "grpc_address", "profile_address":
					wired[ytag] = ytag
					R.OK("R19a", c.Cfg+"flag:"+ytag, c.P.Pos(a.Pos()), "listener address (normalised from the deprecated host/port forms; see R19g)")
				default:
					R.Fail("R19a", c.Cfg+"newFromArgs:arg:"+params[i], c.P.Pos(a.Pos()), "argument "+id.Name+" for Config."+fld.Name()+" is not derived from a flag in a recognised way")
				}
			}
		}
	}

	// ---- R19d ----
	deprecatedOrSpecial := map[string]string{
		"config_file":    "selects the YAML front end",
		"s3.key_version": "deprecated, ignored",
	}
	var names []string
	for n := range flags {
		names = append(names, n)
	}
	sort.Strings(names)
	for _, n := range names {
		if why, ok := deprecatedOrSpecial[n]; ok && !read[n] {
			R.OK("R19d", c.Cfg+"flag-read:"+n, c.P.Pos(flags[n].Pos), "frozen exception: "+why)
			continue
		}
		R.Check(read[n], "R19d", c.Cfg+"flag-read:"+n, c.P.Pos(flags[n].Pos), "flag "+n+" is read by the configuration front end", "flag "+n+" is declared but never read: setting it has no effect")
	}
	// yaml fields -> flags
	var walk func(prefixYAML, prefixFlag string, t types.Type)
	noFlag := map[string]string{"endpoint_metrics_duration_buckets": "YAML only (list value)", "s3_proxy.key_version": "deprecated"}
	walk = func(prefixYAML, prefixFlag string, t types.Type) {
		fs := yamlFields(t)
		var tags []string
		for tag := range fs {
			tags = append(tags, tag)
		}
		sort.Strings(tags)
		for _, tag := range tags {
			f := fs[tag]
			ft := f.Type()
			if p, ok := ft.(*types.Pointer); ok {
				if _, isStruct := p.Elem().Underlying().(*types.Struct); isStruct && prefixYAML == "" {
					// nested section
					fp := ""
					for k, v := range flagPrefixToYAML {
						if v == tag {
							fp = k
						}
					}
					if fp == "" {
						R.Fail("R19d", c.Cfg+"yaml-section:"+tag, "", "YAML section "+tag+" has no flag prefix")
						continue
					}
					walk(tag+".", fp+".", p.Elem())
					continue
				}
			}
			path := prefixYAML + tag
			if why, ok := noFlag[path]; ok {
				R.OK("R19d", c.Cfg+"yaml-has-flag:"+path, "", "frozen exception: "+why)
				continue
			}
			flagName := prefixFlag + tag
			_, has := flags[flagName]
			R.Check(has, "R19d", c.Cfg+"yaml-has-flag:"+path, "", "YAML key "+path+" has the flag --"+flagName, "YAML key "+path+" cannot be given as a flag")
		}
	}
	walk("", "", cfgObj.Type())
	if yc := cfgPkg.Types.Scope().Lookup("YamlConfig"); yc != nil {
		for tag := range yamlFields(yc.Type()) {
			_, has := flags[tag]
			R.Check(has, "R19d", c.Cfg+"yaml-has-flag:"+tag, "", "deprecated YAML key "+tag+" has the flag --"+tag, "no such flag")
		}
	}

	// ---- R19c ----
	yamlDefaults := map[string]string{}
	if fy := c.P.MustFunc(R, "R19c", "config.NewFromYaml"); fy != nil {
		ast.Inspect(fy.Decl.Body, func(n ast.Node) bool {
			cl, ok := n.(*ast.CompositeLit)
			if !ok || !strings.HasSuffix(info.TypeOf(cl).String(), "config.Config") {
				return true
			}
			st := info.TypeOf(cl).Underlying().(*types.Struct)
			for _, el := range cl.Elts {
				kv, ok := el.(*ast.KeyValueExpr)
				if !ok {
					continue
				}
				for i := 0; i < st.NumFields(); i++ {
					if st.Field(i).Name() == exprStr(kv.Key) {
						tag := strings.Split(reflect.StructTag(st.Tag(i)).Get("yaml"), ",")[0]
						if tv, ok := info.Types[kv.Value]; ok && tv.Value != nil {
							yamlDefaults[tag] = tv.Value.ExactString()
						} else {
							yamlDefaults[tag] = "?" + exprStr(kv.Value)
						}
					}
				}
			}
			return true
		})
	}
	equiv := map[string]string{
		"max_size_hard_limit":     "-1 and 0 both mean disabled: every use tests > 0",
		"ldap.username_attribute": "validateConfig rewrites the empty value to the flag default \"uid\"",
		"ldap.cache_time":         "validateConfig rewrites a non-positive value to the flag default",
		"s3.aws_profile":          "minio treats \"\" as \"default\"",
		"port":                    "listener defaults intentionally differ (excluded by the property)",
		"grpc_port":               "listener defaults intentionally differ (excluded by the property)",
		"profile_host":            "listener defaults intentionally differ (excluded by the property)",
		"s3.key_version":          "deprecated, ignored",
	}
	zeroOf := func(kind string) string {
		switch kind {
		case "String":
			return `""`
		case "Bool":
			return "false"
		}
		return "0"
	}
	for _, n := range names {
		f := flags[n]
		if n == "config_file" {
			continue
		}
		def := f.Default
		if !f.HasDefault {
			def = zeroOf(f.Kind)
		}
		yd, has := yamlDefaults[n]
		if !has {
			yd = zeroOf(f.Kind)
		}
		if why, ok := equiv[n]; ok {
			R.OK("R19c", c.Cfg+"default:"+n, c.P.Pos(f.Pos), fmt.Sprintf("flag default %s vs YAML default %s: frozen equivalence: %s", def, yd, why))
			continue
		}
		if n == "s3.bucket_lookup_type" && def != yd {
			// equivalent iff the lookup table maps both spellings to the same value
			m := map[string]string{}
			if fp := c.P.Func("config.parseBucketLookupType"); fp != nil {
				ast.Inspect(fp.Decl.Body, func(nn ast.Node) bool {
					if cl, ok := nn.(*ast.CompositeLit); ok {
						for _, el := range cl.Elts {
							if kv, ok := el.(*ast.KeyValueExpr); ok {
								m[exprStr(kv.Key)] = exprStr(kv.Value)
							}
						}
					}
					return true
				})
			}
			R.Check(m[def] != "" && m[def] == m[yd], "R19c", c.Cfg+"default:"+n, c.P.Pos(f.Pos), fmt.Sprintf("flag default %s and YAML default %s select the same bucket lookup type in parseBucketLookupType", def, yd),
				fmt.Sprintf("flag --%s defaults to %s but a YAML config starts from %s, which parseBucketLookupType maps to %q vs %q: the same explicit settings start from flags and are refused (or differ) from YAML", n, def, yd, m[def], m[yd]))
			continue
		}
		R.Check(def == yd, "R19c", c.Cfg+"default:"+n, c.P.Pos(f.Pos), fmt.Sprintf("flag --%s defaults to %s, as the YAML front end does", n, def),
			fmt.Sprintf("flag --%s defaults to %s but the YAML front end starts from %s: the same explicit settings give different effective configurations", n, def, yd))
	}

	// ---- R19e ----
	for _, key := range []string{"config.newFromArgs", "config.NewFromYaml"} {
		fi := c.P.MustFunc(R, "R19e", key)
		if fi == nil {
			continue
		}
		var base *Base
		n := 0
		base = NewBase(Hooks{
			Call: func(x *Exec, call *ast.CallExpr, lhs []ast.Expr, s St) ([]St, bool) {
				if calleeKey(x.Fn.Info, call) == "config.validateConfig" && len(lhs) == 1 {
					return base.ForkErr(x, lhs, 0, s, func(ok St) St { return ok.Set("validated", "1") }, nil), true
				}
				return nil, false
			},
			Exit: func(x *Exec, ret *ast.ReturnStmt, s St) {
				if RetNil(x.Fn, s, 1) == "nonnil" || RetNil(x.Fn, s, 0) == "nil" {
					return
				}
				n++
				R.Check(s.Get("validated") == "1", "R19e", fmt.Sprintf("%s%s:return#%d", c.Cfg, key, returnOrdinal(x.Fn, ret)), c.P.Pos(posOf(x, ret)), key+" returns a Config only after validateConfig accepted it", "a Config is returned on a path that skipped validateConfig", x.Trace()...)
			},
		})
		x := NewExec(c.P.FlowOf(fi), base)
		x.Run(newSt())
		R.Check(n > 0, "R19e", c.Cfg+key+":has-success", "", key+" has a success return", "none found")
	}
	if fi := c.P.MustFunc(R, "R19e", "config.Get"); fi != nil {
		var base *Base
		n := 0
		base = NewBase(Hooks{
			Call: func(x *Exec, call *ast.CallExpr, lhs []ast.Expr, s St) ([]St, bool) {
				k := calleeKey(x.Fn.Info, call)
				switch k {
				case "config.get":
					return base.ForkErr(x, lhs, 1, s, func(ok St) St { return ok.Set("got", "1") }, nil), true
				case "config.(*Config).setLogger", "config.(*Config).setProxy", "config.(*Config).setTLSConfig":
					return base.ForkErr(x, lhs, 0, s, func(ok St) St { return ok.Set(k[strings.LastIndex(k, ".")+1:], "1") }, nil), true
				}
				return nil, false
			},
			Exit: func(x *Exec, ret *ast.ReturnStmt, s St) {
				if RetNil(x.Fn, s, 1) == "nonnil" || RetNil(x.Fn, s, 0) == "nil" {
					return
				}
				n++
				ok := s.Get("got") == "1" && s.Get("setLogger") == "1" && s.Get("setProxy") == "1" && s.Get("setTLSConfig") == "1"
				R.Check(ok, "R19e", fmt.Sprintf("%sconfig.Get:return#%d", c.Cfg, returnOrdinal(x.Fn, ret)), c.P.Pos(posOf(x, ret)), "Get returns a Config only after get, setLogger, setProxy and setTLSConfig succeeded", "a step was skipped on a success path", x.Trace()...)
			},
		})
		x := NewExec(c.P.FlowOf(fi), base)
		x.Run(newSt())
		R.Check(n > 0, "R19e", c.Cfg+"config.Get:has-success", "", "Get has a success return", "none found")
		// get() uses the YAML front end iff config_file is set, else newFromArgs
	}

	// ---- R19f ----
	configInvalidClasses(c)

	// ---- R19g ----
	configAddressChains(c, flags)
}

func atomVal(s St, pat func(l, op, r string) bool) string {
	for k, v := range s.m {
		if l, op, r, ok := parseAtom(k); ok && pat(l, op, r) {
			return v
		}
	}
	return ""
}

func fieldAtom(s St, lconst, op, field string) string {
	return atomVal(s, func(l, o, r string) bool {
		if o != op {
			return false
		}
		return (l == lconst && strings.HasSuffix(r, "."+field)) || (r == lconst && strings.HasSuffix(l, "."+field))
	})
}

// configAddressChains compares the address normalisation of the two front ends.
func configAddressChains(c *Ctx, flags map[string]*cliFlag) {
	R := c.R
	getFn := c.P.Func("config.get")
	yamlFn := c.P.Func("config.NewFromYaml")
	if getFn == nil || yamlFn == nil {
		R.Fail("R19g", c.Cfg+"anchor", "", "config.get / config.NewFromYaml not found")
		return
	}
	info := getFn.Pkg.TypesInfo
	// yaml tags of YamlConfig / Config fields used as operands
	tagOfSel := func(e ast.Expr) string {
		sel, ok := ast.Unparen(e).(*ast.SelectorExpr)
		if !ok {
			return ""
		}
		s := info.Selections[sel]
		if s == nil || s.Kind() != types.FieldVal {
			return ""
		}
		recv := s.Recv()
		for {
			if p, ok := recv.(*types.Pointer); ok {
				recv = p.Elem()
				continue
			}
			break
		}
		for tag, f := range yamlFields(recv) {
			if f == s.Obj() {
				return tag
			}
		}
		// promoted through the embedded Config
		if cfg := getFn.Pkg.Types.Scope().Lookup("Config"); cfg != nil {
			for tag, f := range yamlFields(cfg.Type()) {
				if f == s.Obj() {
					return tag
				}
			}
		}
		return ""
	}
	var norm func(e ast.Expr, addrVar string) string
	norm = func(e ast.Expr, addrVar string) string {
		e = ast.Unparen(e)
		if _, name, ok := ctxAccess(info, e); ok {
			return "$" + name
		}
		if t := tagOfSel(e); t != "" {
			if t == addrVar {
				return "$A"
			}
			return "$" + t
		}
		switch e := e.(type) {
		case *ast.Ident:
			if e.Name == addrVar {
				return "$A"
			}
			return e.Name
		case *ast.BinaryExpr:
			return "(" + norm(e.X, addrVar) + e.Op.String() + norm(e.Y, addrVar) + ")"
		case *ast.CallExpr:
			var as []string
			for _, a := range e.Args {
				as = append(as, norm(a, addrVar))
			}
			return exprStr(e.Fun) + "(" + strings.Join(as, ",") + ")"
		case *ast.BasicLit:
			return e.Value
		}
		return exprStr(e)
	}
	// collect, per address, the guarded rewrites  if G { A = V }  in source order; a rewrite in an
	// else-if branch is guarded by the negation of the earlier guards of its chain as well (the
	// order of the rewrites and their mutual exclusion are part of the normalisation: "none" is only
	// mapped to "" when the deprecated port form did not apply)
	collect := func(fn *FuncInfo, addr func(e ast.Expr) string) map[string][]string {
		out := map[string][]string{}
		var visitIf func(is *ast.IfStmt, neg []ast.Expr)
		visitIf = func(is *ast.IfStmt, neg []ast.Expr) {
			for _, st := range is.Body.List {
				if as, ok := st.(*ast.AssignStmt); ok && len(as.Lhs) == 1 && len(as.Rhs) == 1 {
					if a := addr(as.Lhs[0]); a != "" {
						varName := exprStr(as.Lhs[0])
						if t := tagOfSel(as.Lhs[0]); t != "" {
							varName = t
						}
						g := norm(is.Cond, varName)
						for i := len(neg) - 1; i >= 0; i-- {
							g = "!" + norm(neg[i], varName) + " && " + g
						}
						out[a] = append(out[a], g+" => $A="+norm(as.Rhs[0], varName))
					}
				}
			}
			if el, ok := is.Else.(*ast.IfStmt); ok {
				visitIf(el, append(append([]ast.Expr{}, neg...), is.Cond))
			}
		}
		for _, st := range fn.Decl.Body.List {
			if is, ok := st.(*ast.IfStmt); ok {
				visitIf(is, nil)
			}
		}
		return out
	}
	// the locals of get that end up in the three address fields: argument i of newFromArgs is the
	// local, parameter i of newFromArgs is stored in the Config field with that yaml tag
	flagLocal := map[types.Object]string{}
	if nfa := c.P.Func("config.newFromArgs"); nfa != nil {
		paramTag := map[types.Object]string{}
		ast.Inspect(nfa.Decl.Body, func(n ast.Node) bool {
			if kv, ok := n.(*ast.KeyValueExpr); ok {
				if k, ok := kv.Key.(*ast.Ident); ok {
					if f, ok := info.Uses[k].(*types.Var); ok && f.IsField() {
						if cfg := getFn.Pkg.Types.Scope().Lookup("Config"); cfg != nil {
							for tag, ff := range yamlFields(cfg.Type()) {
								if ff == f {
									if o := identObj(info, kv.Value); o != nil {
										paramTag[o] = tag
									}
								}
							}
						}
					}
				}
			}
			return true
		})
		for _, call := range callsIn(getFn.Decl.Body, false) {
			if calleeKey(info, call) == "config.newFromArgs" {
				for i, a := range call.Args {
					if o := identObj(info, a); o != nil {
						if t := paramTag[paramObj(nfa, i)]; t != "" {
							flagLocal[o] = t
						}
					}
				}
			}
		}
	}
	flagAddr := func(e ast.Expr) string {
		if o := identObj(info, e); o != nil {
			if t := flagLocal[o]; t == "http_address" || t == "grpc_address" || t == "profile_address" {
				return t
			}
		}
		return ""
	}
	yamlAddr := func(e ast.Expr) string {
		t := tagOfSel(e)
		if t == "http_address" || t == "grpc_address" || t == "profile_address" {
			return t
		}
		return ""
	}
	// in get the local variable is normalised under its own name
	gc := collect(getFn, flagAddr)
	yc := collect(yamlFn, yamlAddr)
	for _, a := range []string{"http_address", "grpc_address", "profile_address"} {
		g := strings.Join(gc[a], " ; ")
		y := strings.Join(yc[a], " ; ")
		R.Check(g == y && g != "", "R19g", c.Cfg+"address:"+a, c.P.Pos(getFn.Decl.Pos()), "the flag and the YAML front end apply the same guarded rewrites to "+a+": "+g,
			fmt.Sprintf("normalisation of %s differs: flags: [%s]  yaml: [%s]", a, g, y))
	}
}
