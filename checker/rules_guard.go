package main

// E8 guard facts on the path engine:
//   R14a  a field selection through a nilable protobuf message pointer needs a
//         dominating non-nil fact on every path;
//   R14b  every division/modulo by a non-constant divisor needs a dominating
//         non-zero fact;
//   R14c  every index with a constant or non-induction index needs a
//         dominating bound.

import (
	"fmt"
	"go/ast"
	"go/token"
	"go/types"
	"regexp"
	"sort"
	"strconv"
	"strings"
)

func isProtoMsgStruct(t types.Type) bool {
	n, ok := t.(*types.Named)
	if !ok {
		return false
	}
	if _, ok := n.Underlying().(*types.Struct); !ok {
		return false
	}
	pkg := n.Obj().Pkg()
	if pkg == nil {
		return false
	}
	p := pkg.Path()
	if strings.Contains(p, "/genproto/") || strings.HasPrefix(p, "google.golang.org/genproto") {
		// generated messages have a ProtoReflect method
		ms := types.NewMethodSet(types.NewPointer(n))
		for i := 0; i < ms.Len(); i++ {
			if ms.At(i).Obj().Name() == "ProtoReflect" {
				return true
			}
		}
	}
	return false
}

func isMsgPtr(t types.Type) bool {
	if t == nil {
		return false
	}
	p, ok := t.Underlying().(*types.Pointer)
	if !ok {
		if pp, ok2 := t.(*types.Pointer); ok2 {
			p, ok = pp, true
		}
	}
	return ok && isProtoMsgStruct(p.Elem())
}

// msgFieldLoad: e is x.F where F is a singular message-typed field of a generated message.
func msgFieldLoad(info *types.Info, e ast.Expr) bool {
	sel, ok := ast.Unparen(e).(*ast.SelectorExpr)
	if !ok {
		return false
	}
	s := info.Selections[sel]
	if s == nil || s.Kind() != types.FieldVal {
		return false
	}
	if !isMsgPtr(s.Obj().Type()) {
		return false
	}
	bt := info.TypeOf(sel.X)
	if p, ok := bt.(*types.Pointer); ok {
		bt = p.Elem()
	}
	return isProtoMsgStruct(bt)
}

type guardRules struct {
	c        *Ctx
	base     *Base
	nilable  map[types.Object]bool // locals assigned from a nilable source in the current function
	summary  map[*types.Func]string
	valPost  map[string][]string // validate.ActionResult post-condition: repeated field -> element fields proven non-nil ("" = the element itself)
	inSummar bool
	fnKey    string
	frozen   map[string]string
	induct   map[types.Object]bool
	scans    map[*FlowFn]*scanInfo
}

// validatorPost derives validate.ActionResult's post-condition from its body.
func validatorPost(c *Ctx) map[string][]string {
	out := map[string][]string{}
	fi := c.P.Func("validate.ActionResult")
	if fi == nil {
		return out
	}
	info := fi.Pkg.TypesInfo
	for _, st := range fi.Decl.Body.List {
		rs, ok := st.(*ast.RangeStmt)
		if !ok || rs.Value == nil {
			continue
		}
		sel, ok := rs.X.(*ast.SelectorExpr)
		if !ok {
			continue
		}
		v := identObj(info, rs.Value)
		var collect func(list []ast.Stmt, v types.Object, depth int)
		collect = func(list []ast.Stmt, v types.Object, depth int) {
			for i, bs := range list {
				// a helper of the package that is given the element and whose error is returned:
				// its own leading nil tests count for the element
				var call *ast.CallExpr
				switch st := bs.(type) {
				case *ast.AssignStmt:
					if len(st.Rhs) == 1 && i+1 < len(list) {
						if _, isIf := list[i+1].(*ast.IfStmt); isIf {
							call, _ = ast.Unparen(st.Rhs[0]).(*ast.CallExpr)
						}
					}
				case *ast.IfStmt:
					if as, ok := st.Init.(*ast.AssignStmt); ok && len(as.Rhs) == 1 {
						call, _ = ast.Unparen(as.Rhs[0]).(*ast.CallExpr)
					}
				}
				if call != nil && depth < 3 {
					if h := c.P.Func(calleeKey(info, call)); h != nil && h.Pkg == fi.Pkg && h.Decl.Body != nil && h.Key != "validate.maybeNilDigest" {
						for ai, a := range call.Args {
							if identObj(info, a) == v && v != nil {
								if po := paramObj(h, ai); po != nil {
									collect(h.Decl.Body.List, po, depth+1)
								}
							}
						}
					}
				}
				is, ok := bs.(*ast.IfStmt)
				if !ok || is.Init != nil || len(is.Body.List) == 0 {
					continue
				}
				be, ok := is.Cond.(*ast.BinaryExpr)
				if !ok || be.Op != token.EQL || !isNilIdent(info, be.Y) {
					continue
				}
				ret, ok := is.Body.List[len(is.Body.List)-1].(*ast.ReturnStmt)
				if !ok || len(ret.Results) != 1 || isNilIdent(info, ret.Results[0]) {
					continue
				}
				switch x := be.X.(type) {
				case *ast.Ident:
					if identObj(info, x) == v {
						out[sel.Sel.Name] = append(out[sel.Sel.Name], "")
					}
				case *ast.SelectorExpr:
					if identObj(info, x.X) == v {
						out[sel.Sel.Name] = append(out[sel.Sel.Name], x.Sel.Name)
					}
				}
			}
		}
		collect(rs.Body.List, v, 0)
	}
	return out
}

func guardFacts(c *Ctx, pkgs []string, doNil, doDiv, doIdx bool) {
	R := c.R
	if doNil {
		R.Rule("R14a", "E8", "a field selection through a nilable protobuf message pointer (singular message field, or a local assigned from one / from a callee that may return nil) is dominated by a non-nil fact on every path", 10)
	}
	if doNil {
		R.Rule("R14h", "E8", "digest lists hold no nil: every value appended to a []*Digest in request code (the lists handed to the presence checks, which dereference their elements under the cache lock) is known to be non-nil where it is appended", 5)
	}
	if doDiv {
		R.Rule("R14b", "E8", "every division or modulo by a non-constant divisor is dominated by a non-zero fact for that divisor", 2)
	}
	if doIdx {
		R.Rule("R14c", "E8", "every slice/array/string index that is a constant or not a loop induction variable, and every non-constant slice bound, is dominated by a bound on the length (io.Reader byte counts, range indices, bounded accumulators and bounded-result helpers are recognised)", 20)
	}
	g := &guardRules{c: c, summary: map[*types.Func]string{}, valPost: validatorPost(c)}
	if doNil {
		n := 0
		for _, fs := range g.valPost {
			n += len(fs)
		}
		R.Check(n >= 4, "R14a", c.Cfg+"validate.ActionResult:postcondition", "", fmt.Sprintf("validate.ActionResult's post-condition is derived from its body (elements and Digest/TreeDigest non-nil): %v", g.valPost),
			"post-condition could not be derived: the nil tests in validate.ActionResult were removed or restructured")
	}
	g.frozen = map[string]string{
		"grpcproxy.(*GrpcClients).CheckCapabilities": "start-up only (config.setProxy), not a request path",
	}
	g.base = NewBase(Hooks{
		Observe: func(x *Exec, e ast.Expr, s St) { g.observe(x, e, s, doNil, doDiv, doIdx) },
		Call:    g.call,
		Assign:  g.assign,
		Cond:    g.cond,
	}, "casblob.readHeader") // facts about the parsed header flow to the readers through `return &h, nil`
	var fns []*FuncInfo
	for _, p := range pkgs {
		fns = append(fns, c.P.FuncsInPkg(p)...)
	}
	nf := 0
	for _, fi := range fns {
		if strings.HasSuffix(c.P.Fset.Position(fi.Decl.Pos()).Filename, "_test.go") {
			continue
		}
		if _, ok := g.frozen[fi.Key]; ok {
			R.OK("R14a", c.Cfg+fi.Key+":frozen-exception", c.P.Pos(fi.Decl.Pos()), "frozen exception: "+g.frozen[fi.Key])
			continue
		}
		nf++
		g.runFunc(c.P.FlowOf(fi))
	}
	R.Count("functions analysed for guard facts", nf)
	if doIdx {
		// the contracts the slice rule relies on are themselves obligations
		for key, pi := range boundedResultFuncs {
			fi := c.P.MustFunc(R, "R14c", key)
			if fi == nil {
				continue
			}
			var bb *Base
			nret := 0
			bb = NewBase(Hooks{Return: func(x *Exec, ret *ast.ReturnStmt, s St) []St {
				if ret == nil || len(ret.Results) == 0 {
					return []St{s}
				}
				nret++
				params := x.Fn.Type.Params.List
				var pname *ast.Ident
				idx := 0
				for _, f := range params {
					for _, n := range f.Names {
						if idx == pi {
							pname = n
						}
						idx++
					}
				}
				ok := false
				if pname != nil {
					pt, ok1 := bb.Term(x, pname, s)
					rt, ok2 := bb.Term(x, ret.Results[0], s)
					ok = ok1 && ok2 && (relIsEq(s, rt, "<=", "len("+pt+")", true) || rt == "len("+pt+")")
				}
				R.Check(ok, "R14c", fmt.Sprintf("%s%s:return#%d:bounded-result", c.Cfg, key, returnOrdinal(x.Fn, ret)), c.P.Pos(ret.Pos()),
					"the result is at most the length of the buffer parameter (contract used at the call sites)", "the returned count is not bounded by len of the buffer parameter on this path", x.Trace()...)
				return []St{s}
			}})
			bx := NewExec(c.P.FlowOf(fi), bb)
			bx.Run(newSt())
			R.Check(nret > 0, "R14c", c.Cfg+key+":returns", "", "returns of "+key+" were analysed", "none")
		}
	}
}

func (g *guardRules) runFunc(fl *FlowFn) {
	g.fnKey = fl.Name
	root := fl
	for root.Outer != nil {
		root = root.Outer
	}
	_ = root
	x := NewExec(fl, g.base)
	x.Run(newSt())
	if x.Aborted != "" {
		g.c.R.Fail("R14a", g.c.Cfg+fl.Name+":explore", "", "exploration did not complete: "+x.Aborted)
	}
	g.c.R.Count("abstract states explored (guard facts)", x.stats.States)
	// function literals that are not deferred are separate roots
	deferred := map[*ast.FuncLit]bool{}
	var lits []*ast.FuncLit
	ast.Inspect(fl.Body, func(n ast.Node) bool {
		if d, ok := n.(*ast.DeferStmt); ok {
			if l, ok := d.Call.Fun.(*ast.FuncLit); ok {
				deferred[l] = true
			}
		}
		if l, ok := n.(*ast.FuncLit); ok {
			lits = append(lits, l)
			return false
		}
		return true
	})
	for _, l := range lits {
		if !deferred[l] {
			g.runFunc(fl.Lit(l))
		}
	}
	g.fnKey = fl.Name
}

type scanInfo struct {
	nilable, induct map[types.Object]bool
	rangeOf         map[types.Object]string // range index -> text of the ranged expression
}

// scan finds nilable locals and loop induction variables of the function
// (the outermost enclosing declaration) fn belongs to; cached.
func (g *guardRules) scan(fn *FlowFn) *scanInfo {
	for fn.Outer != nil {
		fn = fn.Outer
	}
	if g.scans == nil {
		g.scans = map[*FlowFn]*scanInfo{}
	}
	if si := g.scans[fn]; si != nil {
		return si
	}
	si := &scanInfo{nilable: map[types.Object]bool{}, induct: map[types.Object]bool{}, rangeOf: map[types.Object]string{}}
	g.scans[fn] = si
	g.scanFunc(fn, si)
	return si
}

func (g *guardRules) scanFunc(fn *FlowFn, si *scanInfo) {
	info := fn.Info
	ast.Inspect(fn.Body, func(n ast.Node) bool {
		switch n := n.(type) {
		case *ast.AssignStmt:
			if len(n.Lhs) == len(n.Rhs) {
				for i, r := range n.Rhs {
					if msgFieldLoad(info, r) {
						if o := identObj(info, n.Lhs[i]); o != nil {
							si.nilable[o] = true
						}
					}
				}
			}
			if len(n.Rhs) == 1 {
				if call, ok := ast.Unparen(n.Rhs[0]).(*ast.CallExpr); ok && len(n.Lhs) >= 1 {
					if f := Callee(info, call); f != nil && isMsgPtr(info.TypeOf(n.Lhs[0])) {
						if fi := g.c.P.FuncOf(f); fi != nil && g.resultSummary(fi) == "nilable" {
							if o := identObj(info, n.Lhs[0]); o != nil {
								si.nilable[o] = true
							}
						}
					}
				}
			}
		case *ast.ForStmt:
			if as, ok := n.Init.(*ast.AssignStmt); ok && len(as.Lhs) == 1 && n.Post != nil {
				if o := identObj(info, as.Lhs[0]); o != nil {
					si.induct[o] = true
				}
			}
		case *ast.RangeStmt:
			if n.Key != nil {
				if o := identObj(info, n.Key); o != nil {
					// range index of a slice is always in bounds for that slice
					if _, isMap := info.TypeOf(n.X).Underlying().(*types.Map); !isMap {
						si.induct[o] = true
						si.rangeOf[o] = exprStr(n.X)
					}
				}
			}
		}
		return true
	})
}

// resultSummary: may the first result of fi be a nil message pointer when the error is nil?
func (g *guardRules) resultSummary(fi *FuncInfo) string {
	if v, ok := g.summary[fi.Obj]; ok {
		return v
	}
	g.summary[fi.Obj] = "unknown"
	sig := fi.Obj.Type().(*types.Signature)
	if sig.Results().Len() == 0 || !isMsgPtr(sig.Results().At(0).Type()) {
		g.summary[fi.Obj] = "n/a"
		return "n/a"
	}
	res := "nonnil"
	fl := g.c.P.FlowOf(fi)
	b := NewBase(Hooks{Call: g.call, Assign: g.assign})
	b.H.Exit = func(x *Exec, ret *ast.ReturnStmt, s St) {
		hasErr := sig.Results().Len() >= 2 && types.Identical(sig.Results().At(sig.Results().Len()-1).Type(), types.Universe.Lookup("error").Type())
		if hasErr && RetNil(x.Fn, s, -1) == "nonnil" {
			return
		}
		if RetNil(x.Fn, s, 0) != "nonnil" {
			res = "nilable"
		}
	}
	x := NewExec(fl, b)
	x.Run(newSt())
	if x.Aborted != "" {
		res = "nilable"
	}
	g.summary[fi.Obj] = res
	return res
}

func (g *guardRules) call(x *Exec, call *ast.CallExpr, lhs []ast.Expr, s St) ([]St, bool) {
	info := x.Fn.Info
	b := g.base
	f := Callee(info, call)
	if f == nil {
		return nil, false
	}
	key := funcKey(f)
	sig, _ := f.Type().(*types.Signature)
	// FindStringSubmatch on a package-level regexp compiled from a constant
	// pattern returns nil or exactly NumSubexp+1 strings.
	if fullFuncName(f) == "regexp.(Regexp).FindStringSubmatch" && len(lhs) == 1 {
		if sel, ok := call.Fun.(*ast.SelectorExpr); ok {
			if n := regexpGroups(g.c, info, sel.X); n > 0 {
				st := b.AssignValue(x, lhs[0], nil, s)
				if t, ok := b.Term(x, lhs[0], st); ok {
					st = st.Set("sub:"+t, fmt.Sprint(n+1))
				}
				return []St{st}, true
			}
		}
	}
	// validate.ActionResult(X): on a nil error X and its validated parts are non-nil
	if key == "validate.ActionResult" && len(lhs) == 1 && len(call.Args) == 1 {
		at, ok := b.Term(x, call.Args[0], s)
		return b.ForkErr(x, lhs, 0, s, func(okSt St) St {
			if ok {
				return okSt.Set("n:"+at, "nonnil").Set("validated:"+at, "1")
			}
			return okSt
		}, nil), true
	}
	// generated gRPC client stubs return a non-nil message iff the error is nil
	if sig != nil && sig.Recv() != nil && sig.Results().Len() == 2 && isMsgPtr(sig.Results().At(0).Type()) && len(lhs) == 2 {
		if _, isIface := sig.Recv().Type().Underlying().(*types.Interface); isIface && f.Pkg() != nil &&
			(strings.Contains(f.Pkg().Path(), "/genproto/") || strings.HasPrefix(f.Pkg().Path(), "google.golang.org/genproto")) {
			return b.ForkErr(x, lhs, 1, s, func(okSt St) St {
				if t, k := b.Term(x, lhs[0], okSt); k {
					return okSt.Set("n:"+t, "nonnil")
				}
				return okSt
			}, nil), true
		}
	}
	// module functions returning (msg, ..., error): non-nil summaries
	if fi := g.c.P.FuncOf(f); fi != nil && sig != nil && sig.Results().Len() >= 2 && isMsgPtr(sig.Results().At(0).Type()) && len(lhs) == sig.Results().Len() {
		if g.resultSummary(fi) == "nonnil" {
			return b.ForkErr(x, lhs, len(lhs)-1, s, func(okSt St) St {
				if t, k := b.Term(x, lhs[0], okSt); k {
					return okSt.Set("n:"+t, "nonnil")
				}
				return okSt
			}, nil), true
		}
	}
	return nil, false
}

func (g *guardRules) assign(x *Exec, as *ast.AssignStmt, s St) []St {
	// n, err := r.Read(buf) / io.ReadFull(r, buf) / n := copy(buf, ..): n is bounded by len(buf)
	if len(as.Rhs) == 1 && len(as.Lhs) >= 1 {
		if call, ok := ast.Unparen(as.Rhs[0]).(*ast.CallExpr); ok {
			var buf ast.Expr
			switch fn := call.Fun.(type) {
			case *ast.SelectorExpr:
				if fn.Sel.Name == "Read" && len(call.Args) == 1 {
					buf = call.Args[0]
				}
				if full := fullCalleeName(x.Fn.Info, call); (full == "io.ReadFull" || full == "io.ReadAtLeast") && len(call.Args) >= 2 {
					buf = call.Args[1]
				}
			case *ast.Ident:
				if fn.Name == "copy" && len(call.Args) == 2 {
					buf = call.Args[0]
				}
			}
			if k := calleeKey(x.Fn.Info, call); k != "" {
				if pi, ok := boundedResultFuncs[k]; ok && pi < len(call.Args) {
					buf = call.Args[pi]
				}
			}
			if id, ok := call.Fun.(*ast.Ident); ok && id.Name == "make" && len(call.Args) >= 2 && len(as.Lhs) == 1 {
				if lt, ok := g.base.LTerm(x, as.Lhs[0], s); ok {
					n := ""
					if k, ok := constInt(x.Fn.Info, call.Args[1]); ok {
						n = fmt.Sprint(k)
					} else if nt, ok := g.base.Term(x, call.Args[1], s); ok {
						n = s.Get("c:" + nt)
					}
					if n != "" {
						s = s.Set("p:#"+n+"==len("+lt+")", "T")
					}
				}
			}
			if buf != nil {
				if bt, ok := g.base.Term(x, buf, s); ok {
					if nt, ok := g.base.LTerm(x, as.Lhs[0], s); ok {
						s = s.Set("iobound:"+nt, bt)
					}
				}
			}
		}
	}
	// range over a repeated message field of a decoded message
	if len(as.Rhs) == 1 && len(as.Lhs) == 2 {
		if u, ok := as.Rhs[0].(*ast.UnaryExpr); ok && u.Op == token.RANGE {
			info := x.Fn.Info
			if sl, ok := info.TypeOf(u.X).Underlying().(*types.Slice); ok && isMsgPtr(sl.Elem()) {
				if vt, ok := g.base.Term(x, as.Lhs[1], s); ok {
					s = s.Set("n:"+vt, "nonnil") // protobuf-go decode invariant: elements of repeated message fields are non-nil
					xs := u.X
					if call, ok := ast.Unparen(xs).(*ast.CallExpr); ok {
						// getter form: result.GetOutputFiles()
						if sel, ok := call.Fun.(*ast.SelectorExpr); ok && strings.HasPrefix(sel.Sel.Name, "Get") {
							xs = &ast.SelectorExpr{X: sel.X, Sel: &ast.Ident{Name: strings.TrimPrefix(sel.Sel.Name, "Get")}}
						}
					}
					if sel, ok := ast.Unparen(xs).(*ast.SelectorExpr); ok {
						if bt, ok := g.base.Term(x, sel.X, s); ok && s.Get("validated:"+bt) != "" {
							for _, f := range g.valPost[sel.Sel.Name] {
								if f != "" {
									s = s.Set("n:"+vt+"."+f, "nonnil")
								}
							}
						}
					}
				}
			}
		}
	}
	return []St{s}
}

func (g *guardRules) observe(x *Exec, e ast.Expr, s St, doNil, doDiv, doIdx bool) {
	info := x.Fn.Info
	R := g.c.R
	root := x.Fn
	for root.Outer != nil {
		root = root.Outer
	}
	switch e := e.(type) {
	case *ast.SelectorExpr:
		if !doNil {
			return
		}
		sel := info.Selections[e]
		if sel == nil || sel.Kind() != types.FieldVal {
			return
		}
		bt := info.TypeOf(e.X)
		if _, ok := bt.(*types.Pointer); !ok || !isMsgPtr(bt) {
			return
		}
		// is the base a nilable source?
		src := ""
		if msgFieldLoad(info, e.X) {
			src = "field"
		} else if o := identObj(info, e.X); o != nil && g.scan(x.Fn).nilable[o] {
			src = "local"
		}
		if src == "" {
			return
		}
		key := fmt.Sprintf("%s%s:%s", g.c.Cfg, root.Name, exprStr(e.X))
		ok := g.base.Nil(x, e.X, s) == "nonnil"
		R.Check(ok, "R14a", key, g.c.P.Pos(e.Pos()), "dereference of "+exprStr(e.X)+" is dominated by a non-nil check",
			exprStr(e)+" dereferences a protobuf message pointer that can be nil on this path (a request or stored blob can crash the process)", x.Trace()...)
	case *ast.BinaryExpr:
		if !doDiv || (e.Op != token.QUO && e.Op != token.REM) {
			return
		}
		if tv, ok := info.Types[e.Y]; ok && tv.Value != nil {
			return
		}
		bt, ok := info.TypeOf(e.Y).Underlying().(*types.Basic)
		if !ok || bt.Info()&types.IsInteger == 0 {
			return
		}
		key := fmt.Sprintf("%s%s:div:%s", g.c.Cfg, root.Name, exprStr(e.Y))
		t, tok := g.base.VTerm(x, e.Y, s)
		safe := false
		if tok {
			safe = relIs(s, "#0", "==", t, false) || relIs(s, "#0", "<", t, true) || relIs(s, t, "<=", "#0", false)
			if strings.HasPrefix(t, "#") && t != "#0" {
				safe = true
			}
		}
		R.Check(safe, "R14b", key, g.c.P.Pos(e.Pos()), "divisor "+exprStr(e.Y)+" is dominated by a non-zero check",
			exprStr(e)+": the divisor can be zero on this path (integer divide by zero panics the handler); divisor term "+t+"; known: "+factsAbout(s, t), x.Trace()...)
	case *ast.IndexExpr:
		if !doIdx || !idxScope(root.Name) {
			return
		}
		xt := info.TypeOf(e.X)
		if xt == nil {
			return
		}
		switch u := xt.Underlying().(type) {
		case *types.Slice, *types.Array:
		case *types.Basic:
			if u.Info()&types.IsString == 0 {
				return
			}
		case *types.Pointer:
			if _, ok := u.Elem().Underlying().(*types.Array); !ok {
				return
			}
		default:
			return
		}
		if tv, ok := info.Types[e.X]; ok && tv.IsType() {
			return // generic instantiation
		}
		// induction variables / range indices are in bounds by construction
		if o := identObj(info, e.Index); o != nil && g.scan(x.Fn).induct[o] {
			return
		}
		xtm, ok1 := g.base.Term(x, e.X, s)
		key := fmt.Sprintf("%s%s:idx:%s", g.c.Cfg, root.Name, exprStr(e))
		safe := false
		if ok1 {
			lt := "len(" + xtm + ")"
			if k, ok := constInt(info, e.Index); ok {
				lo, has := lowerBound(s, lt)
				safe = has && lo > k
				if arr, ok := xt.Underlying().(*types.Array); ok && k < arr.Len() {
					safe = true
				}
			} else if it, ok := g.base.Term(x, e.Index, s); ok {
				safe = relIs(s, it, "<", lt, true) || relIs(s, it+"+#1", "<", lt, true) || relIs(s, it+"+#1", "<=", lt, true) || relIs(s, it+"+#2", "<=", lt, true)
			}
		}
		R.Check(safe, "R14c", key, g.c.P.Pos(e.Pos()), "index "+exprStr(e)+" is dominated by a bound on the length",
			exprStr(e)+": no dominating length/bound check on this path (index out of range panics the handler)", x.Trace()...)
	case *ast.CallExpr:
		if !doNil {
			return
		}
		id, ok := e.Fun.(*ast.Ident)
		if !ok || id.Name != "append" || len(e.Args) < 2 || e.Ellipsis.IsValid() {
			return
		}
		if _, isBuiltin := info.Uses[id].(*types.Builtin); !isBuiltin {
			return
		}
		sl, ok := info.TypeOf(e.Args[0]).Underlying().(*types.Slice)
		if !ok {
			return
		}
		if ep, ok := sl.Elem().(*types.Pointer); !ok || !strings.HasSuffix(ep.Elem().String(), "execution/v2.Digest") {
			return
		}
		for i, a := range e.Args[1:] {
			nn := g.base.Nil(x, a, s) == "nonnil"
			if u, ok := ast.Unparen(a).(*ast.UnaryExpr); ok && u.Op == token.AND {
				nn = true
			}
			ord := 0
			ast.Inspect(root.Body, func(m ast.Node) bool {
				if c2, ok := m.(*ast.CallExpr); ok && c2.Pos() <= e.Pos() {
					if id2, ok := c2.Fun.(*ast.Ident); ok && id2.Name == "append" {
						ord++
					}
				}
				return true
			})
			key := fmt.Sprintf("%s%s:append#%d:%s:%s#%d", g.c.Cfg, root.Name, ord, exprStr(e.Args[0]), exprStr(a), i)
			R.Check(nn, "R14h", key, g.c.P.Pos(e.Pos()), "the digest "+exprStr(a)+" appended to "+exprStr(e.Args[0])+" is known to be non-nil",
				exprStr(a)+" can be nil here; the list is later walked dereferencing every element (findMissingLocalCAS does so holding the cache lock: a nil entry panics the handler and leaves the lock held)", x.Trace()...)
		}
	case *ast.SliceExpr:
		if !doIdx || !idxScope(root.Name) {
			return
		}
		xt := info.TypeOf(e.X)
		if xt == nil {
			return
		}
		switch u := xt.Underlying().(type) {
		case *types.Slice:
		case *types.Basic:
			if u.Info()&types.IsString == 0 {
				return
			}
		default:
			return // arrays: bounds are checked by the compiler for constants, and x[:] needs none
		}
		xtm, ok1 := g.base.Term(x, e.X, s)
		lt := "len(" + xtm + ")"
		for _, bnd := range []ast.Expr{e.Low, e.High} {
			if bnd == nil {
				continue
			}
			key := fmt.Sprintf("%s%s:slice:%s:%s", g.c.Cfg, root.Name, exprStr(e), exprStr(bnd))
			safe := false
			if k, ok := constInt(info, bnd); ok {
				if k == 0 {
					continue
				}
				if ok1 {
					lo, has := lowerBound(s, lt)
					safe = has && lo >= k
					if !safe {
						// strings.HasPrefix(x, "const") == true bounds len(x) from below
						for a, v := range s.m {
							if v == "T" && strings.HasPrefix(a, "p:strings.HasPrefix("+xtm+",#\"") {
								lit := strings.TrimSuffix(strings.TrimPrefix(a, "p:strings.HasPrefix("+xtm+",#"), ")")
								if u, err := strconv.Unquote(lit); err == nil && int64(len(u)) >= k {
									safe = true
								}
							}
						}
					}
				}
			} else if o := rangeIndexOf(info, bnd); o != nil && g.scan(x.Fn).rangeOf[o] == exprStr(e.X) {
				safe = true // i or i+1 with i the range index over this very slice: i < len, so i+1 <= len
			} else if o := identObj(info, bnd); o != nil && boundedAccumulator(root, o, e) {
				safe = true // acc starts at 0 and only grows by the byte counts an io.Reader returned for x[acc:]
			} else if it, ok := g.base.Term(x, bnd, s); ok && ok1 && s.Get("c:"+it) != "" {
				if cv, err := strconv.ParseInt(s.Get("c:"+it), 10, 64); err == nil {
					lo, has := lowerBound(s, lt)
					safe = cv == 0 || (has && lo >= cv)
				}
			} else if it, ok := g.base.Term(x, bnd, s); ok && ok1 {
				safe = relIsEq(s, it, "<=", lt, true) || relIsEq(s, it, "<", lt, true) || relIsEq(s, lt, "<", it, false)
				if !safe && s.Get("iobound:"+it) == xtm {
					safe = true // n of n, err := r.Read(x) / io.ReadFull(r, x) / copy(x, ..): 0 <= n <= len(x) by contract
				}
				if !safe && it == lt {
					safe = true
				}
			}
			R.Check(safe, "R14c", key, g.c.P.Pos(e.Pos()), "slice bound "+exprStr(bnd)+" of "+exprStr(e)+" is dominated by a bound on the length (or is the byte count an io.Reader returned for that very slice)",
				exprStr(e)+": nothing on this path bounds "+exprStr(bnd)+" by the length of "+exprStr(e.X)+" (slice bounds out of range panics the handler)", x.Trace()...)
		}
	}
}

// lowerBound scans the atoms of s for the best known lower bound of term t.
func lowerBound(s St, t string) (int64, bool) {
	best, has := int64(0), false
	upd := func(v int64) {
		if !has || v > best {
			best, has = v, true
		}
	}
	for k, v := range s.m {
		if !strings.HasPrefix(k, "p:") || !strings.Contains(k, t) {
			continue
		}
		body := k[2:]
		for _, op := range []string{"<=", "==", "<"} {
			i := strings.Index(body, op)
			if i < 0 {
				continue
			}
			l, r := body[:i], body[i+len(op):]
			if op == "<" && strings.HasPrefix(r, "=") {
				continue
			}
			cst := func(x string) (int64, bool) {
				if !strings.HasPrefix(x, "#") {
					return 0, false
				}
				n, err := strconv.ParseInt(x[1:], 10, 64)
				return n, err == nil
			}
			if l == t {
				if c, ok := cst(r); ok {
					switch {
					case op == "<" && v == "F":
						upd(c) // !(t < c)  => t >= c
					case op == "<=" && v == "F":
						upd(c + 1)
					}
				}
			}
			if r == t {
				if c, ok := cst(l); ok {
					switch {
					case op == "<" && v == "T":
						upd(c + 1) // c < t
					case op == "<=" && v == "T":
						upd(c)
					case op == "==" && v == "T":
						upd(c)
					}
				}
			}
			break
		}
	}
	if strings.HasPrefix(t, "len(") && !has {
		best, has = 0, true
	}
	if n := s.Get("sub:" + strings.TrimSuffix(strings.TrimPrefix(t, "len("), ")")); n != "" && strings.HasPrefix(t, "len(") {
		// result of FindStringSubmatch on a constant pattern: nil or exactly n entries
		if s.Get("n:"+strings.TrimSuffix(strings.TrimPrefix(t, "len("), ")")) == "nonnil" {
			if v, err := strconv.ParseInt(n, 10, 64); err == nil {
				upd(v)
			}
		}
	}
	for i := 0; has && i < 8; i++ {
		if s.Get(fmt.Sprintf("p:#%d==%s", best, t)) == "F" {
			best++
		} else {
			break
		}
	}
	return best, has
}

var _ = sort.Strings

// regexpGroups returns the number of capture groups of the constant pattern a
// package-level *regexp.Regexp variable is compiled from (0 if unknown).
func regexpGroups(c *Ctx, info *types.Info, e ast.Expr) int {
	if pat := regexpPattern(c, info, e); pat != "" {
		if re, err := regexp.Compile(pat); err == nil {
			return re.NumSubexp()
		}
	}
	return 0
}

// regexpPattern returns the constant pattern of the package-level
// regexp.MustCompile variable e refers to ("" if e is something else).
func regexpPattern(c *Ctx, info *types.Info, e ast.Expr) string {
	out := ""
	regexpVarDo(c, info, e, func(pat string) { out = pat })
	return out
}

func regexpVarDo(c *Ctx, info *types.Info, e ast.Expr, emit func(pat string)) int {
	o, ok := identObj(info, e).(*types.Var)
	if !ok {
		if sel, ok2 := ast.Unparen(e).(*ast.SelectorExpr); ok2 {
			o, ok = info.Uses[sel.Sel].(*types.Var)
		}
		if !ok {
			return 0
		}
	}
	if o.Pkg() == nil || o.Parent() != o.Pkg().Scope() {
		return 0
	}
	pkg := c.P.ByPath[o.Pkg().Path()]
	if pkg == nil {
		return 0
	}
	n := 0
	for _, f := range pkg.Syntax {
		for _, d := range f.Decls {
			gd, ok := d.(*ast.GenDecl)
			if !ok {
				continue
			}
			for _, sp := range gd.Specs {
				vs, ok := sp.(*ast.ValueSpec)
				if !ok {
					continue
				}
				for i, name := range vs.Names {
					if pkg.TypesInfo.Defs[name] != o || i >= len(vs.Values) {
						continue
					}
					call, ok := vs.Values[i].(*ast.CallExpr)
					if !ok || fullCalleeName(pkg.TypesInfo, call) != "regexp.MustCompile" || len(call.Args) != 1 {
						continue
					}
					if pat, ok := constString(pkg.TypesInfo, call.Args[0]); ok {
						emit(pat)
						n++
					}
				}
			}
		}
	}
	return n
}

// cond: a getter of a generated message returns the zero value on a nil
// receiver, so "x.F.GetG() != zero" being true (or "== nonzero constant")
// proves x.F non-nil.
func (g *guardRules) cond(x *Exec, cond ast.Expr, truth bool, s St) ([]St, bool) {
	be, ok := ast.Unparen(cond).(*ast.BinaryExpr)
	if !ok || (be.Op != token.EQL && be.Op != token.NEQ) {
		return nil, false
	}
	info := x.Fn.Info
	try := func(ge, ce ast.Expr) ([]St, bool) {
		// a local that holds the getter's result (code := res.Status.GetCode()), assigned once
		if id, isID := ast.Unparen(ge).(*ast.Ident); isID {
			if o := identObj(info, id); o != nil {
				var def ast.Expr
				ndef := 0
				root := x.Fn
				for root.Outer != nil {
					root = root.Outer
				}
				ast.Inspect(root.Body, func(m ast.Node) bool {
					if as, ok := m.(*ast.AssignStmt); ok && len(as.Lhs) == len(as.Rhs) {
						for i, l := range as.Lhs {
							if identObj(info, l) == o {
								ndef++
								def = as.Rhs[i]
							}
						}
					}
					return true
				})
				if ndef == 1 && def != nil {
					ge = def
				}
			}
		}
		call, ok := ast.Unparen(ge).(*ast.CallExpr)
		if !ok || len(call.Args) != 0 {
			return nil, false
		}
		sel, ok := call.Fun.(*ast.SelectorExpr)
		if !ok || !strings.HasPrefix(sel.Sel.Name, "Get") || !isMsgPtr(info.TypeOf(sel.X)) {
			return nil, false
		}
		tv, ok := info.Types[ce]
		if !ok || tv.Value == nil {
			return nil, false
		}
		zero := tv.Value.ExactString() == "0" || tv.Value.ExactString() == `""` || tv.Value.ExactString() == "false"
		equal := (be.Op == token.EQL) == truth
		// getter == nonzero  or  getter != zero  => receiver non-nil
		if (equal && !zero) || (!equal && zero) {
			if t, ok := g.base.Term(x, sel.X, s); ok {
				if s.Get("n:"+t) == "nil" {
					return nil, true
				}
				return []St{s.Set("n:"+t, "nonnil")}, true
			}
		}
		return nil, false
	}
	if out, ok := try(be.X, be.Y); ok {
		return out, true
	}
	if out, ok := try(be.Y, be.X); ok {
		return out, true
	}
	return nil, false
}

// idxScope: R14c applies to code whose indices come from requests or from
// stored files: the server package, the casblob readers, the validator and the
// gRPC proxy client. Writers that index tables they just built themselves
// (casblob.WriteAndClose, header.write) and start-up/sort code of cache/disk
// are outside the rule.
func idxScope(fn string) bool {
	switch {
	case strings.HasPrefix(fn, "server."), strings.HasPrefix(fn, "validate."), strings.HasPrefix(fn, "grpcproxy."):
		return true
	case strings.HasPrefix(fn, "casblob."):
		return !strings.HasPrefix(fn, "casblob.WriteAndClose") && !strings.HasPrefix(fn, "casblob.(*header).write")
	}
	return false
}

// factsAbout lists the atoms of s that mention term t (for diagnostics).
func factsAbout(s St, t string) string {
	var out []string
	for k, v := range s.m {
		if strings.Contains(k, t) {
			out = append(out, k+"="+v)
		}
	}
	sort.Strings(out)
	return strings.Join(out, " ")
}


// boundedResultFuncs: module functions whose first result is bounded by the
// length of the given parameter; the bound is itself an obligation checked at
// every return of the function (R14c).
var boundedResultFuncs = map[string]int{
	"grpcproxy.(*StreamReadCloser).readFromBuf": 0,
}

// rangeIndexOf returns the range index object i when e is `i` or `i + 1`.
func rangeIndexOf(info *types.Info, e ast.Expr) types.Object {
	e = ast.Unparen(e)
	if be, ok := e.(*ast.BinaryExpr); ok && be.Op == token.ADD {
		if k, ok := constInt(info, be.Y); ok && k == 1 {
			e = ast.Unparen(be.X)
		} else {
			return nil
		}
	}
	return identObj(info, e)
}

// boundedAccumulator reports whether acc, used as the low bound of sl = x[acc:],
// is initialised to 0 and otherwise only modified by `acc += T(n)` where n is
// the count returned by a Read into that same x[acc:].  By the io.Reader
// contract n <= len(x)-acc, so acc <= len(x) is an inductive invariant.
func boundedAccumulator(root *FlowFn, acc types.Object, sl *ast.SliceExpr) bool {
	info := root.Info
	if sl.High != nil || identObj(info, sl.Low) != acc {
		return false
	}
	xs := exprStr(sl.X)
	ok, grows := true, 0
	counts := map[types.Object]bool{} // n of n, err := r.Read(x[acc:])
	ast.Inspect(root.Body, func(n ast.Node) bool {
		as, isAs := n.(*ast.AssignStmt)
		if !isAs {
			return true
		}
		if len(as.Rhs) == 1 {
			if call, k := ast.Unparen(as.Rhs[0]).(*ast.CallExpr); k && len(call.Args) == 1 {
				if sel, k := call.Fun.(*ast.SelectorExpr); k && sel.Sel.Name == "Read" {
					if a, k := ast.Unparen(call.Args[0]).(*ast.SliceExpr); k && exprStr(a.X) == xs && a.High == nil && identObj(info, a.Low) == acc {
						if o := identObj(info, as.Lhs[0]); o != nil {
							counts[o] = true
						}
					}
				}
			}
		}
		for i, l := range as.Lhs {
			if identObj(info, l) != acc {
				continue
			}
			switch as.Tok {
			case token.DEFINE, token.ASSIGN:
				if k, isC := constInt(info, as.Rhs[i]); !isC || k != 0 {
					ok = false
				}
			case token.ADD_ASSIGN:
				r := ast.Unparen(as.Rhs[i])
				if conv, k := r.(*ast.CallExpr); k && len(conv.Args) == 1 {
					if tv, k := info.Types[conv.Fun]; k && tv.IsType() {
						r = ast.Unparen(conv.Args[0])
					}
				}
				if o := identObj(info, r); o == nil || !counts[o] {
					ok = false
				}
				grows++
			default:
				ok = false
			}
		}
		return true
	})
	incdec := false
	ast.Inspect(root.Body, func(n ast.Node) bool {
		if id, k := n.(*ast.IncDecStmt); k && identObj(info, id.X) == acc {
			incdec = true
		}
		if u, k := n.(*ast.UnaryExpr); k && u.Op == token.AND && identObj(info, u.X) == acc {
			incdec = true
		}
		return true
	})
	return ok && !incdec && grows > 0
}

// relIsEq is relIs that also tries, for either side, a term known to be equal.
func relIsEq(s St, l, op, r string, want bool) bool {
	if relIs(s, l, op, r, want) {
		return true
	}
	eqs := func(t string) []string {
		var out []string
		for k, v := range s.m {
			if v != "T" || !strings.HasPrefix(k, "p:") {
				continue
			}
			body := k[2:]
			i := strings.Index(body, "==")
			if i < 0 {
				continue
			}
			a, b := body[:i], body[i+2:]
			if a == t {
				out = append(out, b)
			} else if b == t {
				out = append(out, a)
			}
		}
		sort.Strings(out)
		return out
	}
	for _, l2 := range eqs(l) {
		if relIs(s, l2, op, r, want) {
			return true
		}
	}
	for _, r2 := range eqs(r) {
		if relIs(s, l, op, r2, want) {
			return true
		}
	}
	return false
}
