package main

// E6: string-template evaluator. String-building expressions (constants, +,
// fmt.Sprintf, path.Join / filepath.Join, x[:2], strconv.Itoa, EntryKind
// String()/DirName()) are folded into templates with <placeholders>; the
// path engine supplies one template per return, classified by the facts known
// about the function's parameters on that path.

import (
	"fmt"
	"go/ast"
	"go/token"
	"go/types"
	"sort"
	"strings"
)

type tplEnv struct {
	info *types.Info
	defs map[types.Object][]ast.Expr
	look func(o types.Object) (string, bool) // path-sensitive value of a local, if known
}

func newTplEnv(info *types.Info, body ast.Node) *tplEnv {
	e := &tplEnv{info: info, defs: map[types.Object][]ast.Expr{}}
	ast.Inspect(body, func(n ast.Node) bool {
		if as, ok := n.(*ast.AssignStmt); ok && len(as.Lhs) == len(as.Rhs) {
			for i, l := range as.Lhs {
				if o := identObj(info, l); o != nil {
					e.defs[o] = append(e.defs[o], as.Rhs[i])
				}
			}
		}
		return true
	})
	return e
}

func (t *tplEnv) eval(e ast.Expr) string {
	e = ast.Unparen(e)
	if s, ok := constString(t.info, e); ok {
		return s
	}
	switch e := e.(type) {
	case *ast.Ident:
		o := identObj(t.info, e)
		if o != nil && t.look != nil {
			if v, ok := t.look(o); ok {
				return v
			}
		}
		if o != nil && len(t.defs[o]) == 1 {
			return t.eval(t.defs[o][0])
		}
		return "<" + e.Name + ">"
	case *ast.SelectorExpr:
		return "<" + exprStr(e) + ">"
	case *ast.BinaryExpr:
		if e.Op == token.ADD {
			return t.eval(e.X) + t.eval(e.Y)
		}
	case *ast.SliceExpr:
		lo, hi := "", ""
		if e.Low != nil {
			lo = exprStr(e.Low)
		}
		if e.High != nil {
			hi = exprStr(e.High)
		}
		return "<" + exprStr(e.X) + "[" + lo + ":" + hi + "]>"
	case *ast.CallExpr:
		name := fullCalleeName(t.info, e)
		switch {
		case name == "fmt.Sprintf" && len(e.Args) >= 1:
			format := t.eval(e.Args[0])
			out := ""
			ai := 1
			for i := 0; i < len(format); i++ {
				if format[i] == '%' && i+1 < len(format) {
					i++
					if format[i] == '%' {
						out += "%"
						continue
					}
					if ai < len(e.Args) {
						out += t.arg(e.Args[ai])
						ai++
					} else {
						out += "<?>"
					}
					continue
				}
				out += string(format[i])
			}
			return out
		case name == "path.Join" || name == "path/filepath.Join":
			var parts []string
			for _, a := range e.Args {
				if p := t.eval(a); p != "" {
					parts = append(parts, p)
				}
			}
			return strings.Join(parts, "/")
		case name == "strconv.Itoa" || name == "strconv.FormatInt":
			return t.arg(e.Args[0])
		case strings.HasSuffix(name, "/cache.(EntryKind).String"):
			if sel, ok := e.Fun.(*ast.SelectorExpr); ok {
				return "<" + exprStr(sel.X) + ".String>"
			}
		case strings.HasSuffix(name, "/cache.(EntryKind).DirName"):
			if sel, ok := e.Fun.(*ast.SelectorExpr); ok {
				return "<" + exprStr(sel.X) + ".DirName>"
			}
		case name == "strings.TrimRight" || name == "strings.TrimSuffix":
			return t.eval(e.Args[0])
		}
		if tv, ok := t.info.Types[e.Fun]; ok && tv.IsType() && len(e.Args) == 1 {
			return t.eval(e.Args[0])
		}
		return "<" + exprStr(e) + ">"
	}
	return "<" + exprStr(e) + ">"
}

// arg renders a Sprintf argument: an EntryKind prints through String().
func (t *tplEnv) arg(e ast.Expr) string {
	if typ := t.info.TypeOf(e); typ != nil && strings.HasSuffix(typ.String(), "/cache.EntryKind") {
		return "<" + exprStr(e) + ".String>"
	}
	return t.eval(e)
}

type tplCase struct {
	Cond string
	Tpl  string
}

// paramFacts renders what a state knows about the parameters of fn.
func paramFacts(fn *FlowFn, s St) string {
	var out []string
	add := func(name string, o types.Object) {
		t := objID(o)
		typ := o.Type()
		switch {
		case isBoolType(typ):
			if v := s.Get("b:" + t); v != "" {
				out = append(out, name+"="+v)
			}
		case strings.HasSuffix(typ.String(), "/cache.EntryKind"):
			kind := ""
			for i, k := range []string{"AC", "CAS", "RAW"} {
				if v, known := relLookup(s, fmt.Sprintf("#%d", i), "==", t); known && v {
					kind = k
				}
			}
			if kind == "" {
				// all but one excluded
				var rest []string
				for i, k := range []string{"AC", "CAS", "RAW"} {
					if v, known := relLookup(s, fmt.Sprintf("#%d", i), "==", t); !(known && !v) {
						rest = append(rest, k)
					}
				}
				kind = strings.Join(rest, "|")
			}
			out = append(out, name+"="+kind)
		case typ.String() == "string":
			if v, known := relLookup(s, `#""`, "==", t); known {
				if v {
					out = append(out, name+"=empty")
				} else {
					out = append(out, name+"=nonempty")
				}
			}
		}
	}
	if fn.Recv != nil {
		for _, f := range fn.Recv.List {
			for _, n := range f.Names {
				if o := fn.Info.Defs[n]; o != nil && strings.HasSuffix(o.Type().String(), "/cache.EntryKind") {
					// receiver of EntryKind methods: term is $recv
					kind := ""
					var rest []string
					for i, k := range []string{"AC", "CAS", "RAW"} {
						v, known := relLookup(s, fmt.Sprintf("#%d", i), "==", "$recv")
						if known && v {
							kind = k
						}
						if !(known && !v) {
							rest = append(rest, k)
						}
					}
					if kind == "" {
						kind = strings.Join(rest, "|")
					}
					out = append(out, n.Name+"="+kind)
				}
			}
		}
	}
	if fn.Type.Params != nil {
		for _, f := range fn.Type.Params.List {
			for _, n := range f.Names {
				if o := fn.Info.Defs[n]; o != nil {
					add(n.Name, o)
				}
			}
		}
	}
	sort.Strings(out)
	return strings.Join(out, ",")
}

// templatesOf explores fn and returns one (facts, template) per string return.
func templatesOf(c *Ctx, fl *FlowFn, rule string) []tplCase {
	env := newTplEnv(fl.Info, fl.Body)
	seen := map[string]bool{}
	var out []tplCase
	base := NewBase(Hooks{})
	withState := func(s St) {
		env.look = func(o types.Object) (string, bool) {
			v := s.Get("tpl:" + objID(o))
			return v, v != ""
		}
	}
	base.H.PreAssign = func(x *Exec, as *ast.AssignStmt, s St) St {
		if as.Tok == token.ADD_ASSIGN {
			for _, l := range as.Lhs {
				if o := identObj(x.Fn.Info, l); o != nil && o.Type().String() == "string" {
					s = s.Set("tplold:"+objID(o), s.Get("tpl:"+objID(o)))
				}
			}
		}
		return s
	}
	base.H.Assign = func(x *Exec, as *ast.AssignStmt, s St) []St {
		if len(as.Lhs) == len(as.Rhs) {
			for i, l := range as.Lhs {
				if o := identObj(x.Fn.Info, l); o != nil && o.Type().String() == "string" {
					withState(s)
					v := env.eval(as.Rhs[i])
					if as.Tok == token.ADD_ASSIGN {
						// name += ".v1": the old value was saved before the assignment forgot it
						v = s.Get("tplold:"+objID(o)) + v
					}
					s = s.Set("tpl:"+objID(o), v)
				}
			}
		}
		return []St{s}
	}
	base.H.Exit = func(x *Exec, ret *ast.ReturnStmt, s St) {
		if ret == nil || len(ret.Results) != 1 {
			return
		}
		withState(s)
		tc := tplCase{paramFacts(x.Fn, s), env.eval(ret.Results[0])}
		k := tc.Cond + "\x00" + tc.Tpl
		if !seen[k] {
			seen[k] = true
			out = append(out, tc)
		}
	}
	x := NewExec(fl, base)
	x.Run(newSt())
	if x.Aborted != "" {
		c.R.Fail(rule, c.Cfg+fl.Name+":explore", "", "exploration did not complete: "+x.Aborted)
	}
	sort.Slice(out, func(i, j int) bool {
		if out[i].Cond != out[j].Cond {
			return out[i].Cond < out[j].Cond
		}
		return out[i].Tpl < out[j].Tpl
	})
	return out
}

func tplTable(cases []tplCase) string {
	var ls []string
	for _, c := range cases {
		ls = append(ls, "["+c.Cond+"] "+c.Tpl)
	}
	return strings.Join(ls, " ; ")
}
