package main

// Rules added after the seeded-change campaign (see DESIGN.md): each closes a
// gap a seeded breaking change slipped through.
//
//   R01g  the reader handed to Cache.Put is not cut at the declared size
//   R02e  a casblob reader stops after the first chunk only for the last chunk
//   R04e  (legacy-implies-cas) the .v1 naming flag is true only for CAS
//   R06d  the backend worker signals every unconfirmed blob to the fail-fast search
//   R11c  validate.ActionResult covers every digest field of the message

import (
	"fmt"
	"os"
	"go/ast"
	"go/token"
	"go/types"
	"sort"
	"strings"
)

func extraRules(c *Ctx, want map[string]bool) {
	if want["R01g"] {
		readerNotTruncated(c)
	}
	if want["R02e"] {
		lastChunkDecision(c)
	}
	if want["R04e"] {
		legacyImpliesCAS(c)
	}
	if want["R06d"] {
		workerMissSignal(c)
	}
	if want["R11c"] {
		validatorCoverage(c)
	}
	if want["R08e"] {
		tornFileProtection(c)
	}
	if want["R07g"] {
		indexedFilesImmutable(c)
	}
	if want["R06f"] {
		failFastVerdictAfterWait(c)
	}
}

// ---------------------------------------------------------------- R01g

// readerNotTruncated: for every Cache.Put call in package server the reader
// argument, followed backwards through the function's assignments and the
// wrappers that pass bytes through (io.NopCloser, a zstd decoder reset on it),
// is never an io.LimitReader / io.LimitedReader / io.NewSectionReader whose
// limit is the very size handed to Put: such a reader hides everything after
// the declared size from the verifying writer (trailing data, longer blobs).
func readerNotTruncated(c *Ctx) {
	R := c.R
	R.Rule("R01g", "E3 flow-insensitive value provenance", "the verifier sees the whole payload: the reader handed to Cache.Put is never a limiting reader (io.LimitReader, io.LimitedReader, io.NewSectionReader) cut at the declared size, directly or through pass-through wrappers", 8)
	n := 0
	for _, fi := range c.P.FuncsInPkg("/server") {
		if strings.HasSuffix(c.P.Fset.Position(fi.Decl.Pos()).Filename, "_test.go") || fi.Decl.Body == nil {
			continue
		}
		info := fi.Pkg.TypesInfo
		// all right-hand sides assigned to each variable
		defs := map[types.Object][]ast.Expr{}
		// z.Reset(r): the decoder z reads from r
		resets := map[types.Object][]ast.Expr{}
		ast.Inspect(fi.Decl.Body, func(m ast.Node) bool {
			switch m := m.(type) {
			case *ast.AssignStmt:
				if len(m.Lhs) == len(m.Rhs) {
					for i, l := range m.Lhs {
						if o := identObj(info, l); o != nil {
							defs[o] = append(defs[o], m.Rhs[i])
						}
					}
				}
			case *ast.ValueSpec:
				for i, nm := range m.Names {
					if i < len(m.Values) {
						if o := info.Defs[nm]; o != nil {
							defs[o] = append(defs[o], m.Values[i])
						}
					}
				}
			case *ast.CallExpr:
				if sel, ok := m.Fun.(*ast.SelectorExpr); ok && sel.Sel.Name == "Reset" && len(m.Args) == 1 {
					if o := identObj(info, sel.X); o != nil {
						resets[o] = append(resets[o], m.Args[0])
					}
				}
			}
			return true
		})
		for _, call := range callsIn(fi.Decl.Body, true) {
			k := calleeKey(info, call)
			if k != "disk.(Cache).Put" || len(call.Args) != 5 {
				continue
			}
			n++
			sizeArg, rdrArg := call.Args[3], call.Args[4]
			seen := map[ast.Expr]bool{}
			var bad []string
			var walk func(e ast.Expr, depth int)
			walk = func(e ast.Expr, depth int) {
				e = ast.Unparen(e)
				if seen[e] || depth > 12 {
					return
				}
				seen[e] = true
				switch v := e.(type) {
				case *ast.Ident:
					if o := identObj(info, v); o != nil {
						for _, d := range defs[o] {
							walk(d, depth+1)
						}
						for _, d := range resets[o] {
							walk(d, depth+1)
						}
					}
				case *ast.UnaryExpr:
					if cl, ok := ast.Unparen(v.X).(*ast.CompositeLit); ok && v.Op == token.AND {
						walk(cl, depth+1)
					}
				case *ast.CompositeLit:
					if t := info.TypeOf(v); t != nil && strings.HasSuffix(t.String(), "io.LimitedReader") {
						for _, el := range v.Elts {
							if kv, ok := el.(*ast.KeyValueExpr); ok && exprStr(kv.Key) == "N" && sameValue(info, kv.Value, sizeArg) {
								bad = append(bad, c.P.Pos(v.Pos())+": io.LimitedReader{N: "+exprStr(kv.Value)+"}")
							}
						}
					}
				case *ast.CallExpr:
					full := fullCalleeName(info, v)
					switch {
					case full == "io.LimitReader" && len(v.Args) == 2:
						if sameValue(info, v.Args[1], sizeArg) {
							bad = append(bad, c.P.Pos(v.Pos())+": io.LimitReader(.., "+exprStr(v.Args[1])+")")
						}
						walk(v.Args[0], depth+1)
					case full == "io.NewSectionReader" && len(v.Args) == 3:
						if sameValue(info, v.Args[2], sizeArg) {
							bad = append(bad, c.P.Pos(v.Pos())+": io.NewSectionReader(.., "+exprStr(v.Args[2])+")")
						}
					case full == "io.NopCloser" && len(v.Args) == 1:
						walk(v.Args[0], depth+1)
					default:
						// x.IOReadCloser() and the like: methods of a wrapper variable
						if sel, ok := v.Fun.(*ast.SelectorExpr); ok {
							if o := identObj(info, sel.X); o != nil {
								walk(sel.X, depth+1)
							}
						}
					}
				}
			}
			walk(rdrArg, 0)
			key := fmt.Sprintf("%s%s:Put#%d:reader", c.Cfg, fi.Key, callOrdinalIn(fi, info, call))
			R.Check(len(bad) == 0, "R01g", key, c.P.Pos(call.Pos()), "the reader handed to Put is not cut at the declared size "+exprStr(sizeArg),
				"the reader is limited to exactly the declared size, so bytes after it never reach the verifier: "+strings.Join(bad, "; "))
		}
	}
	R.Count("Cache.Put call sites in package server"+c.Cfg, n)
}

// sameValue: a and b denote the same variable / field, or the same constant.
func sameValue(info *types.Info, a, b ast.Expr) bool {
	a, b = stripConv(info, a), stripConv(info, b)
	if oa, ob := identObj(info, a), identObj(info, b); oa != nil && ob != nil {
		return oa == ob
	}
	if ta, ok := info.Types[a]; ok && ta.Value != nil {
		if tb, ok := info.Types[b]; ok && tb.Value != nil {
			return ta.Value.ExactString() == tb.Value.ExactString()
		}
	}
	return exprStr(a) == exprStr(b) && !hasCall(a)
}

func stripConv(info *types.Info, e ast.Expr) ast.Expr {
	for {
		e = ast.Unparen(e)
		call, ok := e.(*ast.CallExpr)
		if !ok || len(call.Args) != 1 {
			return e
		}
		if tv, ok := info.Types[call.Fun]; !ok || !tv.IsType() {
			return e
		}
		e = call.Args[0]
	}
}

func hasCall(e ast.Expr) bool {
	found := false
	ast.Inspect(e, func(n ast.Node) bool {
		if _, ok := n.(*ast.CallExpr); ok {
			found = true
		}
		return !found
	})
	return found
}

func callOrdinalIn(fi *FuncInfo, info *types.Info, call *ast.CallExpr) int {
	k := calleeKey(info, call)
	n := 0
	for _, c2 := range callsIn(fi.Decl.Body, true) {
		if calleeKey(info, c2) == k {
			n++
		}
		if c2 == call {
			break
		}
	}
	return n
}

// ---------------------------------------------------------------- R02e

// lastChunkDecision: in the casblob readers a success return after the file
// was closed (the reader covers nothing but the chunk decoded so far) is
// reached only where the chunk index equals len(chunkOffsets)-2, i.e. the
// chunk is the last one of the header's table.  The test is recognised by its
// normalised linear form, not by its spelling.
func lastChunkDecision(c *Ctx) {
	R := c.R
	R.Rule("R02e", "E2+E5", "a casblob reader ends after the first decoded chunk (file closed on a success path) only when that chunk is the last entry of the header's chunk table (chunk index == len(chunkOffsets)-2, in any linear spelling)", 2)
	for _, key := range []string{"casblob.GetUncompressedReadCloser", "casblob.GetZstdReadCloser"} {
		fi := c.P.MustFunc(R, "R02e", key)
		if fi == nil {
			continue
		}
		info := fi.Pkg.TypesInfo
		// the chunk index variable: used to index <x>.chunkOffsets
		var idxObj types.Object
		var tableExpr ast.Expr
		ast.Inspect(fi.Decl.Body, func(n ast.Node) bool {
			if ix, ok := n.(*ast.IndexExpr); ok {
				if sel, ok := ast.Unparen(ix.X).(*ast.SelectorExpr); ok && sel.Sel.Name == "chunkOffsets" {
					if o := identObj(info, ix.Index); o != nil && idxObj == nil {
						idxObj, tableExpr = o, sel
					}
				}
			}
			return true
		})
		if idxObj == nil {
			R.Fail("R02e", c.Cfg+key+":chunk-index", c.P.Pos(fi.Decl.Pos()), "the variable indexing chunkOffsets was not found")
			continue
		}
		var b *Base
		n := 0
		var fObj types.Object
		if ps := fi.Decl.Type.Params.List; len(ps) >= 2 {
			for _, f := range ps {
				for _, nm := range f.Names {
					if t := info.TypeOf(nm); t != nil && t.String() == "*os.File" {
						fObj = info.Defs[nm]
					}
				}
			}
		}
		b = NewBase(Hooks{
			Cond: func(x *Exec, cond ast.Expr, truth bool, s St) ([]St, bool) {
				be, ok := ast.Unparen(cond).(*ast.BinaryExpr)
				if !ok || (be.Op != token.EQL && be.Op != token.NEQ) || !isIntType(x.Fn.Info.TypeOf(be.X)) {
					return nil, false
				}
				if (be.Op == token.EQL) != truth {
					return nil, false
				}
				d := b.LinEval(x, be.X, s).Add(b.LinEval(x, be.Y, s), -1)
				tt, ok2 := b.Term(x, tableExpr, s)
				if !ok2 {
					return nil, false
				}
				// d == k*(idx - len(table) + 2)
				idxAtom := ""
				if _, ok := d.T[objID(idxObj)]; ok {
					idxAtom = objID(idxObj)
				}
				lenAtom := "len(" + tt + ")"
				if os.Getenv("VCHECK_DEBUG_R02E") != "" {
					fmt.Println("R02e cond", exprStr(cond), "d=", d.String(), "idxAtom=", idxAtom, "lenAtom=", lenAtom)
				}
				if idxAtom != "" && len(d.T) == 2 && d.T[idxAtom] != 0 && d.T[idxAtom] == -d.T[lenAtom] && d.C == 2*d.T[idxAtom] {
					outs := b.refineNoHook(x, cond, truth, s)
					for i := range outs {
						outs[i] = outs[i].Set("lastchunk", "1")
					}
					return outs, true
				}
				return nil, false
			},
			Call: func(x *Exec, call *ast.CallExpr, lhs []ast.Expr, s St) ([]St, bool) {
				if sel, ok := call.Fun.(*ast.SelectorExpr); ok && sel.Sel.Name == "Close" && fObj != nil && identObj(x.Fn.Info, sel.X) == fObj {
					return []St{s.Set("fclosed", "1")}, true
				}
				if len(lhs) >= 1 {
					if tv := x.Fn.Info.TypeOf(lhs[len(lhs)-1]); tv != nil && tv.String() == "error" {
						return b.ForkErr(x, lhs, len(lhs)-1, s, nil, nil), true
					}
				}
				return nil, false
			},
			Exit: func(x *Exec, ret *ast.ReturnStmt, s St) {
				if ret == nil || len(ret.Results) != 2 || RetNil(x.Fn, s, 1) == "nonnil" || RetNil(x.Fn, s, 0) == "nil" {
					return
				}
				if s.Get("fclosed") != "1" {
					return
				}
				n++
				R.Check(s.Get("lastchunk") == "1", "R02e", fmt.Sprintf("%s%s:return#%d:last-chunk", c.Cfg, key, returnOrdinal(x.Fn, ret)), c.P.Pos(ret.Pos()),
					"the reader that covers only the decoded chunk (file already closed) is returned only for the last chunk of the table",
					"the rest of the file is dropped although the chunk index was not compared with the end of the chunk table: a read can end early with a truncated result", x.Trace()...)
			},
		})
		x := NewExec(c.P.FlowOf(fi), b)
		x.Run(newSt())
		R.Check(n > 0, "R02e", c.Cfg+key+":early-end-returns", c.P.Pos(fi.Decl.Pos()), "the early-end success return of "+key+" was found", "no success return after f.Close() found")
	}
}

// ---------------------------------------------------------------- R04e (legacy => CAS)

// legacyImpliesCAS: the legacy flag decides the ".v1" suffix only in the file
// name tempfile.Create produces; FileLocation ignores it for AC and RAW.  The
// two agree only if legacy can be true for CAS alone, at every creation and
// commit site.
func legacyImpliesCAS(c *Ctx) {
	R := c.R
	casVal := ""
	for path, pkg := range c.P.All {
		if strings.HasSuffix(path, "bazel-remote/v2/cache") {
			if o, ok := pkg.Types.Scope().Lookup("CAS").(*types.Const); ok {
				casVal = o.Val().ExactString()
			}
		}
	}
	if casVal == "" {
		R.Fail("R04e", c.Cfg+"legacy-implies-cas:const", "", "constant cache.CAS not found")
		return
	}
	sites := 0
	for _, key := range []string{kPut, kGet} {
		fi := c.P.MustFunc(R, "R04e", key)
		if fi == nil {
			continue
		}
		var b *Base
		b = NewBase(Hooks{EveryCall: func(x *Exec, call *ast.CallExpr, s St) []St {
			k := calleeKey(x.Fn.Info, call)
			if (k == "tempfile.(*Creator).Create" || k == kCommit) && len(call.Args) >= 2 {
				sites++
				ok := true
				for _, st := range b.Refine(x, call.Args[1], true, s) {
					isCAS := false
					for a, v := range st.m {
						if v == "T" && strings.HasPrefix(a, "p:#"+casVal+"==kind@") {
							isCAS = true
						}
					}
					if !isCAS {
						ok = false
					}
				}
				R.Check(ok, "R04e", fmt.Sprintf("%s%s:%s#%d:legacy-implies-cas", c.Cfg, key, k[strings.LastIndex(k, ".")+1:], callOrdinal(x, call)), c.P.Pos(call.Pos()),
					"the legacy (.v1) flag is true only when kind == cache.CAS (FileLocation ignores it for the other kinds, so the created name and the looked-up name would differ)",
					"legacy can be true for a non-CAS entry: the file is created with a .v1 suffix that no lookup, eviction or clean-up ever uses", x.Trace()...)
			}
			return []St{s}
		}})
		b.H.Call = errFork(b)
		x := NewExec(c.P.FlowOf(fi), b)
		x.Run(newSt())
	}
	R.Check(sites >= 3, "R04e", c.Cfg+"legacy-implies-cas:sites", "", "creation and commit sites were analysed", fmt.Sprintf("only %d found", sites))
}

// ---------------------------------------------------------------- R06d

// workerMissSignal: every iteration of containsWorker ends (req.wg.Done()) with
// the digest cleared, the request's context cancelled, or the miss callback
// invoked (when one is configured).  The fail-fast search of
// GetValidatedActionResult learns of a missing dependency only through it.
func workerMissSignal(c *Ctx) {
	R := c.R
	R.Rule("R06d", "E2", "every backend answer that does not confirm the blob is signalled: each path of containsWorker to req.wg.Done() has cleared the digest, seen the request cancelled, or called req.onProxyMiss (when non-nil)", 2)
	fi := c.P.MustFunc(R, "R06d", "disk.(*diskCache).containsWorker")
	if fi == nil {
		return
	}
	var b *Base
	n := 0
	b = NewBase(Hooks{
		PreAssign: func(x *Exec, as *ast.AssignStmt, s St) St {
			// a new request is taken from the queue: the loop variable of `for req := range queue`
			if len(as.Rhs) == 1 {
				if u, ok := as.Rhs[0].(*ast.UnaryExpr); ok && u.Op == token.RANGE {
					s = s.Set("cleared", "").Set("notified", "").Set("cancelled", "").Set("cbnil", "")
				}
			}
			for _, l := range as.Lhs {
				if st, ok := ast.Unparen(l).(*ast.StarExpr); ok && len(as.Rhs) == 1 && isNilIdent(x.Fn.Info, as.Rhs[0]) {
					if t := x.Fn.Info.TypeOf(st.X); t != nil && strings.HasPrefix(t.String(), "**") && strings.HasSuffix(t.String(), ".Digest") {
						s = s.Set("cleared", "1")
					}
				}
			}
			return s
		},
		PostCond: func(x *Exec, cond ast.Expr, truth bool, outs []St) []St {
			if be, ok := ast.Unparen(cond).(*ast.BinaryExpr); ok && (be.Op == token.NEQ || be.Op == token.EQL) && isNilIdent(x.Fn.Info, be.Y) {
				if sel, ok := ast.Unparen(be.X).(*ast.SelectorExpr); ok && sel.Sel.Name == "onProxyMiss" && (be.Op == token.EQL) == truth {
					for i := range outs {
						outs[i] = outs[i].Set("cbnil", "1")
					}
				}
			}
			return outs
		},
		Stmt: func(x *Exec, n ast.Node, s St) ([]St, bool) {
			if es, ok := n.(*ast.ExprStmt); ok {
				if u, ok := ast.Unparen(es.X).(*ast.UnaryExpr); ok && u.Op == token.ARROW && strings.HasSuffix(exprStr(u.X), ".Done()") {
					return []St{s.Set("cancelled", "1")}, true
				}
			}
			return nil, false
		},
		EveryCall: func(x *Exec, call *ast.CallExpr, s St) []St {
			sel, ok := call.Fun.(*ast.SelectorExpr)
			if !ok {
				return []St{s}
			}
			if sel.Sel.Name == "onProxyMiss" {
				return []St{s.Set("notified", "1")}
			}
			if fullCalleeName(x.Fn.Info, call) == "sync.(WaitGroup).Done" {
				n++
				cbNil := s.Get("cbnil") == "1"
				ok := s.Get("cleared") == "1" || s.Get("notified") == "1" || s.Get("cancelled") == "1" || cbNil
				R.Check(ok, "R06d", fmt.Sprintf("%scontainsWorker:Done#%d:signalled", c.Cfg, callOrdinal(x, call)), c.P.Pos(call.Pos()),
					"the iteration ends with the digest cleared, the request cancelled or the miss callback called",
					"a path ends the check of a blob that was not confirmed without calling req.onProxyMiss: the fail-fast dependency check of an ActionResult will report a hit", x.Trace()...)
			}
			return []St{s}
		},
	})
	b.InlineOwnHelpers()
	x := NewExec(c.P.FlowOf(fi), b)
	x.Run(newSt())
	R.Check(n >= 2, "R06d", c.Cfg+"containsWorker:done-sites", "", "the wg.Done() sites of the worker were analysed", fmt.Sprintf("%d found", n))
}

// ---------------------------------------------------------------- R11c

// validatorCoverage: every *Digest field of ActionResult and of the element
// types of its repeated message fields (execution metadata excepted) is passed
// to maybeNilDigest inside validate.ActionResult, as a statement whose error is
// checked by the next statement, at the top level of the function (singular
// fields) or of the loop over that repeated field.
func validatorCoverage(c *Ctx) {
	R := c.R
	R.Rule("R11c", "E4 type enumeration + E3", "the validator covers the message: every Digest-typed field of ActionResult and of its repeated OutputFile / OutputDirectory elements (enumerated from the generated types) is checked by maybeNilDigest with the error returned, and maybeNilDigest rejects negative sizes and hashes that do not match the key pattern", 5)
	fi := c.P.MustFunc(R, "R11c", "validate.ActionResult")
	if fi == nil {
		return
	}
	info := fi.Pkg.TypesInfo
	if fi.Decl.Type.Params == nil || len(fi.Decl.Type.Params.List) == 0 {
		return
	}
	arObj := info.Defs[fi.Decl.Type.Params.List[0].Names[0]]
	ptr, ok := arObj.Type().(*types.Pointer)
	if !ok {
		return
	}
	st, ok := ptr.Elem().Underlying().(*types.Struct)
	if !ok {
		return
	}
	isDigestPtr := func(t types.Type) bool {
		p, ok := t.(*types.Pointer)
		return ok && strings.HasSuffix(p.Elem().String(), "execution/v2.Digest")
	}
	var want []string
	for i := 0; i < st.NumFields(); i++ {
		f := st.Field(i)
		if !f.Exported() || f.Name() == "ExecutionMetadata" {
			continue
		}
		if isDigestPtr(f.Type()) {
			want = append(want, f.Name())
		}
		if sl, ok := f.Type().(*types.Slice); ok {
			if ep, ok := sl.Elem().(*types.Pointer); ok {
				if es, ok := ep.Elem().Underlying().(*types.Struct); ok {
					for j := 0; j < es.NumFields(); j++ {
						if ef := es.Field(j); ef.Exported() && isDigestPtr(ef.Type()) {
							want = append(want, f.Name()+"."+ef.Name())
						}
					}
				}
			}
		}
	}
	sort.Strings(want)
	// checked(block, base): paths validated by statements of this block
	got := map[string]bool{}
	depth := 0
	var scanBlock func(list []ast.Stmt, prefix string, baseObj types.Object)
	scanBlock = func(list []ast.Stmt, prefix string, baseObj types.Object) {
		for i, stm := range list {
			switch v := stm.(type) {
			case *ast.RangeStmt:
				// for _, f := range ar.<Field>
				if sel, ok := ast.Unparen(v.X).(*ast.SelectorExpr); ok && identObj(info, sel.X) == arObj && v.Value != nil && prefix == "" {
					scanBlock(v.Body.List, sel.Sel.Name+".", identObj(info, v.Value))
				}
			case *ast.AssignStmt, *ast.IfStmt:
				// err := check(x); if err != nil { return err }   or   if err := check(x); err != nil { return err }
				var call *ast.CallExpr
				var errObj types.Object
				var guard *ast.IfStmt
				if as, isAs := v.(*ast.AssignStmt); isAs {
					if len(as.Rhs) != 1 || len(as.Lhs) != 1 {
						continue
					}
					call, _ = ast.Unparen(as.Rhs[0]).(*ast.CallExpr)
					errObj = identObj(info, as.Lhs[0])
					if i+1 < len(list) {
						if is, ok := list[i+1].(*ast.IfStmt); ok && is.Init == nil {
							guard = is
						}
					}
				} else {
					is := v.(*ast.IfStmt)
					if as, ok := is.Init.(*ast.AssignStmt); ok && len(as.Rhs) == 1 && len(as.Lhs) == 1 {
						call, _ = ast.Unparen(as.Rhs[0]).(*ast.CallExpr)
						errObj = identObj(info, as.Lhs[0])
						guard = is
					}
				}
				if call == nil || guard == nil || errObj == nil {
					continue
				}
				// the guard: if err != nil { ...; return <non-nil> }
				checked := false
				if be, ok := ast.Unparen(guard.Cond).(*ast.BinaryExpr); ok && be.Op == token.NEQ && identObj(info, be.X) == errObj && isNilIdent(info, be.Y) && len(guard.Body.List) > 0 {
					if ret, ok := guard.Body.List[len(guard.Body.List)-1].(*ast.ReturnStmt); ok && len(ret.Results) == 1 && !isNilIdent(info, ret.Results[0]) {
						checked = true
					}
				}
				if !checked {
					continue
				}
				switch k := calleeKey(info, call); {
				case k == "validate.maybeNilDigest" && len(call.Args) == 1:
					if sel, ok := ast.Unparen(call.Args[0]).(*ast.SelectorExpr); ok && identObj(info, sel.X) == baseObj {
						got[prefix+sel.Sel.Name] = true
					}
				default:
					// a helper of the package that validates the same message (element): its own
					// top-level checks count for the argument it is given
					if h := c.P.Func(k); h != nil && h.Pkg == fi.Pkg && !ast.IsExported(h.Decl.Name.Name) && h.Decl.Body != nil && depth < 3 {
						for ai, a := range call.Args {
							if identObj(info, a) == baseObj && baseObj != nil {
								if po := paramObj(h, ai); po != nil {
									depth++
									scanBlock(h.Decl.Body.List, prefix, po)
									depth--
								}
							}
						}
					}
				}
			case *ast.ReturnStmt:
				// an early `return nil` at this level ends the coverage of what follows
				if len(v.Results) == 1 && isNilIdent(info, v.Results[0]) && i != len(list)-1 {
					return
				}
			case *ast.BranchStmt:
				return
			}
		}
	}
	scanBlock(fi.Decl.Body.List, "", arObj)
	for _, w := range want {
		R.Check(got[w], "R11c", c.Cfg+"validate.ActionResult:digest:"+w, c.P.Pos(fi.Decl.Pos()), "field "+w+" is checked by maybeNilDigest and the error is returned",
			"digest field "+w+" of the message is never validated: a malformed hash or negative size in it is accepted and stored")
	}
	R.Check(len(want) >= 4, "R11c", c.Cfg+"validate.ActionResult:fields", "", fmt.Sprintf("digest fields enumerated from the types: %v", want), "fewer digest fields than expected")
	// maybeNilDigest itself
	if fd := c.P.MustFunc(R, "R11c", "validate.maybeNilDigest"); fd != nil {
		var b *Base
		nsucc := 0
		b = NewBase(Hooks{Exit: func(x *Exec, ret *ast.ReturnStmt, s St) {
			if ret == nil || RetNil(x.Fn, s, 0) != "nil" {
				return
			}
			dNil := false
			neg, hashOK := false, false
			for a, v := range s.m {
				if po := paramObj(fd, 0); po != nil && a == "n:"+objID(po) && v == "nil" {
					dNil = true
				}
				if strings.HasPrefix(a, "p:") && strings.Contains(a, ".SizeBytes<#0") && v == "F" {
					neg = true
				}
				if strings.HasPrefix(a, "b:hashmatch") && v == "true" {
					hashOK = true
				}
			}
			nsucc++
			R.Check(dNil || (neg && hashOK), "R11c", fmt.Sprintf("%svalidate.maybeNilDigest:return#%d", c.Cfg, returnOrdinal(x.Fn, ret)), c.P.Pos(ret.Pos()),
				"a nil result means: no digest, or size >= 0 and the hash matches the key pattern", "a digest can be accepted without the size / hash pattern test", x.Trace()...)
		}, Cond: func(x *Exec, cond ast.Expr, truth bool, s St) ([]St, bool) {
			e := ast.Unparen(cond)
			neg := false
			if u, ok := e.(*ast.UnaryExpr); ok && u.Op == token.NOT {
				e, neg = ast.Unparen(u.X), true
			}
			if call, ok := e.(*ast.CallExpr); ok && strings.HasSuffix(fullCalleeName(x.Fn.Info, call), "MatchString") {
				if sel, ok := call.Fun.(*ast.SelectorExpr); ok && strings.HasSuffix(exprStr(sel.X), "HashKeyRegex") && len(call.Args) == 1 && strings.HasSuffix(exprStr(call.Args[0]), ".Hash") {
					matched := truth != neg
					return []St{s.Set("b:hashmatch", fmt.Sprint(matched))}, true
				}
			}
			return nil, false
		}})
		x := NewExec(c.P.FlowOf(fd), b)
		x.Run(newSt())
		R.Check(nsucc > 0, "R11c", c.Cfg+"validate.maybeNilDigest:success-returns", "", "success returns found", "none")
	}
}

// ---------------------------------------------------------------- R08e

// tornFileProtection: files are created under the very name the start-up loader
// indexes (R04e), so a kill during a write leaves a half-written file that the
// next start indexes by its length.  Such a file must not be served: every
// success exit of availableOrTryProxy is classified by what it serves
// (compressed CAS, legacy ".v1" CAS, AC/RAW) and must have passed a check that
// the file is complete.  Only the casblob header (chunk table written last,
// then fsync; R08a/R08d) is such a check.
func tornFileProtection(c *Ctx) {
	R := c.R
	R.Rule("R08e", "E2", "no half-written file is served after a restart: files carry their final, loader-accepted name from creation, so whatever availableOrTryProxy serves must have been validated for completeness (the casblob header check); classes: compressed CAS, legacy CAS, AC/RAW", 3)
	fi := c.P.MustFunc(R, "R08e", kAvail)
	if fi == nil {
		return
	}
	cas := constOfKind(c, "CAS")
	itemObj := lhsObjOfCall(fi, "disk.(*SizedLRU).Get", 0)
	verdict := map[string]bool{}
	where := map[string]string{}
	traces := map[string][]string{}
	var b *Base
	b = NewBase(Hooks{
		Call: func(x *Exec, call *ast.CallExpr, lhs []ast.Expr, s St) ([]St, bool) {
			k := calleeKey(x.Fn.Info, call)
			if (k == "casblob.GetZstdReadCloser" || k == "casblob.GetUncompressedReadCloser") && (len(lhs) == 2 || (len(lhs) == 0 && x.RetCall != nil)) {
				return b.ForkErr(x, lhs, 1, s, func(ok St) St { return ok.Set("hdr", "1") }, nil), true
			}
			return errFork(b)(x, call, lhs, s)
		},
		Exit: func(x *Exec, ret *ast.ReturnStmt, s St) {
			if ret == nil || len(ret.Results) != 4 || RetNil(x.Fn, s, 0) == "nil" || RetNil(x.Fn, s, 3) == "nonnil" {
				return
			}
			isCAS, legacy := "", ""
			// roles: the kind is the first parameter; the item is what lru.Get returned
			if v, known := relLookup(s, "#"+cas, "==", paramTerm(x.Fn, 0)); known {
				isCAS = "F"
				if v {
					isCAS = "T"
				}
			}
			if itemObj != nil {
				legacy = s.Get("b:" + objID(itemObj) + ".legacy")
			}
			class := "ac-raw"
			switch {
			case isCAS == "T" && legacy == "true":
				class = "cas-legacy"
			case isCAS == "T" && legacy == "false":
				class = "cas-compressed"
			case isCAS == "T":
				class = "cas-unknown-layout"
				if os.Getenv("VDEBUG") != "" {
					for a, v := range s.m {
						if strings.Contains(a, "legacy") || strings.HasPrefix(a, "arg:") {
							fmt.Fprintln(os.Stderr, "DBG", a, "=", v, "item:", objID(itemObj))
						}
					}
				}
			}
			ok := s.Get("hdr") == "1"
			if prev, seen := verdict[class]; !seen || (prev && !ok) {
				verdict[class] = ok
				where[class] = c.P.Pos(ret.Pos())
				if !ok {
					traces[class] = x.Trace()
				}
			}
		},
	})
	b.InlineOwnHelpers()
	x := NewExec(c.P.FlowOf(fi), b)
	x.Run(newSt())
	classes := []string{}
	for k := range verdict {
		classes = append(classes, k)
	}
	sort.Strings(classes)
	for _, class := range classes {
		R.Check(verdict[class], "R08e", c.Cfg+"availableOrTryProxy:serve:"+class+":complete-file", where[class],
			"a "+class+" entry is served only after a completeness check of its file",
			"a "+class+" file is opened and served as it is: a file that a kill left half-written (it already carries its final name and is indexed by its length at the next start) is served as if it were a complete entry", traces[class]...)
	}
	R.Check(len(classes) >= 3, "R08e", c.Cfg+"availableOrTryProxy:serve:classes", "", fmt.Sprintf("the serving exits were classified: %v", classes), "fewer than three classes of served entries found")
}

// ---------------------------------------------------------------- R07g

// indexedFilesImmutable: a read that is already streaming is unaffected by a
// concurrent overwrite or eviction only because a cache file is never modified
// once it exists: new content goes to a new file (O_EXCL), old files are only
// unlinked.  Who-may-call rule over cache/disk and casblob: no os.OpenFile /
// os.Create / os.WriteFile / os.Rename / os.Truncate / (*os.File).Truncate
// outside the start-up migration code; tempfile.Create opens with O_EXCL.
func indexedFilesImmutable(c *Ctx) {
	R := c.R
	R.Rule("R07g", "E4 who-may-call", "cache files are immutable once created: cache/disk and casblob never open an existing path for writing, rename over it or truncate it (start-up migration excepted); the only file-creating call is tempfile.Create, which opens with O_CREATE|O_EXCL", 20)
	forbidden := map[string]bool{"os.OpenFile": true, "os.Create": true, "os.WriteFile": true, "os.Rename": true, "os.Truncate": true, "os.(File).Truncate": true,
		"os.Link": true, "os.Symlink": true, "ioutil.WriteFile": true, "os.CreateTemp": true}
	frozen := map[string]string{
		"disk.migrateDirectory":                "start-up migration of the legacy layouts (before the cache serves requests)",
		"disk.migrateV1Subdir":                 "start-up migration of the legacy layouts (before the cache serves requests)",
		"disk.(*diskCache).migrateDirectories": "start-up migration of the legacy layouts (before the cache serves requests)",
	}
	n := 0
	for _, pkg := range []string{"/cache/disk", "/cache/disk/casblob"} {
		for _, fi := range c.P.FuncsInPkg(pkg) {
			if strings.HasSuffix(c.P.Fset.Position(fi.Decl.Pos()).Filename, "_test.go") || fi.Decl.Body == nil {
				continue
			}
			if why, ok := frozen[fi.Key]; ok {
				R.OK("R07g", c.Cfg+fi.Key+":frozen-exception", c.P.Pos(fi.Decl.Pos()), "frozen exception: "+why)
				continue
			}
			n++
			bad := ""
			for _, call := range callsIn(fi.Decl.Body, true) {
				if full := fullCalleeName(fi.Pkg.TypesInfo, call); forbidden[full] {
					bad = full + " at " + c.P.Pos(call.Pos())
				}
			}
			R.Check(bad == "", "R07g", c.Cfg+fi.Key+":no-in-place-write", c.P.Pos(fi.Decl.Pos()), fi.Key+" does not write to, rename or truncate an existing path",
				bad+": an existing cache file can be modified while a reader streams it (and a torn state becomes visible under an indexed name)")
		}
	}
	R.Count("functions checked for in-place writes"+c.Cfg, n)
	if fi := c.P.MustFunc(R, "R07g", "tempfile.(*Creator).Create"); fi != nil {
		ok := false
		for _, call := range callsIn(fi.Decl.Body, true) {
			if fullCalleeName(fi.Pkg.TypesInfo, call) == "os.OpenFile" && len(call.Args) == 3 {
				if tv, k := fi.Pkg.TypesInfo.Types[call.Args[1]]; k && tv.Value != nil {
					if v, k := constantInt(tv.Value.ExactString()); k {
						ok = v&int64(osOEXCL) != 0 && v&int64(osOCREATE) != 0
					}
				}
			}
		}
		R.Check(ok, "R07g", c.Cfg+"tempfile.(*Creator).Create:exclusive", c.P.Pos(fi.Decl.Pos()), "new files are opened with O_CREATE|O_EXCL (never an existing file)", "tempfile.Create can open an existing file for writing")
	}
}

const (
	osOCREATE = 0x40 // linux
	osOEXCL   = 0x80 // linux
)

func constantInt(s string) (int64, bool) {
	var v int64
	_, err := fmt.Sscan(s, &v)
	return v, err == nil
}

// ---------------------------------------------------------------- R06f

// failFastVerdictAfterWait: in findMissingCasBlobsInternal a worker that finds
// a blob missing sets the fail-fast flag, cancels the context and only then
// calls wg.Done().  When the final select finds both the context done and the
// wait channel closed it picks either case at random; the "all checks have
// finished" case may therefore return nil (all present) although a miss was
// signalled.  Every nil return reached through the wait channel must re-read
// the flag after the receive.
func failFastVerdictAfterWait(c *Ctx) {
	R := c.R
	R.Rule("R06f", "E2", "the verdict is read after the wait: every nil return of findMissingCasBlobsInternal that is reached through the receive from the wait channel (all backend checks finished) is dominated by a test of the fail-fast flag made after that receive (a select with both cases ready picks at random)", 1)
	fi := c.P.MustFunc(R, "R06f", "disk.(*diskCache).findMissingCasBlobsInternal")
	if fi == nil {
		return
	}
	var b *Base
	n := 0
	b = NewBase(Hooks{
		Stmt: func(x *Exec, nd ast.Node, s St) ([]St, bool) {
			if es, ok := nd.(*ast.ExprStmt); ok {
				if u, ok := ast.Unparen(es.X).(*ast.UnaryExpr); ok && u.Op == token.ARROW {
					if id, ok := ast.Unparen(u.X).(*ast.Ident); ok {
						if t := x.Fn.Info.TypeOf(id); t != nil {
							if ch, ok := t.Underlying().(*types.Chan); ok && ch.Elem().String() == "struct{}" {
								return []St{s.Set("viaWait", "1").Set("ffchecked", "")}, true
							}
						}
					}
				}
			}
			return nil, false
		},
		Cond: func(x *Exec, cond ast.Expr, truth bool, s St) ([]St, bool) {
			if call, ok := ast.Unparen(cond).(*ast.CallExpr); ok {
				if sel, ok := call.Fun.(*ast.SelectorExpr); ok && sel.Sel.Name == "Load" {
					if t := x.Fn.Info.TypeOf(sel.X); t != nil && strings.HasSuffix(t.String(), "atomic.Bool") {
						if truth {
							return []St{s.Set("ffset", "1")}, true
						}
						return []St{s.Set("ffchecked", "1")}, true
					}
				}
			}
			return nil, false
		},
		Exit: func(x *Exec, ret *ast.ReturnStmt, s St) {
			if ret == nil || len(ret.Results) != 1 || RetNil(x.Fn, s, 0) != "nil" || s.Get("viaWait") != "1" {
				return
			}
			n++
			ffOff := false
			for a, v := range s.m {
				if strings.HasPrefix(a, "b:failFast@") && v == "false" {
					ffOff = true
				}
			}
			R.Check(s.Get("ffchecked") == "1" || ffOff, "R06f", fmt.Sprintf("%sfindMissingCasBlobsInternal:return#%d:flag-after-wait", c.Cfg, returnOrdinal(x.Fn, ret)), c.P.Pos(ret.Pos()),
				"the nil (all present) return after the wait re-reads the fail-fast flag",
				"after the receive from the wait channel nil is returned without looking at the fail-fast flag: when a worker signals a miss (flag, cancel, then wg.Done) and the select sees both cases ready, it may pick this one, and an ActionResult with a missing dependency is reported as a hit", x.Trace()...)
		},
	})
	b.H.Call = errFork(b)
	x := NewExec(c.P.FlowOf(fi), b)
	x.Run(newSt())
	R.Check(n > 0, "R06f", c.Cfg+"findMissingCasBlobsInternal:wait-returns", c.P.Pos(fi.Decl.Pos()), "the nil return after the wait channel was found", "no nil return reached through a receive from a chan struct{} found")
}
