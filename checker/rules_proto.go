package main

// C10 FindMissingBlobs, C15 key spaces / mangling / key validation,
// C16 ByteStream.Write protocol, C18 size limits.

import (
	"fmt"
	"go/ast"
	"go/token"
	"go/types"
	"strings"
)

// ---------- C10 ----------

func findMissingRules(c *Ctx) {
	R := c.R
	R.Rule("R10a", "E2", "found => nil-ed only on a sized hit: findMissingLocalCAS clears a digest only under (entry found and size not mismatching) or the empty-digest test; containsWorker clears it only when the backend answered true with a size that does not mismatch the requested one", 4)
	R.Rule("R10b", "E2", "oversize is never asked of the backend: the send on containsQueue is dominated by SizeBytes <= maxProxyBlobSize", 1)
	R.Rule("R10c", "E3", "the whole list is processed: the batching loop starts from the whole request, runs while the remaining list is not empty, takes rest[:b] and keeps rest[b:] with one bound, and is left only by its condition or by an error return", 4)
	R.Rule("R10d", "E2+E5", "order-preserving compaction: filterNonNil is a single forward loop that copies each non-nil element unchanged to a write index that never passes the read index, and returns blobs[:count]", 1)
	R.Rule("R10g", "E3", "the response is the filtered request slice: FindMissingBlobs validates every requested digest, passes req.BlobDigests to the cache and returns its result; FindMissingCasBlobs returns filterNonNil(blobs) after the internal search", 3)

	if fi := c.P.MustFunc(R, "R10a", "disk.(*diskCache).findMissingLocalCAS"); fi != nil {
		var base *Base
		nClears := 0
		info := fi.Pkg.TypesInfo
		slice := paramObj(fi, 0)
		// roles: (item, element) := lru.Get(...); locals that copy item.size
		itemObj := lhsObjOfCall(fi, "disk.(*SizedLRU).Get", 0)
		elemObj := lhsObjOfCall(fi, "disk.(*SizedLRU).Get", 1)
		sizeTerms := map[string]bool{}
		if itemObj != nil {
			sizeTerms[objID(itemObj)+".size"] = true
			ast.Inspect(fi.Decl.Body, func(m ast.Node) bool {
				if as, ok := m.(*ast.AssignStmt); ok && len(as.Lhs) == len(as.Rhs) {
					for i, r := range as.Rhs {
						if sel, ok := ast.Unparen(r).(*ast.SelectorExpr); ok && sel.Sel.Name == "size" && identObj(info, sel.X) == itemObj {
							if o := identObj(info, as.Lhs[i]); o != nil {
								sizeTerms[objID(o)] = true
							}
						}
					}
				}
				return true
			})
		}
		isClear := func(as *ast.AssignStmt) bool {
			if len(as.Lhs) != 1 || len(as.Rhs) != 1 || !isNilIdent(info, as.Rhs[0]) {
				return false
			}
			ix, ok := ast.Unparen(as.Lhs[0]).(*ast.IndexExpr)
			return ok && slice != nil && identObj(info, ix.X) == slice
		}
		base = NewBase(Hooks{PreAssign: func(x *Exec, as *ast.AssignStmt, s St) St {
			if !isClear(as) {
				return s
			}
			n := 0
			ast.Inspect(x.Fn.Body, func(m ast.Node) bool {
				if a2, ok := m.(*ast.AssignStmt); ok && a2.Pos() <= as.Pos() && isClear(a2) {
					n++
				}
				return true
			})
			if n > nClears {
				nClears = n
			}
			empty := hasEmptyShaAtom(s, "T")
			found := false
			if elemObj != nil && s.Get("n:"+objID(elemObj)) == "nonnil" {
				for kk, vv := range s.m {
					if !strings.HasPrefix(kk, "p:disk.isSizeMismatch(") || vv != "F" {
						continue
					}
					args := strings.SplitN(strings.TrimSuffix(kk[len("p:disk.isSizeMismatch("):], ")"), ",", 2)
					if len(args) == 2 && strings.HasSuffix(args[0], ".SizeBytes") && sizeTerms[args[1]] {
						found = true
					}
				}
			}
			R.Check(empty || found, "R10a", fmt.Sprintf("%sfindMissingLocalCAS:clear#%d", c.Cfg, n), c.P.Pos(as.Pos()), "a digest is cleared only for the empty blob or for an indexed entry whose logical size does not mismatch the requested one",
				"a requested digest can be reported present without a sized hit in the index", x.Trace()...)
			return s
		}})
		x := NewExec(c.P.FlowOf(fi), base)
		x.Run(newSt())
		R.Check(nClears >= 2, "R10a", c.Cfg+"findMissingLocalCAS:clears", "", "both clearing assignments were found", fmt.Sprintf("found %d", nClears))
		R.Check(itemObj != nil && elemObj != nil, "R10a", c.Cfg+"findMissingLocalCAS:lookup", c.P.Pos(fi.Decl.Pos()), "the index lookup (item, element := lru.Get) was found", "no lru.Get lookup found")
	}
	if fi := c.P.MustFunc(R, "R10a", "disk.(*diskCache).containsWorker"); fi != nil {
		var base *Base
		n := 0
		// *(<check>.digest) = nil : a store of nil through a **Digest
		isClear := func(x *Exec, as *ast.AssignStmt) bool {
			if len(as.Lhs) != 1 || len(as.Rhs) != 1 || !isNilIdent(x.Fn.Info, as.Rhs[0]) {
				return false
			}
			st, ok := ast.Unparen(as.Lhs[0]).(*ast.StarExpr)
			if !ok {
				return false
			}
			t := x.Fn.Info.TypeOf(st.X)
			return t != nil && strings.HasPrefix(t.String(), "**") && strings.HasSuffix(t.String(), ".Digest")
		}
		base = NewBase(Hooks{
			Assign: func(x *Exec, as *ast.AssignStmt, s St) []St {
				if len(as.Rhs) == 1 && len(as.Lhs) == 2 {
					if call, ok := as.Rhs[0].(*ast.CallExpr); ok && calleeKey(x.Fn.Info, call) == "cache.(Proxy).Contains" {
						if t, ok := base.LTerm(x, as.Lhs[0], s); ok {
							s = s.Set("v:"+t, "contains")
						}
						if t, ok := base.LTerm(x, as.Lhs[1], s); ok {
							s = s.Set("cwsize", t)
						}
					}
				}
				return []St{s}
			},
			PreAssign: func(x *Exec, as *ast.AssignStmt, s St) St {
				if isClear(x, as) {
					n++
					good := false
					for k, v := range s.m {
						if strings.HasPrefix(k, "b:") && v == "true" && s.Get("v:"+k[2:]) == "contains" {
							good = true
						}
					}
					R.Check(good, "R10a", c.Cfg+"containsWorker:clear", c.P.Pos(as.Pos()), "the worker clears a digest only after proxy.Contains returned true", "the worker clears a digest without a positive backend answer", x.Trace()...)
					sized := false
					if sz := s.Get("cwsize"); sz != "" {
						for k, v := range s.m {
							if strings.HasPrefix(k, "p:disk.isSizeMismatch(") && strings.Contains(k, ".SizeBytes,"+sz+")") && v == "F" {
								sized = true
							}
						}
					}
					R.Check(sized, "R10a", c.Cfg+"containsWorker:clear:sized", c.P.Pos(as.Pos()), "the worker clears a digest only when the size the backend reports does not mismatch the requested size (as Contains does)",
						"the size reported by the backend is ignored: a digest (h, n') is reported present on the strength of a backend object (h, n)", x.Trace()...)
				}
				return s
			},
		})
		base.InlineOwnHelpers()
		x := NewExec(c.P.FlowOf(fi), base)
		x.Run(newSt())
		R.Check(n >= 1, "R10a", c.Cfg+"containsWorker:clears", "", "the worker's clearing assignment was found", "not found")
	}
	fi := c.P.MustFunc(R, "R10b", "disk.(*diskCache).findMissingCasBlobsInternal")
	if fi != nil {
		var base *Base
		n := 0
		base = NewBase(Hooks{Stmt: func(x *Exec, nd ast.Node, s St) ([]St, bool) {
			if snd, ok := nd.(*ast.SendStmt); ok && strings.HasSuffix(exprStr(snd.Chan), ".containsQueue") {
				n++
				sz := ""
				if cl, ok := ast.Unparen(snd.Value).(*ast.CompositeLit); ok {
					for _, el := range cl.Elts {
						if kv, ok := el.(*ast.KeyValueExpr); ok && exprStr(kv.Key) == "digest" {
							if u, ok := kv.Value.(*ast.UnaryExpr); ok {
								if t, ok := base.Term(x, u.X, s); ok {
									sz = t + ".SizeBytes"
								}
							}
						}
					}
				}
				R.Check(sz != "" && relIs(s, "$recv.maxProxyBlobSize", "<", sz, false), "R10b", c.Cfg+"findMissingCasBlobsInternal:send-guard", c.P.Pos(snd.Pos()), "a digest is queued for the backend only if its size is <= maxProxyBlobSize", "an oversize digest can be asked of (and reported present by) the backend", x.Trace()...)
			}
			return nil, false
		}})
		x := NewExec(c.P.FlowOf(fi), base)
		x.Run(newSt())
		R.Check(n > 0, "R10b", c.Cfg+"findMissingCasBlobsInternal:send-found", "", "the queueing send was analysed", "not found")
		// R10c: the batching loop `for len(rest) > 0` over a local slice that starts as the
		// parameter; inside it a batch rest[:b] is taken and rest[b:] kept with the same b (or the
		// whole rest is taken and rest set to nil); the loop is left only by its condition or by an
		// error return.
		info := fi.Pkg.TypesInfo
		var loop *ast.ForStmt
		var restObj types.Object
		ast.Inspect(fi.Decl.Body, func(m ast.Node) bool {
			if f, ok := m.(*ast.ForStmt); ok && loop == nil && f.Cond != nil && f.Init == nil && f.Post == nil {
				if be, ok := ast.Unparen(f.Cond).(*ast.BinaryExpr); ok && be.Op == token.GTR {
					if k, isC := constInt(info, be.Y); isC && k == 0 {
						if call, ok := ast.Unparen(be.X).(*ast.CallExpr); ok && exprStr(call.Fun) == "len" && len(call.Args) == 1 {
							if o := identObj(info, call.Args[0]); o != nil {
								loop, restObj = f, o
							}
						}
					}
				}
			}
			return true
		})
		R.Check(loop != nil, "R10c", c.Cfg+"findMissingCasBlobsInternal:loop", c.P.Pos(fi.Decl.Pos()), "the batching loop runs while the remaining list is not empty (len(rest) > 0)", "no loop of the form `for len(x) > 0` found")
		if loop != nil {
			// rest starts as the whole request
			startsWhole := false
			var blobsParam types.Object
			for _, f := range fi.Decl.Type.Params.List {
				for _, nm := range f.Names {
					if _, ok := info.TypeOf(nm).Underlying().(*types.Slice); ok {
						blobsParam = info.Defs[nm]
					}
				}
			}
			ast.Inspect(fi.Decl.Body, func(m ast.Node) bool {
				if as, ok := m.(*ast.AssignStmt); ok && as.Pos() < loop.Pos() && len(as.Lhs) == 1 && len(as.Rhs) == 1 {
					if identObj(info, as.Lhs[0]) == restObj && blobsParam != nil && identObj(info, as.Rhs[0]) == blobsParam {
						startsWhole = true
					}
				}
				return true
			})
			R.Check(startsWhole, "R10c", c.Cfg+"findMissingCasBlobsInternal:starts-whole", c.P.Pos(loop.Pos()), "the remaining list starts as the whole request", "the list the loop consumes is not initialised from the digest slice parameter")
			var takes, keeps []string
			whole := false
			early := ""
			var walk func(n ast.Node, depthLoop bool)
			ast.Inspect(loop.Body, func(m ast.Node) bool {
				switch v := m.(type) {
				case *ast.FuncLit:
					return false
				case *ast.AssignStmt:
					for i, rhs := range v.Rhs {
						if i >= len(v.Lhs) {
							break
						}
						if se, ok := ast.Unparen(rhs).(*ast.SliceExpr); ok && identObj(info, se.X) == restObj {
							if se.Low == nil && se.High != nil {
								takes = append(takes, exprStr(se.High))
							}
							if se.Low != nil && se.High == nil && identObj(info, v.Lhs[i]) == restObj {
								keeps = append(keeps, exprStr(se.Low))
							}
						}
						if identObj(info, v.Lhs[i]) == restObj && isNilIdent(info, rhs) {
							whole = true
						}
					}
				case *ast.ReturnStmt:
					if len(v.Results) == 1 && isNilIdent(info, v.Results[0]) {
						early = "return nil at " + c.P.Pos(v.Pos())
					}
				}
				return true
			})
			_ = walk
			// unlabeled break that leaves the batching loop (not one inside a nested for/switch/select)
			var findBreak func(list []ast.Stmt)
			findBreak = func(list []ast.Stmt) {
				for _, st := range list {
					switch v := st.(type) {
					case *ast.BranchStmt:
						if v.Tok == token.BREAK && v.Label == nil {
							early = "break at " + c.P.Pos(v.Pos())
						}
					case *ast.IfStmt:
						findBreak(v.Body.List)
						if eb, ok := v.Else.(*ast.BlockStmt); ok {
							findBreak(eb.List)
						} else if ei, ok := v.Else.(*ast.IfStmt); ok {
							findBreak([]ast.Stmt{ei})
						}
					case *ast.BlockStmt:
						findBreak(v.List)
					case *ast.LabeledStmt:
						findBreak([]ast.Stmt{v.Stmt})
					}
				}
			}
			findBreak(loop.Body.List)
			// with a constant bound the short tail needs its own branch (rest taken whole, remainder
			// cleared); a computed bound (n := min(len(rest), batch)) covers the tail itself
			boundIsVar := false
			if len(takes) == 1 {
				ast.Inspect(loop.Body, func(m ast.Node) bool {
					if se, ok := m.(*ast.SliceExpr); ok && se.High != nil && exprStr(se.High) == takes[0] {
						if o, isVar := identObj(info, se.High).(*types.Var); isVar && o.Parent() != o.Pkg().Scope() {
							boundIsVar = true
						}
					}
					return true
				})
			}
			R.Check(len(takes) == 1 && len(keeps) == 1 && takes[0] == keeps[0] && (whole || boundIsVar), "R10c", c.Cfg+"findMissingCasBlobsInternal:slices", c.P.Pos(loop.Pos()),
				"the batch taken (rest[:b]) and the remainder kept (rest[b:]) use the same bound, or the whole rest is taken and the remainder cleared (no digest skipped or processed twice)",
				fmt.Sprintf("batch bounds %v, remainder bounds %v, whole-rest branch %v", takes, keeps, whole))
			R.Check(early == "", "R10c", c.Cfg+"findMissingCasBlobsInternal:no-early-exit", c.P.Pos(loop.Pos()), "the batching loop is left only when the list is exhausted or with an error",
				"the loop can be left early ("+early+"): later batches are never examined, their digests are reported missing by FindMissingBlobs and taken as present by the ActionResult dependency check")
		}
	}
	if ff := c.P.MustFunc(R, "R10d", "disk.filterNonNil"); ff != nil {
		ok := false
		if len(ff.Decl.Body.List) == 3 {
			f, isFor := ff.Decl.Body.List[1].(*ast.ForStmt)
			r, isRet := ff.Decl.Body.List[2].(*ast.ReturnStmt)
			if isFor && isRet && len(f.Body.List) == 1 && strings.ReplaceAll(exprStr(f.Cond), " ", "") == "i<len(blobs)" {
				if is, k := f.Body.List[0].(*ast.IfStmt); k && strings.ReplaceAll(exprStr(is.Cond), " ", "") == "blobs[i]!=nil" && len(is.Body.List) == 2 && is.Else == nil {
					a, k1 := is.Body.List[0].(*ast.AssignStmt)
					inc, k2 := is.Body.List[1].(*ast.IncDecStmt)
					if k1 && k2 && strings.ReplaceAll(exprStr(a.Lhs[0])+"="+exprStr(a.Rhs[0]), " ", "") == "blobs[count]=blobs[i]" && exprStr(inc.X) == "count" && inc.Tok == token.INC {
						ok = strings.ReplaceAll(exprStr(r.Results[0]), " ", "") == "blobs[:count]"
					}
				}
			}
		}
		R.Check(ok, "R10d", c.Cfg+"filterNonNil:shape", c.P.Pos(ff.Decl.Pos()), "filterNonNil copies non-nil elements forward in order and returns blobs[:count]", "filterNonNil no longer has the order-preserving compaction shape")
	}
	if fg := c.P.MustFunc(R, "R10g", "server.(*grpcServer).FindMissingBlobs"); fg != nil {
		info := fg.Pkg.TypesInfo
		valid, pass, ret := false, false, false
		// the request is the parameter whose BlobDigests field is ranged over, validated and passed on
		isReqDigests := func(e ast.Expr) bool {
			sel, ok := ast.Unparen(e).(*ast.SelectorExpr)
			if !ok || sel.Sel.Name != "BlobDigests" {
				return false
			}
			o := identObj(info, sel.X)
			return o != nil && o == paramObj(fg, 1)
		}
		var resultObj types.Object
		ast.Inspect(fg.Decl.Body, func(m ast.Node) bool {
			if rs, ok := m.(*ast.RangeStmt); ok && isReqDigests(rs.X) && rs.Value != nil {
				v := identObj(info, rs.Value)
				for _, call := range callsIn(rs.Body, false) {
					if calleeKey(info, call) == "server.(*grpcServer).validateHash" && len(call.Args) >= 2 {
						h, okH := ast.Unparen(call.Args[0]).(*ast.SelectorExpr)
						z, okZ := ast.Unparen(call.Args[1]).(*ast.SelectorExpr)
						if okH && okZ && h.Sel.Name == "Hash" && z.Sel.Name == "SizeBytes" && identObj(info, h.X) == v && identObj(info, z.X) == v {
							valid = true
						}
					}
				}
			}
			if as, ok := m.(*ast.AssignStmt); ok && len(as.Rhs) == 1 {
				if call, ok := as.Rhs[0].(*ast.CallExpr); ok && calleeKey(info, call) == "disk.(Cache).FindMissingCasBlobs" && len(call.Args) == 2 && isReqDigests(call.Args[1]) {
					pass = true
					resultObj = identObj(info, as.Lhs[0])
				}
			}
			return true
		})
		ast.Inspect(fg.Decl.Body, func(m ast.Node) bool {
			if kv, ok := m.(*ast.KeyValueExpr); ok && exprStr(kv.Key) == "MissingBlobDigests" && resultObj != nil && identObj(info, kv.Value) == resultObj {
				ret = true
			}
			return true
		})
		R.Check(valid, "R10g", c.Cfg+"FindMissingBlobs:validates-each", c.P.Pos(fg.Decl.Pos()), "every requested digest passes validateHash before the cache is asked", "the per-digest validateHash loop over req.BlobDigests was not found")
		R.Check(pass && ret, "R10g", c.Cfg+"FindMissingBlobs:passes-and-returns", c.P.Pos(fg.Decl.Pos()), "the request's digests go to FindMissingCasBlobs and its result is the response", fmt.Sprintf("passes=%v returns=%v", pass, ret))
	}
	if fc := c.P.MustFunc(R, "R10g", "disk.(*diskCache).FindMissingCasBlobs"); fc != nil {
		ok := false
		for _, st := range fc.Decl.Body.List {
			if r, k := st.(*ast.ReturnStmt); k && len(r.Results) == 2 && strings.ReplaceAll(exprStr(r.Results[0]), " ", "") == "filterNonNil(blobs)" {
				ok = true
			}
		}
		call0 := false
		for _, call := range callsIn(fc.Decl.Body, false) {
			if calleeKey(fc.Pkg.TypesInfo, call) == "disk.(*diskCache).findMissingCasBlobsInternal" && exprStr(call.Args[1]) == "blobs" && exprStr(call.Args[2]) == "false" {
				call0 = true
			}
		}
		R.Check(ok && call0, "R10g", c.Cfg+"FindMissingCasBlobs:filter", c.P.Pos(fc.Decl.Pos()), "FindMissingCasBlobs searches all blobs (failFast=false) and returns filterNonNil(blobs)", "unexpected shape")
	}
}

// ---------- C15 ----------

// keyspaceRulesV0 is the first version (superseded by rules_keys.go; kept only
// until the file is next rewritten).
// ---------- C16 ----------
func writeProtocolRules(c *Ctx) {
	R := c.R
	R.Rule("R16a", "E2", "acknowledge after the store: every SendAndClose(&resp) in Write is dominated by having received nil or io.EOF (blob already present) from the Put result channel", 2)
	R.Rule("R16b", "E3+E7", "committed_size bookkeeping: the stores to resp.CommittedSize are exactly `= size` (exists, identity), `= -1` (exists, compressed), `= req.WriteOffset` (first message) and `+= n` with n the bytes the pipe accepted for that message", 4)
	R.Rule("R16c", "E2", "protocol violations fail: the Put goroutine is started only for a first message with write_offset 0, a parsable resource name and a size within the limit; a changed resource name, too many bytes or a size mismatch at end of stream send an error (never io.EOF) to the result channel", 4)
	R.Rule("R16d", "E2", "QueryWriteStatus reports complete with the full size exactly when the blob is present", 2)
	fi := c.P.MustFunc(R, "R16a", "server.(*grpcServer).Write")
	if fi == nil {
		return
	}
	info := fi.Pkg.TypesInfo
	// the two result channels by role: the Put result channel is the one the
	// goroutine sends the error returned by Cache.Put to; the receive-loop
	// channel is the other local `chan error`
	putName, recvName := "putResult", "recvResult"
	{
		var putErr types.Object
		ast.Inspect(fi.Decl.Body, func(n ast.Node) bool {
			if as, ok := n.(*ast.AssignStmt); ok && len(as.Rhs) == 1 && len(as.Lhs) == 1 {
				if call, ok := ast.Unparen(as.Rhs[0]).(*ast.CallExpr); ok && calleeKey(info, call) == "disk.(Cache).Put" {
					putErr = identObj(info, as.Lhs[0])
				}
			}
			return true
		})
		var chans []string
		ast.Inspect(fi.Decl.Body, func(n ast.Node) bool {
			switch v := n.(type) {
			case *ast.SendStmt:
				if putErr != nil && identObj(info, v.Value) == putErr {
					if id, ok := v.Chan.(*ast.Ident); ok {
						putName = id.Name
					}
				}
			case *ast.AssignStmt:
				if len(v.Lhs) == 1 && len(v.Rhs) == 1 {
					if t := info.TypeOf(v.Lhs[0]); t != nil && t.String() == "chan error" {
						if id, ok := v.Lhs[0].(*ast.Ident); ok {
							chans = append(chans, id.Name)
						}
					}
				}
			}
			return true
		})
		for _, ch := range chans {
			if ch != putName {
				recvName = ch
			}
		}
	}
	// R16a
	{
		var base *Base
		n := 0
		base = NewBase(Hooks{
			Assign: func(x *Exec, as *ast.AssignStmt, s St) []St {
				if len(as.Rhs) == 1 {
					if u, ok := ast.Unparen(as.Rhs[0]).(*ast.UnaryExpr); ok && u.Op == token.ARROW && exprStr(u.X) == putName {
						if t, ok := base.LTerm(x, as.Lhs[0], s); ok {
							s = s.Set("v:"+t, "putresult")
						}
					}
				}
				return []St{s}
			},
			EveryCall: func(x *Exec, call *ast.CallExpr, s St) []St {
				if sel, ok := call.Fun.(*ast.SelectorExpr); ok && sel.Sel.Name == "SendAndClose" {
					n++
					good := false
					for k, v := range s.m {
						if strings.HasPrefix(k, "v:") && v == "putresult" {
							t := k[2:]
							a, b := "g:io.EOF", t
							if a > b {
								a, b = b, a
							}
							eof, known := relLookup(s, a, "==", b)
							if s.Get("n:"+t) == "nil" || (known && eof) {
								good = true
							}
						}
					}
					R.Check(good, "R16a", fmt.Sprintf("%sWrite:SendAndClose#%d", c.Cfg, callOrdinal(x, call)), c.P.Pos(call.Pos()), "the write is acknowledged only after Put reported nil (stored) or io.EOF (already present)",
						"SendAndClose is reachable without a successful result from the Put goroutine", x.Trace()...)
				}
				return []St{s}
			},
		})
		base.InlineOwnHelpers()
		x := NewExec(c.P.FlowOf(fi), base)
		x.Run(newSt())
		R.Check(n >= 2, "R16a", c.Cfg+"Write:acks", "", "the acknowledgement sites of Write (early exit for a present blob, normal completion) were analysed", fmt.Sprintf("found %d", n))
	}
	// the receive loop literal
	var recv *ast.FuncLit
	ast.Inspect(fi.Decl.Body, func(n ast.Node) bool {
		if g, ok := n.(*ast.GoStmt); ok && recv == nil {
			if l, ok := g.Call.Fun.(*ast.FuncLit); ok {
				recv = l
			}
		}
		return true
	})
	if recv == nil {
		R.Fail("R16b", c.Cfg+"Write:recv-loop", "", "the receive goroutine of Write was not found")
		return
	}
	fl := c.P.FlowOf(fi).Lit(recv)
	var base *Base
	stores := map[string]bool{}
	nGo, nEOF := 0, 0
	identityKnown := func(x *Exec, s St) string {
		if ct, ok := base.Term(x, identNamedOuter(x, "cmp"), s); ok {
			if v, known := relLookup(s, "#0", "==", ct); known {
				if v {
					return "identity"
				}
				return "compressed"
			}
		}
		return ""
	}
	sizeEq := func(x *Exec, s St) string {
		for k, v := range s.m {
			if l, op, r, ok := parseAtom(k); ok && op == "==" && (strings.HasSuffix(l, ".CommittedSize") && strings.HasPrefix(r, "size@") || strings.HasSuffix(r, ".CommittedSize") && strings.HasPrefix(l, "size@")) {
				return v
			}
		}
		return ""
	}
	base = NewBase(Hooks{
		Call: func(x *Exec, call *ast.CallExpr, lhs []ast.Expr, s St) ([]St, bool) {
			k := calleeKey(x.Fn.Info, call)
			if k == "server.(*grpcServer).parseWriteResource" {
				return base.ForkErr(x, lhs, 3, s, func(ok St) St { return ok.Set("parsed", "1") }, nil), true
			}
			if k == "disk.(Cache).Contains" && len(lhs) == 2 {
				st := s
				for _, l := range lhs {
					st = base.AssignValue(x, l, nil, st)
				}
				if t, ok := base.LTerm(x, lhs[0], st); ok {
					st = st.Set("v:"+t, "exists")
				}
				return []St{st}, true
			}
			if strings.HasSuffix(exprStr(call.Fun), "pw.Write") && len(lhs) == 2 {
				return base.ForkErr(x, lhs, 1, s, func(ok St) St {
					if t, k := base.LTerm(x, lhs[0], ok); k {
						return ok.Set("v:"+t, "piped")
					}
					return ok
				}, nil), true
			}
			return errFork(base)(x, call, lhs, s)
		},
		PreAssign: func(x *Exec, as *ast.AssignStmt, s St) St {
			for i, l := range as.Lhs {
				if !strings.HasSuffix(exprStr(l), ".CommittedSize") || i >= len(as.Rhs) {
					continue
				}
				exists := false
				for k, v := range s.m {
					if strings.HasPrefix(k, "b:") && v == "true" && s.Get("v:"+k[2:]) == "exists" {
						exists = true
					}
				}
				r := strings.ReplaceAll(exprStr(as.Rhs[i]), " ", "")
				id := identityKnown(x, s)
				kind, ok := "", false
				switch {
				case as.Tok == token.ASSIGN && r == "size":
					kind, ok = "=size", exists && id == "identity"
				case as.Tok == token.ASSIGN && r == "-1":
					kind, ok = "=-1", exists && id == "compressed"
				case as.Tok == token.ASSIGN && r == "req.WriteOffset":
					kind, ok = "=write_offset", !exists
				case as.Tok == token.ADD_ASSIGN:
					kind = "+=n"
					if inner := unwrapConv(x.Fn.Info, as.Rhs[i]); inner != nil {
						if t, k := base.Term(x, inner, s); k && s.Get("v:"+t) == "piped" {
							ok = true
						}
					}
				default:
					kind = as.Tok.String() + r
				}
				stores[kind] = true
				R.Check(ok, "R16b", c.Cfg+"Write:committed_size:"+kind, c.P.Pos(as.Pos()), "committed_size store `"+kind+"` happens under its protocol condition",
					fmt.Sprintf("committed_size store %s under exists=%v mode=%q", kind, exists, id), x.Trace()...)
			}
			return s
		},
		Stmt: func(x *Exec, nd ast.Node, s St) ([]St, bool) {
			switch nd := nd.(type) {
			case *ast.GoStmt:
				nGo++
				wo := ""
				for k, v := range s.m {
					if l, op, r, ok := parseAtom(k); ok && op == "==" && l == "#0" && strings.HasSuffix(r, ".WriteOffset") {
						wo = v
					}
				}
				within := false
				for k, v := range s.m {
					if l, op, r, ok := parseAtom(k); ok && op == "<" && strings.HasSuffix(l, ".maxCasBlobSizeBytes") && strings.HasPrefix(r, "size@") && v == "F" {
						within = true
					}
				}
				notExists := false
				for k, v := range s.m {
					if strings.HasPrefix(k, "b:") && v == "false" && s.Get("v:"+k[2:]) == "exists" {
						notExists = true
					}
				}
				R.Check(s.Get("parsed") == "1" && wo == "T" && within && notExists, "R16c", c.Cfg+"Write:put-started", c.P.Pos(nd.Pos()),
					"the Put goroutine starts only for a parsed resource name, write_offset == 0, size <= max and a blob that is not present yet",
					fmt.Sprintf("Put can start with parsed=%s write_offset==0:%s within-limit=%v absent=%v", s.Get("parsed"), wo, within, notExists), x.Trace()...)
				return []St{s.Set("started", "1")}, true
			case *ast.SendStmt:
				if exprStr(nd.Chan) == recvName && exprStr(nd.Value) == "io.EOF" {
					ordEOF := 0
					ast.Inspect(recv.Body, func(m ast.Node) bool {
						if sd, ok := m.(*ast.SendStmt); ok && sd.Pos() <= nd.Pos() && exprStr(sd.Chan) == recvName && exprStr(sd.Value) == "io.EOF" {
							ordEOF++
						}
						return true
					})
					if ordEOF > nEOF {
						nEOF = ordEOF
					}
					id := identityKnown(x, s)
					ok := id == "compressed" || (id == "identity" && sizeEq(x, s) == "T")
					R.Check(ok && s.Get("started") == "1", "R16c", fmt.Sprintf("%sWrite:end-of-stream#%d", c.Cfg, ordEOF), c.P.Pos(nd.Pos()),
						"a normal end of stream is reported only after the Put goroutine was started and, for identity uploads, committed_size == size",
						fmt.Sprintf("io.EOF can be reported with mode=%q committed==size:%s started=%s", id, sizeEq(x, s), s.Get("started")), x.Trace()...)
				}
			}
			return nil, false
		},
	})
	x := NewExec(fl, base)
	x.Run(newSt())
	if x.Aborted != "" {
		R.Fail("R16b", c.Cfg+"Write:recv-loop:explore", "", "exploration did not complete: "+x.Aborted)
	}
	R.Check(len(stores) == 4 && stores["=size"] && stores["=-1"] && stores["=write_offset"] && stores["+=n"], "R16b", c.Cfg+"Write:committed_size:stores", c.P.Pos(recv.Pos()), "the stores to committed_size are exactly the four protocol ones", fmt.Sprintf("stores: %v", keysOf(stores)))
	R.Check(nGo >= 1 && nEOF >= 2, "R16c", c.Cfg+"Write:sites", "", "the Put start and both end-of-stream sites were analysed", fmt.Sprintf("go=%d eof=%d", nGo, nEOF))
	// the other violation branches exist and send a non-EOF error
	wantErr := map[string]bool{}
	ast.Inspect(recv.Body, func(n ast.Node) bool {
		is, ok := n.(*ast.IfStmt)
		if !ok {
			return true
		}
		cs := strings.ReplaceAll(exprStr(is.Cond), " ", "")
		sends := false
		for _, st := range is.Body.List {
			if snd, ok := st.(*ast.SendStmt); ok && exprStr(snd.Chan) == recvName && exprStr(snd.Value) != "io.EOF" {
				sends = true
			}
		}
		_, rets := is.Body.List[len(is.Body.List)-1].(*ast.ReturnStmt)
		_ = cs
		if sends && rets {
			// classify the rejecting branch by what its condition compares (fields by name,
			// locals by being locals, either operand order)
			ast.Inspect(is.Cond, func(m ast.Node) bool {
				be, ok := m.(*ast.BinaryExpr)
				if !ok {
					return true
				}
				for _, pr := range [][2]ast.Expr{{be.X, be.Y}, {be.Y, be.X}} {
					a, b := ast.Unparen(pr[0]), ast.Unparen(pr[1])
					_, bIsLocal := b.(*ast.Ident)
					bc, bIsConst := constString(info, b)
					bk, bIsInt := constInt(info, b)
					switch {
					case be.Op == token.NEQ && selName(a) == "ResourceName" && bIsLocal && !bIsConst:
						wantErr["name-changed"] = true
					case selName(a) == "CommittedSize" && bIsLocal && ((be.Op == token.GTR && pr[0] == be.X) || (be.Op == token.LSS && pr[0] == be.Y)):
						wantErr["too-many-bytes"] = true
					case be.Op == token.NEQ && selName(a) == "WriteOffset" && bIsInt && bk == 0:
						wantErr["nonzero-offset"] = true
					case be.Op == token.EQL && bIsConst && bc == "" && selName(a) == "":
						if _, aIsLocal := a.(*ast.Ident); aIsLocal {
							wantErr["empty-name"] = true
						}
					}
				}
				return true
			})
		}
		return true
	})
	for _, k := range []string{"name-changed", "too-many-bytes", "nonzero-offset", "empty-name"} {
		R.Check(wantErr[k], "R16c", c.Cfg+"Write:violation:"+k, c.P.Pos(recv.Pos()), "the protocol violation \""+k+"\" sends an error to the result channel and ends the receive loop", "the rejecting branch for \""+k+"\" was not found")
	}
	_ = info
	// R16d
	if fq := c.P.MustFunc(R, "R16d", "server.(*grpcServer).QueryWriteStatus"); fq != nil {
		var b2 *Base
		n := 0
		b2 = NewBase(Hooks{
			Call: func(x *Exec, call *ast.CallExpr, lhs []ast.Expr, s St) ([]St, bool) {
				if calleeKey(x.Fn.Info, call) == "disk.(Cache).Contains" && len(lhs) == 2 {
					st := s
					for _, l := range lhs {
						st = b2.AssignValue(x, l, nil, st)
					}
					if t, ok := b2.LTerm(x, lhs[0], st); ok {
						st = st.Set("v:"+t, "exists")
					}
					return []St{st}, true
				}
				return errFork(b2)(x, call, lhs, s)
			},
			Exit: func(x *Exec, ret *ast.ReturnStmt, s St) {
				if ret == nil || RetNil(x.Fn, s, 1) == "nonnil" {
					return
				}
				u, ok := ret.Results[0].(*ast.UnaryExpr)
				if !ok {
					return
				}
				cl, ok := u.X.(*ast.CompositeLit)
				if !ok {
					return
				}
				m := map[string]string{}
				for _, el := range cl.Elts {
					if kv, ok := el.(*ast.KeyValueExpr); ok {
						m[exprStr(kv.Key)] = exprStr(kv.Value)
					}
				}
				exists := ""
				for k, v := range s.m {
					if strings.HasPrefix(k, "b:") && s.Get("v:"+k[2:]) == "exists" {
						exists = v
					}
				}
				n++
				ok2 := (m["Complete"] == "true" && m["CommittedSize"] == "size" && exists == "true") || (m["Complete"] == "false" && m["CommittedSize"] == "0" && exists == "false")
				R.Check(ok2, "R16d", fmt.Sprintf("%sQueryWriteStatus:return#%d", c.Cfg, returnOrdinal(x.Fn, ret)), c.P.Pos(ret.Pos()), "complete/size are reported iff the blob is present, 0/incomplete otherwise",
					fmt.Sprintf("returns Complete=%s CommittedSize=%s with exists=%s", m["Complete"], m["CommittedSize"], exists), x.Trace()...)
			},
		})
		x2 := NewExec(c.P.FlowOf(fq), b2)
		x2.Run(newSt())
		R.Check(n >= 2, "R16d", c.Cfg+"QueryWriteStatus:answers", "", "both answers of QueryWriteStatus were analysed", fmt.Sprintf("found %d", n))
	}
}

// identNamedOuter finds a variable declared in the outermost enclosing function.
func identNamedOuter(x *Exec, name string) ast.Expr {
	fn := x.Fn
	for fn.Outer != nil {
		fn = fn.Outer
	}
	var found *ast.Ident
	ast.Inspect(fn.Body, func(n ast.Node) bool {
		if id, ok := n.(*ast.Ident); ok && id.Name == name && found == nil && fn.Info.Defs[id] != nil {
			found = id
		}
		return true
	})
	if found == nil {
		return &ast.Ident{Name: "_"}
	}
	return found
}

// ---------- C18 ----------

func sizeLimitRules(c *Ctx) {
	R := c.R
	R.Rule("R18b", "E5+E3", "no guard is stronger than the limit: every comparison against maxBlobSize / maxCasBlobSizeBytes that leads to a rejection is the strict `size > limit` on the value that is handed to Put as the size", 4)
	R.Rule("R18c", "E3", "one limit: c.MaxBlobSize flows unchanged into disk.WithMaxBlobSize, NewHTTPCache and ListenAndServeGRPC, and GetCapabilities advertises that field", 5)
	R.Rule("R18d", "E2", "proxy limits: every proxy.Get / proxy.Contains / queued backend check in cache/disk is dominated by requested size <= maxProxyBlobSize, and a positive answer that uses a backend-reported size is dominated by foundSize <= maxProxyBlobSize", 3)
	// R18b: all comparisons with the limit fields
	n := 0
	for _, pkgS := range []string{"/server", "/cache/disk"} {
		for _, fi := range c.P.FuncsInPkg(pkgS) {
			if strings.HasSuffix(c.P.Fset.Position(fi.Decl.Pos()).Filename, "_test.go") {
				continue
			}
			ord := 0
			ast.Inspect(fi.Decl.Body, func(m ast.Node) bool {
				be, ok := m.(*ast.BinaryExpr)
				if !ok {
					return true
				}
				l, r := exprStr(be.X), exprStr(be.Y)
				isLim := func(s string) bool {
					return strings.HasSuffix(s, ".maxCasBlobSizeBytes") || strings.HasSuffix(s, ".maxBlobSize")
				}
				if !isLim(l) && !isLim(r) {
					return true
				}
				switch be.Op {
				case token.GTR, token.GEQ, token.LSS, token.LEQ, token.EQL, token.NEQ:
				default:
					return true
				}
				if exprStr(be.Y) == "0" {
					return true // `limit > 0` enable test
				}
				ord++
				n++
				key := fmt.Sprintf("%s%s:limit-compare#%d", c.Cfg, fi.Key, ord)
				ok2 := (be.Op == token.GTR && isLim(r) && !isLim(l)) || (be.Op == token.LSS && isLim(l) && !isLim(r))
				R.Check(ok2, "R18b", key, c.P.Pos(be.Pos()), "the size is rejected only when strictly greater than the limit ("+exprStr(be)+")", "comparison "+exprStr(be)+" is not `size > limit`: items of exactly the limit would be refused (or larger ones admitted)")
				return true
			})
		}
	}
	R.Check(n >= 4, "R18b", c.Cfg+"limit-compares", "", "the four limit comparisons (disk.Put, HTTP PUT, Write, SpliceBlob) were found", fmt.Sprintf("found %d", n))
	// what is compared is what is stored
	for _, fn := range []string{"server.(*httpCache).CacheHandler", "server.(*grpcServer).SpliceBlob", "server.(*grpcServer).Write", kPut} {
		fi := c.P.MustFunc(R, "R18b", fn)
		if fi == nil {
			continue
		}
		info := fi.Pkg.TypesInfo
		isLimE := func(e ast.Expr) bool {
			n := selName(e)
			return n == "maxCasBlobSizeBytes" || n == "maxBlobSize"
		}
		// the comparison and the store may both have moved into a helper split off the handler:
		// every body (handler, helpers) is matched on its own
		ok := false
		what := ""
		nputs := 0
		for _, body := range helperBodies(c, fi) {
			var compared []ast.Expr
			var puts []ast.Expr
			ast.Inspect(body, func(m ast.Node) bool {
				if be, ok := m.(*ast.BinaryExpr); ok {
					switch {
					case be.Op == token.GTR && isLimE(be.Y):
						compared = append(compared, be.X)
					case be.Op == token.LSS && isLimE(be.X):
						compared = append(compared, be.Y)
					}
				}
				if call, ok := m.(*ast.CallExpr); ok && calleeKey(info, call) == "disk.(Cache).Put" && len(call.Args) == 5 {
					puts = append(puts, call.Args[3])
				}
				return true
			})
			nputs += len(puts)
			for _, cmp := range compared {
				what = exprStr(cmp)
				if fn == kPut && body == fi.Decl.Body {
					ok = ok || (identObj(info, cmp) != nil && identObj(info, cmp) == paramObj(fi, 3))
				}
				for _, p := range puts {
					if sameValue(info, cmp, p) {
						ok = true
					}
				}
			}
		}
		puts := make([]ast.Expr, nputs)
		R.Check(ok, "R18b", c.Cfg+fn+":compared-is-stored", c.P.Pos(fi.Decl.Pos()), "the value compared with the limit is the size handed to Put", fmt.Sprintf("compared %q, %d Put call(s) with another size expression", what, len(puts)))
	}
	// R18c
	if fm := c.P.MustFunc(R, "R18c", "main.run"); fm != nil {
		ok := false
		for _, call := range callsIn(fm.Decl.Body, true) {
			if calleeKey(fm.Pkg.TypesInfo, call) == "disk.WithMaxBlobSize" && exprStr(call.Args[0]) == "c.MaxBlobSize" {
				ok = true
			}
		}
		R.Check(ok, "R18c", c.Cfg+"main.run:WithMaxBlobSize", c.P.Pos(fm.Decl.Pos()), "the disk cache gets c.MaxBlobSize", "disk.WithMaxBlobSize(c.MaxBlobSize) not found")
		okP := false
		for _, call := range callsIn(fm.Decl.Body, true) {
			if calleeKey(fm.Pkg.TypesInfo, call) == "disk.WithProxyMaxBlobSize" && exprStr(call.Args[0]) == "c.MaxProxyBlobSize" {
				okP = true
			}
		}
		R.Check(okP, "R18c", c.Cfg+"main.run:WithProxyMaxBlobSize", c.P.Pos(fm.Decl.Pos()), "the disk cache gets c.MaxProxyBlobSize", "disk.WithProxyMaxBlobSize(c.MaxProxyBlobSize) not found")
	}
	argAt := func(fnKey, callee, param string, want string) {
		fi := c.P.MustFunc(R, "R18c", fnKey)
		target := c.P.Func(callee)
		if fi == nil || target == nil {
			return
		}
		idx, i := -1, 0
		for _, fld := range target.Decl.Type.Params.List {
			for _, n := range fld.Names {
				if n.Name == param {
					idx = i
				}
				i++
			}
		}
		ok := false
		for _, call := range callsIn(fi.Decl.Body, true) {
			if calleeKey(fi.Pkg.TypesInfo, call) == callee && idx >= 0 && idx < len(call.Args) && exprStr(call.Args[idx]) == want {
				ok = true
			}
		}
		R.Check(ok, "R18c", c.Cfg+fnKey+"->"+callee+":"+param, c.P.Pos(fi.Decl.Pos()), callee+" receives "+want+" as "+param, "argument for "+param+" is not "+want)
	}
	argAt("main.startHttpServer", "server.NewHTTPCache", "maxCasBlobSizeBytes", "c.MaxBlobSize")
	argAt("main.startGrpcServer", "server.ListenAndServeGRPC", "maxCasBlobSizeBytes", "c.MaxBlobSize")
	argAt("server.ListenAndServeGRPC", "server.ServeGRPC", "maxCasBlobSizeBytes", "maxCasBlobSizeBytes")
	for _, tc := range []struct{ fn, field, val string }{
		{"server.ServeGRPC", "maxCasBlobSizeBytes", "maxCasBlobSizeBytes"},
		{"server.NewHTTPCache", "maxCasBlobSizeBytes", "maxCasBlobSizeBytes"},
		{"server.(*grpcServer).GetCapabilities", "MaxCasBlobSizeBytes", "s.maxCasBlobSizeBytes"},
	} {
		fi := c.P.MustFunc(R, "R18c", tc.fn)
		if fi == nil {
			continue
		}
		ok := false
		ast.Inspect(fi.Decl.Body, func(m ast.Node) bool {
			if kv, k := m.(*ast.KeyValueExpr); k && exprStr(kv.Key) == tc.field && exprStr(kv.Value) == tc.val {
				ok = true
			}
			return true
		})
		R.Check(ok, "R18c", c.Cfg+tc.fn+":field:"+tc.field, c.P.Pos(fi.Decl.Pos()), tc.fn+" sets "+tc.field+" from "+tc.val, tc.field+" is not set from "+tc.val)
	}
	if fo := c.P.MustFunc(R, "R18c", "disk.WithMaxBlobSize"); fo != nil {
		ok := false
		ast.Inspect(fo.Decl.Body, func(m ast.Node) bool {
			if as, k := m.(*ast.AssignStmt); k && strings.HasSuffix(exprStr(as.Lhs[0]), ".maxBlobSize") && exprStr(as.Rhs[0]) == "size" {
				ok = true
			}
			return true
		})
		R.Check(ok, "R18c", c.Cfg+"disk.WithMaxBlobSize:store", c.P.Pos(fo.Decl.Pos()), "WithMaxBlobSize stores its argument in diskCache.maxBlobSize", "not found")
	}
	// R18d: Contains
	if fi := c.P.MustFunc(R, "R18d", "disk.(*diskCache).Contains"); fi != nil {
		var base *Base
		asked, answered := 0, 0
		base = NewBase(Hooks{
			Call: func(x *Exec, call *ast.CallExpr, lhs []ast.Expr, s St) ([]St, bool) {
				if calleeKey(x.Fn.Info, call) == "cache.(Proxy).Contains" {
					asked++
					st, _ := base.Term(x, roleIdent(x, "size", "param:3"), s)
					R.Check(relIs(s, "$recv.maxProxyBlobSize", "<", st, false), "R18d", c.Cfg+"Contains:ask-guard", c.P.Pos(call.Pos()), "the backend is asked only for requested size <= maxProxyBlobSize", "proxy.Contains reachable for an oversize request", x.Trace()...)
					out := s
					for _, l := range lhs {
						out = base.AssignValue(x, l, nil, out)
					}
					return []St{out.Set("asked", "1")}, true
				}
				return nil, false
			},
			Exit: func(x *Exec, ret *ast.ReturnStmt, s St) {
				if ret == nil || s.Get("asked") != "1" || base.Bool(x, ret.Results[0], s) == "false" {
					return
				}
				answered++
				ft, _ := base.Term(x, roleIdent(x, "foundSize", "lhs:cache.(Proxy).Contains:1"), s)
				R.Check(relIs(s, "$recv.maxProxyBlobSize", "<", ft, false), "R18d", fmt.Sprintf("%sContains:return#%d:answer-guard", c.Cfg, returnOrdinal(x.Fn, ret)), c.P.Pos(ret.Pos()), "a positive answer based on the backend is given only for foundSize <= maxProxyBlobSize", "an oversize backend object can be reported present", x.Trace()...)
			},
		})
		x := NewExec(c.P.FlowOf(fi), base)
		x.Run(newSt())
		R.Check(asked > 0 && answered > 0, "R18d", c.Cfg+"Contains:sites", "", "the backend question and answer of Contains were analysed", fmt.Sprintf("asked=%d answered=%d", asked, answered))
	}
}

var _ = types.Universe
