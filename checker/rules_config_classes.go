package main

// R19f — every class of invalid set-up is rejected.
//
// For each class k, validateConfig is explored while tracking only the
// conditions that mention class k's fields (all other conditions are left
// free). The class is rejected iff every *success* exit carries facts that
// contradict the defect: no configuration with that defect can get through,
// whatever the other settings are.

import (
	"go/types"
	"fmt"
	"go/ast"
	"go/token"
	"strings"
)

type cfgClass struct {
	name    string
	mention []string        // substrings that make a condition relevant to the class
	refuted func(s St) bool // the state proves the configuration does NOT have the defect
}

func configInvalidClasses(c *Ctx) {
	R := c.R
	fi := c.P.MustFunc(R, "R19f", "config.validateConfig")
	if fi == nil {
		return
	}
	// locals by role: the port variables are the second results of net.SplitHostPort on the two
	// address fields, the proxy counter is the local that is incremented
	hp, gp, pc := "httpPort", "grpcPort", "proxyCount"
	ast.Inspect(fi.Decl.Body, func(n ast.Node) bool {
		switch v := n.(type) {
		case *ast.AssignStmt:
			if len(v.Rhs) == 1 && len(v.Lhs) == 3 {
				if call, ok := ast.Unparen(v.Rhs[0]).(*ast.CallExpr); ok && fullCalleeName(fi.Pkg.TypesInfo, call) == "net.SplitHostPort" && len(call.Args) == 1 {
					if id, ok := v.Lhs[1].(*ast.Ident); ok && id.Name != "_" {
						switch selName(call.Args[0]) {
						case "HTTPAddress":
							hp = id.Name
						case "GRPCAddress":
							gp = id.Name
						}
					}
				}
			}
		case *ast.IncDecStmt:
			if id, ok := v.X.(*ast.Ident); ok && v.Tok == token.INC {
				pc = id.Name
			}
		case *ast.BinaryExpr:
			// the local compared with 1 (`count > 1`): the proxy counter, also when a helper counts
			if k, isC := constInt(fi.Pkg.TypesInfo, v.Y); isC && k == 1 && v.Op == token.GTR {
				if id, ok := ast.Unparen(v.X).(*ast.Ident); ok {
					if o, isVar := identObj(fi.Pkg.TypesInfo, id).(*types.Var); isVar && o.Parent() != o.Pkg().Scope() {
						pc = id.Name
					}
				}
			}
		}
		return true
	})
	strEmpty := func(s St, f string) string { return fieldAtom(s, `#""`, "==", f) }
	nilOf := func(s St, f string) string {
		for k, v := range s.m {
			if strings.HasPrefix(k, "n:") && strings.HasSuffix(k, "."+f) {
				return v
			}
		}
		return ""
	}
	leq0 := func(s St, f string) string {
		return atomVal(s, func(l, o, r string) bool { return o == "<=" && strings.HasSuffix(l, "."+f) && r == "#0" })
	}
	unix := func(s St, f string) string {
		return atomVal(s, func(l, o, r string) bool { return false })
	}
	_ = unix
	predUnix := func(s St, fld string) string {
		for k, v := range s.m {
			if strings.HasPrefix(k, "p:strings.HasPrefix(") && strings.Contains(k, "."+fld+",") && strings.Contains(k, `"unix://"`) {
				return v
			}
		}
		return ""
	}
	backends := []string{"S3CloudStorage", "HTTPBackend", "GoogleCloudStorage", "AzBlobConfig", "GRPCBackend"}
	classes := []cfgClass{
		{"dir-missing", []string{".Dir"}, func(s St) bool { return strEmpty(s, "Dir") == "F" }},
		{"max_size-not-positive", []string{".MaxSize "}, func(s St) bool { return leq0(s, "MaxSize") == "F" }},
		{"storage_mode-unknown", []string{".StorageMode"}, func(s St) bool {
			return fieldAtom(s, `#"zstd"`, "==", "StorageMode") == "T" || fieldAtom(s, `#"uncompressed"`, "==", "StorageMode") == "T"
		}},
		{"zstd_implementation-unknown", []string{".ZstdImplementation"}, func(s St) bool {
			return fieldAtom(s, `#"go"`, "==", "ZstdImplementation") == "T" || fieldAtom(s, `#"cgo"`, "==", "ZstdImplementation") == "T"
		}},
		{"http-and-grpc-on-one-port", []string{hp, gp, ".HTTPAddress", ".GRPCAddress", "err"}, func(s St) bool {
			eq := atomVal(s, func(l, o, r string) bool {
				return o == "==" && ((strings.HasPrefix(l, gp+"@") && strings.HasPrefix(r, hp+"@")) || (strings.HasPrefix(l, hp+"@") && strings.HasPrefix(r, gp+"@")))
			})
			noHTTPPort := atomVal(s, func(l, o, r string) bool { return o == "==" && l == `#""` && strings.HasPrefix(r, hp+"@") }) == "T"
			noGRPCPort := atomVal(s, func(l, o, r string) bool { return o == "==" && l == `#""` && strings.HasPrefix(r, gp+"@") }) == "T"
			grpcOff := fieldAtom(s, `#""`, "==", "GRPCAddress") == "T" || fieldAtom(s, `#"none"`, "==", "GRPCAddress") == "T"
			return eq == "F" || noHTTPPort || noGRPCPort || grpcOff || predUnix(s, "HTTPAddress") == "T" || predUnix(s, "GRPCAddress") == "T"
		}},
		{"tls-cert-without-key", []string{".TLSCertFile", ".TLSKeyFile"}, func(s St) bool {
			return strEmpty(s, "TLSCertFile") == "T" || strEmpty(s, "TLSKeyFile") == "F"
		}},
		{"tls-key-without-cert", []string{".TLSCertFile", ".TLSKeyFile"}, func(s St) bool {
			return strEmpty(s, "TLSKeyFile") == "T" || strEmpty(s, "TLSCertFile") == "F"
		}},
		{"mtls-without-server-cert", []string{".TLSCaFile", ".TLSCertFile", ".TLSKeyFile"}, func(s St) bool {
			return strEmpty(s, "TLSCaFile") == "T" || (strEmpty(s, "TLSCertFile") == "F" && strEmpty(s, "TLSKeyFile") == "F")
		}},
		{"unauthenticated-reads-without-auth", []string{".AllowUnauthenticatedReads", ".TLSCaFile", ".HtpasswdFile", ".LDAP "}, func(s St) bool {
			allow := ""
			for k, v := range s.m {
				if strings.HasPrefix(k, "b:") && strings.HasSuffix(k, ".AllowUnauthenticatedReads") {
					allow = v
				}
			}
			return allow == "false" || strEmpty(s, "TLSCaFile") == "F" || strEmpty(s, "HtpasswdFile") == "F" || nilOf(s, "LDAP") == "nonnil"
		}},
		{"more-than-one-proxy", []string{pc, ".S3CloudStorage != nil", ".HTTPBackend != nil", ".GoogleCloudStorage != nil", ".AzBlobConfig != nil", ".GRPCBackend != nil"}, func(s St) bool {
			n := 0
			for _, f := range backends {
				switch nilOf(s, f) {
				case "nonnil":
					n++
				case "nil":
				default:
					return false // not even tested
				}
			}
			return n <= 1
		}},
		{"max_blob_size-not-positive", []string{".MaxBlobSize"}, func(s St) bool { return leq0(s, "MaxBlobSize") == "F" }},
		{"max_proxy_blob_size-not-positive", []string{".MaxProxyBlobSize"}, func(s St) bool { return leq0(s, "MaxProxyBlobSize") == "F" }},
		{"http_address-malformed", []string{".HTTPAddress", "err"}, func(s St) bool {
			return s.Get("splitok:HTTPAddress") == "1" || predUnix(s, "HTTPAddress") == "T"
		}},
		{"grpc_address-malformed", []string{".GRPCAddress", "err"}, func(s St) bool {
			off := fieldAtom(s, `#""`, "==", "GRPCAddress") == "T" || fieldAtom(s, `#"none"`, "==", "GRPCAddress") == "T"
			return off || s.Get("splitok:GRPCAddress") == "1" || predUnix(s, "GRPCAddress") == "T"
		}},
		{"http_address-unix-without-path", []string{".HTTPAddress"}, func(s St) bool {
			return predUnix(s, "HTTPAddress") == "F" || s.Get("sockpath:HTTPAddress") == "1"
		}},
		{"grpc_address-unix-without-path", []string{".GRPCAddress"}, func(s St) bool {
			off := fieldAtom(s, `#""`, "==", "GRPCAddress") == "T" || fieldAtom(s, `#"none"`, "==", "GRPCAddress") == "T"
			return off || predUnix(s, "GRPCAddress") == "F" || s.Get("sockpath:GRPCAddress") == "1"
		}},
	}
	total := 0
	for _, cl := range classes {
		cl := cl
		var relevant func(e ast.Expr) bool
		helperRelevant := map[string]bool{}
		relevant = func(e ast.Expr) bool {
			str := exprStr(e) + " "
			for _, m := range cl.mention {
				if strings.Contains(str, m) {
					return true
				}
			}
			// a condition on the result of a helper that tests this class's fields
			hit := false
			ast.Inspect(e, func(n ast.Node) bool {
				call, ok := n.(*ast.CallExpr)
				if !ok || hit {
					return !hit
				}
				h := c.P.Func(calleeKey(fi.Pkg.TypesInfo, call))
				if h == nil || h.Pkg != fi.Pkg || ast.IsExported(h.Decl.Name.Name) || h.Decl.Body == nil {
					return true
				}
				v, seen := helperRelevant[h.Key]
				if !seen {
					helperRelevant[h.Key] = false
					ast.Inspect(h.Decl.Body, func(m ast.Node) bool {
						if be, ok := m.(*ast.BinaryExpr); ok && relevant(be) {
							v = true
						}
						return !v
					})
					helperRelevant[h.Key] = v
				}
				if v {
					hit = true
				}
				return true
			})
			return hit
		}
		var base *Base
		nsucc, bad := 0, 0
		var badTrace []string
		base = NewBase(Hooks{
			Call: func(x *Exec, call *ast.CallExpr, lhs []ast.Expr, s St) ([]St, bool) {
				if fullCalleeName(x.Fn.Info, call) == "net.SplitHostPort" && len(lhs) == 3 && len(call.Args) == 1 {
					fld := exprStr(call.Args[0])
					fld = fld[strings.LastIndex(fld, ".")+1:]
					return base.ForkErr(x, lhs, 2, s, func(ok St) St { return ok.Set("splitok:"+fld, "1") }, nil), true
				}
				return nil, false
			},
			Cond: func(x *Exec, cond ast.Expr, truth bool, s St) ([]St, bool) {
				e := ast.Unparen(cond)
				switch e := e.(type) {
				case *ast.BinaryExpr:
					if e.Op == token.LAND || e.Op == token.LOR {
						return nil, false
					}
					// c.X[len("unix://"):] == ""
					if se, ok := ast.Unparen(e.X).(*ast.SliceExpr); ok && e.Op == token.EQL {
						if v, isC := constString(x.Fn.Info, e.Y); isC && v == "" {
							fld := exprStr(se.X)
							fld = fld[strings.LastIndex(fld, ".")+1:]
							if truth {
								return []St{s}, true
							}
							return []St{s.Set("sockpath:"+fld, "1")}, true
						}
					}
				case *ast.UnaryExpr:
					if e.Op == token.NOT {
						return nil, false
					}
				}
				if !relevant(cond) {
					return []St{s}, true // another class's condition: left free
				}
				return nil, false
			},
			Exit: func(x *Exec, ret *ast.ReturnStmt, s St) {
				if RetNil(x.Fn, s, 0) == "nonnil" {
					return
				}
				nsucc++
				if !cl.refuted(s) {
					bad++
					if badTrace == nil {
						badTrace = append(x.Trace(), "state: "+s.Key())
					}
				}
			},
		})
		// helpers split off validateConfig are interpreted in place when they test this class's fields
		base.AutoInline = func(h *FuncInfo) bool {
			if h.Pkg != fi.Pkg || ast.IsExported(h.Decl.Name.Name) || h.Decl.Body == nil {
				return false
			}
			hit := false
			ast.Inspect(h.Decl.Body, func(n ast.Node) bool {
				if e, ok := n.(ast.Expr); ok && !hit {
					if _, isCall := e.(*ast.CallExpr); !isCall && relevant(e) {
						if be, isBin := e.(*ast.BinaryExpr); isBin || be != nil {
							hit = true
						}
					}
				}
				return !hit
			})
			return hit
		}
		x := NewExec(c.P.FlowOf(fi), base)
		x.Run(newSt())
		total += x.stats.States
		if x.Aborted != "" {
			R.Fail("R19f", c.Cfg+"class:"+cl.name+":explore", "", "exploration did not complete: "+x.Aborted)
			continue
		}
		R.Check(nsucc > 0 && bad == 0, "R19f", c.Cfg+"class:"+cl.name, c.P.Pos(fi.Decl.Pos()),
			"every success exit of validateConfig carries facts that exclude the defect \""+cl.name+"\": no set-up with this defect is accepted, whatever the other settings",
			fmt.Sprintf("%d of %d success exits of validateConfig are compatible with the defect %q: such a set-up is silently accepted", bad, nsucc, cl.name), badTrace...)
	}
	R.Count("abstract states explored (validateConfig, per class)", total)
	if ft := c.P.MustFunc(R, "R19f", "config.(*Config).setTLSConfig"); ft != nil {
		ok := false
		ast.Inspect(ft.Decl.Body, func(n ast.Node) bool {
			if is, k := n.(*ast.IfStmt); k && exprStr(is.Cond) == "!ok" {
				if _, isRet := is.Body.List[len(is.Body.List)-1].(*ast.ReturnStmt); isRet {
					ok = true
				}
			}
			return true
		})
		R.Check(ok, "R19f", c.Cfg+"class:min_tls_version-unknown", c.P.Pos(ft.Decl.Pos()), "an unknown min_tls_version is rejected by the lookup in setTLSConfig", "setTLSConfig does not reject a version missing from its table")
	}
}
