package main

func init() {
	register(&PropCheck{ID: "C04", Explanation: "debug", Trusted: commonTrusted, Run: func(c *Ctx) {
		nameRules(c, map[string]bool{"R04e": true, "R20d": true, "R15a": true, "R09c": true, "R09b": true, "R09e": true, "R09f": true})
		pathProvenance(c)
		backendNames(c)
	}})
}
