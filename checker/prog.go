package main

// E1: loader / resolver. Loads every package of /repo with the real build's
// flags, resolves anchors through go/types and fails loudly when an anchor
// does not resolve.

import (
	"fmt"
	"go/ast"
	"go/token"
	"go/types"
	"os"
	"path/filepath"
	"sort"
	"strings"

	"golang.org/x/tools/go/packages"
	"golang.org/x/tools/go/types/typeutil"
)

const modPath = "github.com/buchgr/bazel-remote/v2"

type Prog struct {
	predAlias map[string]string
	Repo   string
	Fset   *token.FileSet
	Pkgs   []*packages.Package // root packages (module packages)
	ByPath map[string]*packages.Package
	All    map[string]*packages.Package // every loaded package, dependencies included
	CgoOn  bool

	funcs map[*types.Func]*FuncInfo
	byKey map[string]*FuncInfo
	ssa   *ssaProg
}

// FuncInfo is a source function (or method) of the module with its syntax.
type FuncInfo struct {
	Obj  *types.Func
	Decl *ast.FuncDecl
	Pkg  *packages.Package
	Key  string // e.g. "disk.(*diskCache).Put", "server.parseRequestURL"
}

func loadProg(repo string, cgo bool) (*Prog, error) {
	env := append([]string{}, os.Environ()...)
	env = append(env, "GOFLAGS=-mod=mod", "GOWORK=off")
	if cgo {
		env = append(env, "CGO_ENABLED=1")
	} else {
		env = append(env, "CGO_ENABLED=0")
	}
	cfg := &packages.Config{
		Mode: packages.LoadAllSyntax,
		Dir:  repo,
		Env:  env,
		Fset: token.NewFileSet(),
	}
	pkgs, err := packages.Load(cfg, "./...")
	if err != nil {
		return nil, fmt.Errorf("packages.Load: %w", err)
	}
	p := &Prog{Repo: repo, Fset: cfg.Fset, ByPath: map[string]*packages.Package{}, CgoOn: cgo,
		funcs: map[*types.Func]*FuncInfo{}, byKey: map[string]*FuncInfo{}}
	p.All = map[string]*packages.Package{}
	packages.Visit(pkgs, nil, func(pkg *packages.Package) { p.All[pkg.PkgPath] = pkg })
	var errs []string
	for _, pkg := range pkgs {
		for _, e := range pkg.Errors {
			errs = append(errs, e.Error())
		}
		if strings.HasPrefix(pkg.PkgPath, modPath) {
			p.Pkgs = append(p.Pkgs, pkg)
			p.ByPath[pkg.PkgPath] = pkg
		}
	}
	if len(errs) > 0 {
		return nil, fmt.Errorf("type-check errors in /repo (a check never passes on a tree it cannot type-check): %s", strings.Join(errs, "; "))
	}
	if len(p.Pkgs) < 25 {
		return nil, fmt.Errorf("only %d module packages loaded, expected >= 25", len(p.Pkgs))
	}
	sort.Slice(p.Pkgs, func(i, j int) bool { return p.Pkgs[i].PkgPath < p.Pkgs[j].PkgPath })
	for _, pkg := range p.Pkgs {
		for _, f := range pkg.Syntax {
			for _, d := range f.Decls {
				fd, ok := d.(*ast.FuncDecl)
				if !ok || fd.Body == nil {
					continue
				}
				obj, _ := pkg.TypesInfo.Defs[fd.Name].(*types.Func)
				if obj == nil {
					continue
				}
				fi := &FuncInfo{Obj: obj, Decl: fd, Pkg: pkg, Key: funcKey(obj)}
				p.funcs[obj] = fi
				p.byKey[fi.Key] = fi
			}
		}
	}
	return p, nil
}

// funcKey renders a function identity that is stable under line changes:
// "<pkgname>.(*Recv).Name" or "<pkgname>.Name".
func funcKey(f *types.Func) string {
	if f == nil {
		return "?"
	}
	pkg := ""
	if f.Pkg() != nil {
		pkg = f.Pkg().Name()
		if pkg == "main" && f.Pkg().Path() != modPath {
			// helper binaries are also "package main": keep keys unique
			pkg = "main/" + f.Pkg().Path()[strings.LastIndex(f.Pkg().Path(), "/")+1:]
		}
	}
	sig, _ := f.Type().(*types.Signature)
	if sig != nil && sig.Recv() != nil {
		t := sig.Recv().Type()
		ptr := ""
		if pt, ok := t.(*types.Pointer); ok {
			t = pt.Elem()
			ptr = "*"
		}
		name := "?"
		if n, ok := t.(*types.Named); ok {
			name = n.Obj().Name()
		} else if a, ok := t.(*types.Alias); ok {
			name = a.Obj().Name()
		}
		return fmt.Sprintf("%s.(%s%s).%s", pkg, ptr, name, f.Name())
	}
	return pkg + "." + f.Name()
}

// Func returns the source function with the given key, or nil.
func (p *Prog) Func(key string) *FuncInfo { return p.byKey[key] }

// MustFunc resolves an anchor; unresolved anchors are failures, recorded on r.
func (p *Prog) MustFunc(r *Report, rule, key string) *FuncInfo {
	fi := p.byKey[key]
	if fi == nil {
		r.Fail(rule, "anchor:"+key, "", "anchor function "+key+" does not resolve in the current tree (unresolved anchors fail the check)")
	}
	return fi
}

func (p *Prog) FuncOf(obj *types.Func) *FuncInfo {
	if obj == nil {
		return nil
	}
	if fi := p.funcs[obj]; fi != nil {
		return fi
	}
	return p.funcs[obj.Origin()]
}

// AllFuncs returns the module's source functions in a deterministic order.
func (p *Prog) AllFuncs() []*FuncInfo {
	out := make([]*FuncInfo, 0, len(p.byKey))
	for _, fi := range p.byKey {
		out = append(out, fi)
	}
	sort.Slice(out, func(i, j int) bool { return out[i].Key < out[j].Key })
	return out
}

func (p *Prog) FuncsInPkg(pkgSuffix string) []*FuncInfo {
	var out []*FuncInfo
	for _, fi := range p.AllFuncs() {
		if fi.Pkg.PkgPath == modPath+pkgSuffix {
			out = append(out, fi)
		}
	}
	return out
}

func (p *Prog) Pkg(suffix string) *packages.Package { return p.ByPath[modPath+suffix] }

// Pos renders a position relative to the repository root.
func (p *Prog) Pos(pos token.Pos) string {
	if !pos.IsValid() {
		return ""
	}
	ps := p.Fset.Position(pos)
	rel, err := filepath.Rel(p.Repo, ps.Filename)
	if err != nil || strings.HasPrefix(rel, "..") {
		rel = ps.Filename
	}
	return fmt.Sprintf("%s:%d", rel, ps.Line)
}

// Callee resolves the static callee of a call through type information.
func Callee(info *types.Info, call *ast.CallExpr) *types.Func {
	f, _ := typeutil.Callee(info, call).(*types.Func)
	return f
}

// calleeKey is funcKey of the call's static callee, or "" for dynamic calls.
// Interface method calls give "<pkg>.(Iface).Method".
func calleeKey(info *types.Info, call *ast.CallExpr) string {
	f := Callee(info, call)
	if f == nil {
		return ""
	}
	return funcKey(f)
}

// fullCalleeName gives "pkgpath.Name" or "pkgpath.(Recv).Name" with full
// package path: used for standard library and third-party callees.
func fullCalleeName(info *types.Info, call *ast.CallExpr) string {
	f := Callee(info, call)
	if f == nil {
		if id, ok := ast.Unparen(call.Fun).(*ast.Ident); ok {
			if b, ok := info.Uses[id].(*types.Builtin); ok {
				return "builtin." + b.Name()
			}
		}
		return ""
	}
	return fullFuncName(f)
}

func fullFuncName(f *types.Func) string {
	pkg := ""
	if f.Pkg() != nil {
		pkg = f.Pkg().Path()
	}
	sig, _ := f.Type().(*types.Signature)
	if sig != nil && sig.Recv() != nil {
		t := sig.Recv().Type()
		if pt, ok := t.(*types.Pointer); ok {
			t = pt.Elem()
		}
		name := "?"
		switch n := t.(type) {
		case *types.Named:
			name = n.Obj().Name()
			if n.Obj().Pkg() != nil {
				pkg = n.Obj().Pkg().Path()
			}
		case *types.Alias:
			name = n.Obj().Name()
		}
		return fmt.Sprintf("%s.(%s).%s", pkg, name, f.Name())
	}
	return pkg + "." + f.Name()
}

// fieldOf reports the struct field selected by sel ("pkg.Type.field"), or "".
func fieldOf(info *types.Info, sel *ast.SelectorExpr) string {
	s := info.Selections[sel]
	if s == nil || s.Kind() != types.FieldVal {
		return ""
	}
	v, ok := s.Obj().(*types.Var)
	if !ok {
		return ""
	}
	return fieldName(info, sel, v)
}

func fieldName(info *types.Info, sel *ast.SelectorExpr, v *types.Var) string {
	t := info.TypeOf(sel.X)
	for {
		if pt, ok := t.(*types.Pointer); ok {
			t = pt.Elem()
			continue
		}
		break
	}
	tn := "?"
	pkg := ""
	if n, ok := t.(*types.Named); ok {
		tn = n.Obj().Name()
		if n.Obj().Pkg() != nil {
			pkg = n.Obj().Pkg().Name()
		}
	}
	// Promoted fields: report the declaring struct when we can find it cheaply.
	return pkg + "." + tn + "." + v.Name()
}

// exprStr renders an expression compactly and deterministically.
func exprStr(e ast.Expr) string { return types.ExprString(e) }

// enclosing function-literal-free walk: calls f for every node of body that
// is not inside a nested function literal (unless descend is true).
func walkNoLits(n ast.Node, f func(ast.Node) bool) {
	ast.Inspect(n, func(m ast.Node) bool {
		if m == nil {
			return false
		}
		if _, ok := m.(*ast.FuncLit); ok && m != n {
			return false
		}
		return f(m)
	})
}

// callsIn lists call expressions in n (descending into function literals when
// lits is true), in source order.
func callsIn(n ast.Node, lits bool) []*ast.CallExpr {
	var out []*ast.CallExpr
	ast.Inspect(n, func(m ast.Node) bool {
		if m == nil {
			return false
		}
		if _, ok := m.(*ast.FuncLit); ok && !lits && m != n {
			return false
		}
		if c, ok := m.(*ast.CallExpr); ok {
			out = append(out, c)
		}
		return true
	})
	sort.SliceStable(out, func(i, j int) bool { return out[i].Pos() < out[j].Pos() })
	return out
}

// ordinalKey gives "callee#k" keys for the k-th call to each callee in fn.
type ordinals struct{ n map[string]int }

func (o *ordinals) next(name string) string {
	if o.n == nil {
		o.n = map[string]int{}
	}
	o.n[name]++
	return fmt.Sprintf("%s#%d", name, o.n[name])
}

func isNilIdent(info *types.Info, e ast.Expr) bool {
	id, ok := ast.Unparen(e).(*ast.Ident)
	if !ok {
		return false
	}
	_, isNil := info.Uses[id].(*types.Nil)
	return isNil
}

func identObj(info *types.Info, e ast.Expr) types.Object {
	id, ok := ast.Unparen(e).(*ast.Ident)
	if !ok {
		return nil
	}
	if o := info.Uses[id]; o != nil {
		return o
	}
	return info.Defs[id]
}

func constInt(info *types.Info, e ast.Expr) (int64, bool) {
	tv, ok := info.Types[e]
	if !ok || tv.Value == nil {
		return 0, false
	}
	s := tv.Value.ExactString()
	var v int64
	_, err := fmt.Sscanf(s, "%d", &v)
	if err != nil {
		return 0, false
	}
	return v, true
}

func constString(info *types.Info, e ast.Expr) (string, bool) {
	tv, ok := info.Types[e]
	if !ok || tv.Value == nil {
		return "", false
	}
	s := tv.Value.ExactString()
	if len(s) >= 2 && s[0] == '"' {
		var out string
		if _, err := fmt.Sscanf(s, "%q", &out); err == nil {
			return out, true
		}
	}
	return "", false
}
