package main

// Base interpretation shared by the path rules: terms (stable names for
// variables, fields and parameters bound to caller terms), nil-ness, boolean
// flags, aliases ("exists := elem != nil"), relational predicate atoms,
// condition refinement, assignments, result binding and callee inlining.

import (
	"fmt"
	"go/ast"
	"go/token"
	"go/types"
	"regexp"
	"strconv"
	"strings"
)

type Hooks struct {
	// Call is consulted for every call that is a statement or the single
	// right-hand side of an assignment. lhs may be nil. Return handled=false
	// to fall through to inlining / default treatment.
	Call func(x *Exec, call *ast.CallExpr, lhs []ast.Expr, s St) (out []St, handled bool)
	// Cond may decide a condition before the generic refinement does.
	Cond func(x *Exec, cond ast.Expr, truth bool, s St) (out []St, handled bool)
	// PostCond post-processes the states refined by the generic condition rules.
	PostCond func(x *Exec, cond ast.Expr, truth bool, outs []St) []St
	// Stmt is consulted for nodes the base does not model (go, send, expressions...).
	Stmt func(x *Exec, n ast.Node, s St) (out []St, handled bool)
	// Assign sees every assignment after the base handled it.
	Assign func(x *Exec, as *ast.AssignStmt, s St) []St
	// PreAssign sees every assignment before the base invalidates the targets.
	PreAssign func(x *Exec, as *ast.AssignStmt, s St) St
	// Return sees every return before the defers run.
	Return func(x *Exec, ret *ast.ReturnStmt, s St) []St
	// Exit sees every top-level exit after the defers ran.
	Exit func(x *Exec, ret *ast.ReturnStmt, s St)
	// EveryCall sees each call expression (including nested ones in
	// expressions) once, before the statement containing it is applied.
	EveryCall func(x *Exec, call *ast.CallExpr, s St) []St
	// Observe sees every expression that is evaluated, with the state refined
	// by short-circuit operators (the right operand of a && b is observed
	// under a == true).
	Observe func(x *Exec, e ast.Expr, s St)
}

type Base struct {
	H        Hooks
	FollowGo bool // interpret `go func(){...}()` bodies in the state of the go statement
	noAlias  bool
	Inline  map[string]bool // funcKeys of callees to inline
	// AutoInline, when set, is asked about every module function whose call no hook
	// handled: true means "interpret its body in the caller's context" (helpers that a
	// refactoring extracted must not blind a rule).  Recursion and depth are bounded.
	AutoInline func(fi *FuncInfo) bool
	// NoAutoInline switches the default off (unexported helpers of the explored function's own
	// package are interpreted in the caller's context unless a hook handled the call).
	autoDefault bool
	exprs  []ast.Expr
	exprID map[ast.Expr]int
}

func NewBase(h Hooks, inline ...string) *Base {
	b := &Base{H: h, Inline: map[string]bool{}, exprID: map[ast.Expr]int{}}
	for _, k := range inline {
		b.Inline[k] = true
	}
	return b
}

// ---------- terms ----------

func objID(o types.Object) string { return fmt.Sprintf("%s@%d", o.Name(), int(o.Pos())) }

func (f *FlowFn) isRecv(o types.Object) bool {
	for g := f; g != nil; g = g.Outer {
		if g.Recv != nil {
			for _, fld := range g.Recv.List {
				for _, n := range fld.Names {
					if g.Info.Defs[n] == o {
						return true
					}
				}
			}
		}
	}
	return false
}

// Term gives a canonical name for a side-effect-free expression, or false.
func (b *Base) Term(x *Exec, e ast.Expr, s St) (string, bool) {
	info := x.Fn.Info
	e = ast.Unparen(e)
	if tv, ok := info.Types[e]; ok && tv.Value != nil {
		return "#" + tv.Value.ExactString(), true
	}
	switch e := e.(type) {
	case *ast.Ident:
		o := identObj(info, e)
		switch o := o.(type) {
		case *types.Nil:
			return "nil", true
		case *types.Const:
			return "#" + o.Val().ExactString(), true
		case *types.Var:
			if x.Fn.isRecv(o) {
				return "$recv", true
			}
			if o.Parent() == o.Pkg().Scope() {
				return "g:" + o.Pkg().Name() + "." + o.Name(), true
			}
			if x.Fn.untracked[o] {
				return "", false
			}
			if a := s.Get("arg:" + objID(o)); a != "" {
				return a, true
			}
			if a := s.Get("tm:" + objID(o)); a != "" && !b.noAlias {
				return a, true // local pointer alias: kv := e.Value.(*entry)
			}
			return objID(o), true
		}
		return "", false
	case *ast.SelectorExpr:
		if o, ok := info.Uses[e.Sel].(*types.Var); ok && !o.IsField() && o.Parent() == o.Pkg().Scope() {
			return "g:" + o.Pkg().Name() + "." + o.Name(), true
		}
		if sel := info.Selections[e]; sel != nil && sel.Kind() == types.FieldVal {
			bt, ok := b.Term(x, e.X, s)
			if !ok {
				return "", false
			}
			return bt + "." + e.Sel.Name, true
		}
		return "", false
	case *ast.StarExpr:
		bt, ok := b.Term(x, e.X, s)
		if !ok {
			return "", false
		}
		return "*" + bt, true
	case *ast.TypeAssertExpr:
		bt, ok := b.Term(x, e.X, s)
		if !ok || e.Type == nil {
			return "", false
		}
		return bt + ".(" + exprStr(e.Type) + ")", true
	case *ast.BinaryExpr:
		if e.Op == token.ADD || e.Op == token.SUB {
			lt, ok1 := b.Term(x, e.X, s)
			rt, ok2 := b.Term(x, e.Y, s)
			if ok1 && ok2 && strings.HasPrefix(rt, "#") && !strings.HasPrefix(lt, "#") {
				return lt + e.Op.String() + rt, true
			}
		}
		return "", false
	case *ast.IndexExpr:
		bt, ok := b.Term(x, e.X, s)
		it, ok2 := b.Term(x, e.Index, s)
		if ok && ok2 {
			return bt + "[" + it + "]", true
		}
		return "", false
	case *ast.CallExpr:
		if t := s.Get(fmt.Sprintf("ct:%d", int(e.Pos()))); t != "" {
			return t, true // a helper call that was interpreted in place (inlineCallsIn)
		}
		if id, ok := e.Fun.(*ast.Ident); ok && len(e.Args) == 1 {
			if bi, ok := info.Uses[id].(*types.Builtin); ok && bi.Name() == "len" {
				bt, ok := b.Term(x, e.Args[0], s)
				if ok {
					return "len(" + bt + ")", true
				}
			}
			// conversions T(x)
			if tn, ok := info.Uses[id].(*types.TypeName); ok && tn != nil {
				return b.Term(x, e.Args[0], s)
			}
		}
		return "", false
	}
	return "", false
}

// LTerm is Term for an assignment target: local aliases are not followed.
func (b *Base) LTerm(x *Exec, e ast.Expr, s St) (string, bool) {
	old := b.noAlias
	b.noAlias = true
	defer func() { b.noAlias = old }()
	if id, ok := ast.Unparen(e).(*ast.Ident); ok {
		return b.Term(x, id, s)
	}
	// x.f = ...: the base expression may follow aliases, the target itself is the field
	b.noAlias = old
	return b.Term(x, e, s)
}

// VTerm is Term for a value position: an integer local known to hold a
// constant is replaced by that constant.
func (b *Base) VTerm(x *Exec, e ast.Expr, s St) (string, bool) {
	t, ok := b.Term(x, e, s)
	if ok {
		if cv := s.Get("c:" + t); cv != "" {
			return "#" + cv, true
		}
	}
	return t, ok
}

var posRe = regexp.MustCompile(`@(\d+)`)

// mentionsRange reports whether str mentions an object declared in [lo,hi).
func mentionsRange(str string, lo, hi token.Pos) bool {
	for _, m := range posRe.FindAllStringSubmatch(str, -1) {
		n, _ := strconv.Atoi(m[1])
		if token.Pos(n) >= lo && token.Pos(n) < hi {
			return true
		}
	}
	return false
}

func isTrackKey(k string) bool {
	return strings.HasPrefix(k, "n:") || strings.HasPrefix(k, "b:") || strings.HasPrefix(k, "al:") ||
		strings.HasPrefix(k, "p:") || strings.HasPrefix(k, "arg:") || strings.HasPrefix(k, "v:") ||
		strings.HasPrefix(k, "c:") || strings.HasPrefix(k, "sub:") || strings.HasPrefix(k, "validated:") ||
		strings.HasPrefix(k, "tm:") || strings.HasPrefix(k, "lin:") || strings.HasPrefix(k, "tpl:") ||
		strings.HasPrefix(k, "okhash:") || strings.HasPrefix(k, "mangled:") || strings.HasPrefix(k, "rangeof:") ||
		strings.HasPrefix(k, "elemvalid:") || strings.HasPrefix(k, "hexorsame:") || strings.HasPrefix(k, "tag:")
}

// Invalidate forgets everything known about term t (and what depends on it).
func (b *Base) Invalidate(s St, t string) St {
	if t == "" || strings.HasPrefix(t, "#") || t == "nil" {
		return s
	}
	return s.Filter(func(k, v string) bool {
		if !isTrackKey(k) || strings.HasPrefix(k, "arg:") {
			return false
		}
		if strings.HasPrefix(k, "al:") || strings.HasPrefix(k, "tm:") || strings.HasPrefix(k, "lin:") {
			if containsTerm(v, t) {
				return true
			}
		}
		return containsTerm(k, t)
	})
}

func containsTerm(hay, t string) bool {
	i := 0
	for {
		j := strings.Index(hay[i:], t)
		if j < 0 {
			return false
		}
		end := i + j + len(t)
		// boundary after: not a digit or identifier char (so x@12 does not match x@123)
		if end >= len(hay) || !isWordByte(hay[end]) {
			start := i + j
			if start == 0 || !isWordByte(hay[start-1]) || hay[start-1] == ':' {
				return true
			}
		}
		i = i + j + 1
	}
}

func isWordByte(c byte) bool {
	return c == '_' || (c >= '0' && c <= '9') || (c >= 'a' && c <= 'z') || (c >= 'A' && c <= 'Z')
}

// ---------- value lookups ----------

// Nil returns "nil", "nonnil" or "" for expression e.
func (b *Base) Nil(x *Exec, e ast.Expr, s St) string {
	e = ast.Unparen(e)
	info := x.Fn.Info
	if isNilIdent(info, e) {
		return "nil"
	}
	switch e := e.(type) {
	case *ast.UnaryExpr:
		if e.Op == token.AND {
			return "nonnil"
		}
	case *ast.CompositeLit, *ast.FuncLit:
		return "nonnil"
	case *ast.CallExpr:
		if nonNilCall(info, e) {
			return "nonnil"
		}
		return ""
	}
	if t, ok := b.Term(x, e, s); ok {
		if t == "nil" {
			return "nil"
		}
		if v := s.Get("n:" + t); v != "" {
			return v
		}
		if strings.HasPrefix(t, "g:") && globalNonNil(x.Fn.P, info, e) {
			return "nonnil"
		}
	}
	return ""
}

var globalNonNilCache = map[types.Object]bool{}

// globalNonNil: e names a package-level variable that is initialised with a
// non-nil value (errors.New, status.Error, &T{}, ...) and never assigned
// elsewhere in its package (error sentinels).
func globalNonNil(p *Prog, info *types.Info, e ast.Expr) bool {
	var o types.Object
	switch e := ast.Unparen(e).(type) {
	case *ast.Ident:
		o = identObj(info, e)
	case *ast.SelectorExpr:
		o = info.Uses[e.Sel]
	}
	v, ok := o.(*types.Var)
	if !ok || v.Pkg() == nil || v.Parent() != v.Pkg().Scope() {
		return false
	}
	if r, ok := globalNonNilCache[v]; ok {
		return r
	}
	res := false
	pkg := p.All[v.Pkg().Path()]
	if pkg != nil {
		assigned := false
		for _, f := range pkg.Syntax {
			ast.Inspect(f, func(n ast.Node) bool {
				switch n := n.(type) {
				case *ast.ValueSpec:
					for i, name := range n.Names {
						if pkg.TypesInfo.Defs[name] == v && i < len(n.Values) {
							val := ast.Unparen(n.Values[i])
							switch val := val.(type) {
							case *ast.CallExpr:
								res = nonNilCall(pkg.TypesInfo, val)
							case *ast.UnaryExpr:
								res = val.Op == token.AND
							case *ast.CompositeLit, *ast.FuncLit:
								res = true
							}
						}
					}
				case *ast.AssignStmt:
					for _, l := range n.Lhs {
						if identObj(pkg.TypesInfo, l) == v {
							assigned = true
						}
					}
				}
				return true
			})
		}
		if assigned {
			res = false
		}
	}
	globalNonNilCache[v] = res
	return res
}

// nonNilCall: calls whose (single, or error) result is never nil.
func nonNilCall(info *types.Info, c *ast.CallExpr) bool {
	switch fullCalleeName(info, c) {
	case "fmt.Errorf", "errors.New", "builtin.new", "builtin.make",
		modPath + "/cache/disk.internalErr", modPath + "/cache/disk.badReqErr",
		"io.NopCloser", "bytes.NewReader", "bytes.NewBuffer", "strings.NewReader",
		"google.golang.org/grpc/status.Errorf", "google.golang.org/grpc/status.Error":
		return true
	}
	// module functions all of whose returns are syntactically non-nil
	// (derived from their bodies: internalErr, badReqErr, annotate.Err, ...)
	if f := Callee(info, c); f != nil && activeProg != nil {
		if fi := activeProg.FuncOf(f); fi != nil {
			return moduleNonNil(fi)
		}
	}
	return false
}

var activeProg *Prog
var moduleNonNilCache = map[*FuncInfo]int{}

func moduleNonNil(fi *FuncInfo) bool {
	if v, ok := moduleNonNilCache[fi]; ok {
		return v == 1
	}
	moduleNonNilCache[fi] = 0 // recursion guard
	sig := fi.Obj.Type().(*types.Signature)
	if sig.Results().Len() != 1 {
		return false
	}
	info := fi.Pkg.TypesInfo
	ok, n := true, 0
	ast.Inspect(fi.Decl.Body, func(m ast.Node) bool {
		if _, isLit := m.(*ast.FuncLit); isLit {
			return false
		}
		r, isRet := m.(*ast.ReturnStmt)
		if !isRet {
			return true
		}
		n++
		if len(r.Results) != 1 {
			ok = false
			return true
		}
		e := ast.Unparen(r.Results[0])
		switch e := e.(type) {
		case *ast.UnaryExpr:
			if e.Op != token.AND {
				ok = false
			}
		case *ast.CompositeLit:
		case *ast.CallExpr:
			if !nonNilCall(info, e) {
				ok = false
			}
		default:
			ok = false
		}
		return true
	})
	if ok && n > 0 {
		moduleNonNilCache[fi] = 1
		return true
	}
	return false
}

// Bool returns "true", "false" or "" for a boolean expression.
func (b *Base) Bool(x *Exec, e ast.Expr, s St) string {
	e = ast.Unparen(e)
	if tv, ok := x.Fn.Info.Types[e]; ok && tv.Value != nil {
		return tv.Value.ExactString()
	}
	if t, ok := b.Term(x, e, s); ok {
		if t == "#true" {
			return "true"
		}
		if t == "#false" {
			return "false"
		}
		if v := s.Get("b:" + t); v != "" {
			return v
		}
	}
	// evaluate by refinement: if only one truth value is feasible, that is it.
	tr := b.Refine(x, e, true, s)
	fa := b.Refine(x, e, false, s)
	if len(tr) > 0 && len(fa) == 0 {
		return "true"
	}
	if len(fa) > 0 && len(tr) == 0 {
		return "false"
	}
	return ""
}

// ---------- conditions ----------

func (b *Base) Branch(x *Exec, cond ast.Expr, truth bool, s St) []St {
	if cond == nil {
		return []St{s}
	}
	if truth {
		b.observe(x, cond, s)
	}
	var out []St
	for _, st := range b.everyCall(x, cond, s) {
		for _, st2 := range b.inlineCallsIn(x, cond, st) {
			out = append(out, b.Refine(x, cond, truth, st2)...)
		}
	}
	return out
}

// inlineCallsIn interprets the helper calls that are operands of a condition (`count(c) > 1`):
// each is explored in place and its result bound to a temporary term that Term() returns for the
// call expression.  Only helpers the rule wants inlined, with one basic-typed result.
func (b *Base) inlineCallsIn(x *Exec, cond ast.Expr, s St) []St {
	if b.AutoInline == nil || x.Depth >= 3 || x.RetCall != nil {
		return []St{s}
	}
	top := ast.Unparen(cond)
	for {
		u, ok := top.(*ast.UnaryExpr)
		if !ok || u.Op != token.NOT {
			break
		}
		top = ast.Unparen(u.X)
	}
	var calls []*ast.CallExpr
	ast.Inspect(cond, func(n ast.Node) bool {
		if _, ok := n.(*ast.FuncLit); ok {
			return false
		}
		call, ok := n.(*ast.CallExpr)
		if !ok || ast.Expr(call) == top {
			return true
		}
		f := Callee(x.Fn.Info, call)
		if f == nil {
			return true
		}
		fi := x.Fn.P.FuncOf(f)
		if fi == nil || fi.Decl.Body == nil || !b.autoInline(x, fi) {
			return true
		}
		sig, ok := f.Type().(*types.Signature)
		if !ok || sig.Results().Len() != 1 {
			return true
		}
		if _, basic := sig.Results().At(0).Type().Underlying().(*types.Basic); !basic {
			return true
		}
		calls = append(calls, call)
		return false
	})
	states := []St{s}
	for _, call := range calls {
		fi := x.Fn.P.FuncOf(Callee(x.Fn.Info, call))
		callee := x.Fn.P.FlowOf(fi)
		rec := false
		for y := x; y != nil; y = y.Parent {
			if y.Fn == callee {
				rec = true
			}
		}
		if rec {
			continue
		}
		tmp := fmt.Sprintf("$call@%d", int(call.Pos()))
		var next []St
		for _, st := range states {
			x.RetCall = []string{tmp}
			outs := b.InlineCall(x, call, fi, nil, st)
			x.RetCall = nil
			for _, o := range outs {
				next = append(next, o.Set(fmt.Sprintf("ct:%d", int(call.Pos())), tmp))
			}
		}
		states = dedupe(next)
	}
	return states
}

func relLookup(s St, l, op, r string) (bool, bool) {
	get := func(l, op, r string) (bool, bool) {
		v := s.Get("p:" + l + op + r)
		if v == "" {
			return false, false
		}
		return v == "T", true
	}
	if l == r {
		switch op {
		case "<":
			return false, true
		default:
			return true, true
		}
	}
	if v, ok := get(l, op, r); ok {
		return v, true
	}
	eq := func() (bool, bool) {
		if l < r {
			return get(l, "==", r)
		}
		return get(r, "==", l)
	}
	switch op {
	case "<":
		if v, ok := get(r, "<", l); ok && v {
			return false, true
		}
		if v, ok := get(r, "<=", l); ok {
			return !v, true
		}
		if v, ok := eq(); ok && v {
			return false, true
		}
		if v, ok := get(l, "<=", r); ok && !v {
			return false, true
		}
	case "<=":
		if v, ok := get(l, "<", r); ok && v {
			return true, true
		}
		if v, ok := eq(); ok && v {
			return true, true
		}
		if v, ok := get(r, "<", l); ok {
			return !v, true
		}
	case "==":
		if v, ok := eq(); ok {
			return v, true
		}
		if v, ok := get(l, "<", r); ok && v {
			return false, true
		}
		if v, ok := get(r, "<", l); ok && v {
			return false, true
		}
		if v, ok := get(l, "<=", r); ok && !v {
			return false, true
		}
		if v, ok := get(r, "<=", l); ok && !v {
			return false, true
		}
	}
	// constant bounds
	cst := func(x string) (int64, bool) {
		if !strings.HasPrefix(x, "#") {
			return 0, false
		}
		n, err := strconv.ParseInt(x[1:], 10, 64)
		return n, err == nil
	}
	if c, ok := cst(l); ok && !strings.HasPrefix(r, "#") {
		lo, hi, hasLo, hasHi := termBounds(s, r)
		switch op {
		case "<": // c < t
			if hasLo && lo > c {
				return true, true
			}
			if hasHi && hi <= c {
				return false, true
			}
		case "<=":
			if hasLo && lo >= c {
				return true, true
			}
			if hasHi && hi < c {
				return false, true
			}
		case "==":
			if (hasLo && lo > c) || (hasHi && hi < c) {
				return false, true
			}
			if hasLo && hasHi && lo == c && hi == c {
				return true, true
			}
		}
	}
	if c, ok := cst(r); ok && !strings.HasPrefix(l, "#") {
		lo, hi, hasLo, hasHi := termBounds(s, l)
		switch op {
		case "<": // t < c
			if hasHi && hi < c {
				return true, true
			}
			if hasLo && lo >= c {
				return false, true
			}
		case "<=":
			if hasHi && hi <= c {
				return true, true
			}
			if hasLo && lo > c {
				return false, true
			}
		}
	}
	return false, false
}

func (b *Base) setAtom(s St, key string, truth bool) []St {
	want := "F"
	if truth {
		want = "T"
	}
	if v := s.Get(key); v != "" {
		if v == want {
			return []St{s}
		}
		return nil
	}
	ns := s.Set(key, want)
	// integer sanity: contradictory constant bounds on a term make the path infeasible
	if l, _, r, ok := parseAtom(key); ok {
		for _, t := range []string{l, r} {
			if !strings.HasPrefix(t, "#") {
				lo, hi, hasLo, hasHi := termBounds(ns, t)
				if hasLo && hasHi && lo > hi {
					return nil
				}
			}
		}
	}
	return []St{ns}
}

// parseAtom splits "p:L<R" / "p:L<=R" / "p:L==R".
func parseAtom(key string) (l, op, r string, ok bool) {
	if !strings.HasPrefix(key, "p:") {
		return
	}
	body := key[2:]
	depth := 0
	for i := 0; i < len(body); i++ {
		switch body[i] {
		case '(', '[':
			depth++
		case ')', ']':
			depth--
		case '"':
			// skip string constants
			j := i + 1
			for j < len(body) && body[j] != '"' {
				if body[j] == '\\' {
					j++
				}
				j++
			}
			i = j
		case '<':
			if depth == 0 {
				if i+1 < len(body) && body[i+1] == '=' {
					return body[:i], "<=", body[i+2:], true
				}
				return body[:i], "<", body[i+1:], true
			}
		case '=':
			if depth == 0 && i+1 < len(body) && body[i+1] == '=' {
				return body[:i], "==", body[i+2:], true
			}
		}
	}
	return
}

// termBounds derives constant integer bounds of term t from the atoms of s.
func termBounds(s St, t string) (lo, hi int64, hasLo, hasHi bool) {
	updLo := func(v int64) {
		if !hasLo || v > lo {
			lo, hasLo = v, true
		}
	}
	updHi := func(v int64) {
		if !hasHi || v < hi {
			hi, hasHi = v, true
		}
	}
	cst := func(x string) (int64, bool) {
		if !strings.HasPrefix(x, "#") {
			return 0, false
		}
		n, err := strconv.ParseInt(x[1:], 10, 64)
		return n, err == nil
	}
	if strings.HasPrefix(t, "len(") {
		updLo(0)
	}
	var neq []int64
	for k, v := range s.m {
		if !strings.HasPrefix(k, "p:") || !strings.Contains(k, t) {
			continue
		}
		l, op, r, ok := parseAtom(k)
		if !ok {
			continue
		}
		T := v == "T"
		if l == t {
			if c, ok := cst(r); ok {
				switch op {
				case "<":
					if T {
						updHi(c - 1)
					} else {
						updLo(c)
					}
				case "<=":
					if T {
						updHi(c)
					} else {
						updLo(c + 1)
					}
				}
			}
		}
		if r == t {
			if c, ok := cst(l); ok {
				switch op {
				case "<":
					if T {
						updLo(c + 1)
					} else {
						updHi(c)
					}
				case "<=":
					if T {
						updLo(c)
					} else {
						updHi(c - 1)
					}
				case "==":
					if T {
						updLo(c)
						updHi(c)
					} else {
						neq = append(neq, c)
					}
				}
			}
		}
	}
	for changed := true; changed; {
		changed = false
		for _, c := range neq {
			if hasLo && lo == c {
				lo++
				changed = true
			}
			if hasHi && hi == c {
				hi--
				changed = true
			}
		}
	}
	return
}

// Refine returns the refinements of s under cond == truth (nil: infeasible).
func (b *Base) Refine(x *Exec, cond ast.Expr, truth bool, s St) []St {
	if b.H.Cond != nil {
		if out, ok := b.H.Cond(x, cond, truth, s); ok {
			return out
		}
	}
	out := b.refine0(x, cond, truth, s)
	if b.H.PostCond != nil {
		out = b.H.PostCond(x, cond, truth, out)
	}
	return out
}

func (b *Base) refine0(x *Exec, cond ast.Expr, truth bool, s St) []St {
	info := x.Fn.Info
	cond = ast.Unparen(cond)
	if tv, ok := info.Types[cond]; ok && tv.Value != nil {
		if (tv.Value.ExactString() == "true") == truth {
			return []St{s}
		}
		return nil
	}
	switch c := cond.(type) {
	case *ast.UnaryExpr:
		if c.Op == token.NOT {
			return b.Refine(x, c.X, !truth, s)
		}
	case *ast.BinaryExpr:
		switch c.Op {
		case token.LAND, token.LOR:
			and := c.Op == token.LAND
			if and == truth {
				// both operands must have value `truth`
				var out []St
				for _, s1 := range b.Refine(x, c.X, truth, s) {
					out = append(out, b.Refine(x, c.Y, truth, s1)...)
				}
				return dedupe(out)
			}
			// first operand decides, or second does
			out := b.Refine(x, c.X, truth, s)
			for _, s1 := range b.Refine(x, c.X, !truth, s) {
				out = append(out, b.Refine(x, c.Y, truth, s1)...)
			}
			return dedupe(out)
		case token.EQL, token.NEQ:
			eq := (c.Op == token.EQL) == truth
			xn, yn := isNilIdent(info, c.X), isNilIdent(info, c.Y)
			if xn || yn {
				e := c.X
				if xn {
					e = c.Y
				}
				want := "nonnil"
				if eq {
					want = "nil"
				}
				cur := b.Nil(x, e, s)
				if cur != "" {
					if cur == want {
						return []St{s}
					}
					return nil
				}
				if t, ok := b.Term(x, e, s); ok {
					return []St{s.Set("n:"+t, want)}
				}
				return []St{s}
			}
			// boolean equality with a literal
			if bt, ok := info.TypeOf(c.X).Underlying().(*types.Basic); ok && bt.Info()&types.IsBoolean != 0 {
				if v := b.Bool(x, c.Y, s); v != "" {
					return b.Refine(x, c.X, (v == "true") == eq, s)
				}
				if v := b.Bool(x, c.X, s); v != "" {
					return b.Refine(x, c.Y, (v == "true") == eq, s)
				}
				return []St{s}
			}
			lt, ok1 := b.VTerm(x, c.X, s)
			rt, ok2 := b.VTerm(x, c.Y, s)
			if !ok1 || !ok2 {
				return []St{s}
			}
			if strings.HasPrefix(lt, "#") && strings.HasPrefix(rt, "#") {
				if (lt == rt) == eq {
					return []St{s}
				}
				return nil
			}
			// a nil-valued variable never equals a non-nil sentinel
			if isIfaceOrPtr(info.TypeOf(c.X)) {
				ln, rn := s.Get("n:"+lt), s.Get("n:"+rt)
				if strings.HasPrefix(rt, "g:") && rn == "" {
					rn = "nonnil"
				}
				if strings.HasPrefix(lt, "g:") && ln == "" {
					ln = "nonnil"
				}
				if ln != "" && rn != "" && ln != rn {
					if eq {
						return nil
					}
					return []St{s}
				}
			}
			if lt > rt {
				lt, rt = rt, lt
			}
			if v, ok := relLookup(s, lt, "==", rt); ok {
				if v == eq {
					return []St{s}
				}
				return nil
			}
			return b.setAtom(s, "p:"+lt+"=="+rt, eq)
		case token.LSS, token.LEQ, token.GTR, token.GEQ:
			lt, ok1 := b.VTerm(x, c.X, s)
			rt, ok2 := b.VTerm(x, c.Y, s)
			if !ok1 || !ok2 {
				return []St{s}
			}
			op := "<"
			switch c.Op {
			case token.GTR:
				lt, rt = rt, lt
			case token.LEQ:
				op = "<="
			case token.GEQ:
				lt, rt = rt, lt
				op = "<="
			}
			if strings.HasPrefix(lt, "#") && strings.HasPrefix(rt, "#") {
				a, e1 := strconv.ParseInt(lt[1:], 10, 64)
				bb, e2 := strconv.ParseInt(rt[1:], 10, 64)
				if e1 == nil && e2 == nil {
					v := a < bb
					if op == "<=" {
						v = a <= bb
					}
					if v == truth {
						return []St{s}
					}
					return nil
				}
			}
			if v, ok := relLookup(s, lt, op, rt); ok {
				if v == truth {
					return []St{s}
				}
				return nil
			}
			return b.setAtom(s, "p:"+lt+op+rt, truth)
		}
	case *ast.Ident, *ast.SelectorExpr:
		t, ok := b.Term(x, c, s)
		if !ok {
			return []St{s}
		}
		if t == "#true" || t == "#false" {
			if (t == "#true") == truth {
				return []St{s}
			}
			return nil
		}
		if v := s.Get("b:" + t); v != "" {
			if (v == "true") == truth {
				return []St{s}
			}
			return nil
		}
		if al := s.Get("al:" + t); al != "" {
			id, _ := strconv.Atoi(strings.SplitN(al, "|", 2)[0])
			var out []St
			for _, s1 := range b.Refine(x, b.exprs[id], truth, s) {
				out = append(out, s1.Set("b:"+t, fmt.Sprint(truth)))
			}
			return out
		}
		return []St{s.Set("b:"+t, fmt.Sprint(truth))}
	case *ast.CallExpr:
		// pure predicate calls over terms become atoms
		if key := canonPred(x.Fn.P, calleeKey(info, c)); key != "" && isPurePredicate(key) {
			var ts []string
			for _, a := range c.Args {
				t, ok := b.Term(x, a, s)
				if !ok {
					return []St{s}
				}
				ts = append(ts, t)
			}
			return b.setAtom(s, "p:"+key+"("+strings.Join(ts, ",")+")", truth)
		}
		// a boolean helper of the module that the rule wants interpreted in context: its body is
		// explored and the exits whose result contradicts the branch are dropped
		if b.AutoInline != nil && x.Depth < 3 && x.RetCall == nil {
			if f := Callee(info, c); f != nil {
				if fi := x.Fn.P.FuncOf(f); fi != nil && fi.Decl.Body != nil && b.autoInline(x, fi) {
					if sig, ok := f.Type().(*types.Signature); ok && sig.Results().Len() == 1 && isBoolType(sig.Results().At(0).Type()) {
						callee := x.Fn.P.FlowOf(fi)
						for y := x; y != nil; y = y.Parent {
							if y.Fn == callee {
								return []St{s}
							}
						}
						tmp := fmt.Sprintf("$cond@%d", int(c.Pos()))
						x.RetCall = []string{tmp}
						outs := b.InlineCall(x, c, fi, nil, s)
						x.RetCall = nil
						var keep []St
						for _, o := range outs {
							v := o.Get("b:" + tmp)
							if v != "" && (v == "true") != truth {
								continue
							}
							keep = append(keep, o.Set("b:"+tmp, ""))
						}
						return keep
					}
				}
			}
		}
	}
	return []St{s}
}

// canonPred maps the module's two size predicates to canonical keys whatever they are called:
// "disk.sumLargerThan" is the three-argument int64 predicate called in the guard of SizedLRU.Reserve's
// eviction loop; "disk.isSizeMismatch" the two-argument int64 predicate of package disk.
func canonPred(p *Prog, key string) string {
	if key == "" {
		return ""
	}
	if p.predAlias == nil {
		p.predAlias = map[string]string{}
		for _, fi := range p.FuncsInPkg("/cache/disk") {
			if fi.Decl.Recv != nil || fi.Decl.Body == nil {
				continue
			}
			sig, ok := fi.Obj.Type().(*types.Signature)
			if !ok || sig.Results().Len() != 1 || sig.Results().At(0).Type().String() != "bool" {
				continue
			}
			allInt64 := sig.Params().Len() > 0
			for i := 0; i < sig.Params().Len(); i++ {
				if sig.Params().At(i).Type().String() != "int64" {
					allInt64 = false
				}
			}
			if !allInt64 {
				continue
			}
			switch sig.Params().Len() {
			case 3:
				p.predAlias[fi.Key] = "disk.sumLargerThan"
			case 2:
				p.predAlias[fi.Key] = "disk.isSizeMismatch"
			}
		}
	}
	if a := p.predAlias[key]; a != "" {
		return a
	}
	return key
}

func isPurePredicate(key string) bool {
	switch key {
	case "disk.isSizeMismatch", "os.IsNotExist", "os.IsExist", "disk.sumLargerThan", "strings.HasPrefix":
		return true
	}
	return false
}

func isIfaceOrPtr(t types.Type) bool {
	if t == nil {
		return false
	}
	switch t.Underlying().(type) {
	case *types.Interface, *types.Pointer:
		return true
	}
	return false
}

// ---------- nodes ----------

func (b *Base) exprIDOf(e ast.Expr) int {
	if id, ok := b.exprID[e]; ok {
		return id
	}
	b.exprs = append(b.exprs, e)
	b.exprID[e] = len(b.exprs) - 1
	return len(b.exprs) - 1
}

func isBoolType(t types.Type) bool {
	if t == nil {
		return false
	}
	bt, ok := t.Underlying().(*types.Basic)
	return ok && bt.Info()&types.IsBoolean != 0
}

func isNilable(t types.Type) bool {
	if t == nil {
		return false
	}
	switch t.Underlying().(type) {
	case *types.Pointer, *types.Interface, *types.Slice, *types.Map, *types.Chan, *types.Signature:
		return true
	}
	return false
}

// AssignValue records what is known about lhs after "lhs = rhs".
func (b *Base) AssignValue(x *Exec, lhs ast.Expr, rhs ast.Expr, s St) St {
	if id, ok := lhs.(*ast.Ident); ok && id.Name == "_" {
		return s
	}
	t, ok := b.LTerm(x, lhs, s)
	if !ok {
		return s
	}
	// evaluate before invalidating (x = !x style)
	var nv, bv, al string
	typ := x.Fn.Info.TypeOf(lhs)
	if rhs != nil {
		if isNilable(typ) {
			nv = b.Nil(x, rhs, s)
		}
		if isBoolType(typ) {
			bv = b.Bool(x, rhs, s)
			if bv == "" {
				if terms, ok := b.termsOf(x, rhs, s); ok && !containsAny(terms, t) {
					al = fmt.Sprintf("%d|%s", b.exprIDOf(rhs), strings.Join(terms, ","))
				}
			}
		}
	}
	// integer local with a constant value: remember the constant
	cv := ""
	if rhs != nil {
		if bt, ok := typ.Underlying().(*types.Basic); ok && bt.Info()&types.IsInteger != 0 {
			if tv, ok := x.Fn.Info.Types[rhs]; ok && tv.Value != nil {
				cv = tv.Value.ExactString()
			}
		}
	}
	// fields initialised by a composite literal (x := T{F: &U{}} / &T{F: ...})
	fieldFacts := map[string]string{}
	if rhs != nil {
		r := ast.Unparen(rhs)
		if u, ok := r.(*ast.UnaryExpr); ok && u.Op == token.AND {
			r = ast.Unparen(u.X)
		}
		if cl, ok := r.(*ast.CompositeLit); ok {
			if _, isStruct := x.Fn.Info.TypeOf(cl).Underlying().(*types.Struct); isStruct {
				for _, el := range cl.Elts {
					if kv, ok := el.(*ast.KeyValueExpr); ok {
						if id, ok := kv.Key.(*ast.Ident); ok {
							if v := b.Nil(x, kv.Value, s); v != "" {
								fieldFacts[id.Name] = v
							}
						}
					}
				}
			}
		}
	}
	// integer copy "t = u": remember the equality
	eqTerm := ""
	if rhs != nil && cv == "" {
		if bt, ok := typ.Underlying().(*types.Basic); ok && bt.Info()&types.IsInteger != 0 {
			switch r := ast.Unparen(rhs).(type) {
			case *ast.Ident, *ast.SelectorExpr:
				if rt, ok := b.Term(x, r, s); ok && rt != t && !strings.Contains(rt, t) {
					eqTerm = rt
				}
			case *ast.CallExpr:
				// len(x), int64(len(x)), int64(y)
				if rt, ok := b.Term(x, r, s); ok && rt != t && !strings.Contains(rt, t) && (strings.HasPrefix(rt, "len(") || isLocalTerm(rt)) {
					eqTerm = rt
				}
			}
		}
	}
	// what is known about t through a term equal to it survives the overwrite
	if isLocalTerm(t) {
		for k, v := range s.m {
			if v != "T" || !strings.HasPrefix(k, "p:") {
				continue
			}
			body := k[2:]
			i := strings.Index(body, "==")
			if i < 0 {
				continue
			}
			other := ""
			if body[:i] == t {
				other = body[i+2:]
			} else if body[i+2:] == t {
				other = body[:i]
			}
			if other == "" || strings.HasPrefix(other, "#") || mentionsTerm(other, t) {
				continue
			}
			for k2, v2 := range s.m {
				if k2 != k && strings.HasPrefix(k2, "p:") && !strings.Contains(k2, "==") && mentionsTerm(k2, t) {
					if nk := substTerm(k2, t, other); !mentionsTerm(nk, t) {
						s = s.Set(nk, v2)
					}
				}
			}
		}
	}
	s = b.Invalidate(s, t)
	if eqTerm != "" {
		a, z := t, eqTerm
		if z < a {
			a, z = z, a
		}
		if out := b.setAtom(s, "p:"+a+"=="+z, true); len(out) == 1 {
			s = out[0]
		}
		// what is known about the source holds for the copy
		if isLocalTerm(eqTerm) && isLocalTerm(t) {
			for k, v := range s.m {
				if strings.HasPrefix(k, "p:") && !strings.Contains(k, "==") && mentionsTerm(k, eqTerm) && !mentionsTerm(k, t) {
					s = s.Set(substTerm(k, eqTerm, t), v)
				}
			}
		}
	}
	if nv != "" {
		s = s.Set("n:"+t, nv)
	}
	if bv != "" {
		s = s.Set("b:"+t, bv)
	}
	if al != "" {
		s = s.Set("al:"+t, al)
	}
	if cv != "" && !strings.Contains(t, ".") {
		s = s.Set("c:"+t, cv)
	}
	for f, v := range fieldFacts {
		s = s.Set("n:"+t+"."+f, v)
	}
	return s
}

func containsAny(ts []string, t string) bool {
	for _, u := range ts {
		if u == t {
			return true
		}
	}
	return false
}

// termsOf lists the terms a pure boolean expression depends on.
func (b *Base) termsOf(x *Exec, e ast.Expr, s St) ([]string, bool) {
	var out []string
	ok := true
	var walk func(e ast.Expr)
	walk = func(e ast.Expr) {
		e = ast.Unparen(e)
		switch e := e.(type) {
		case *ast.BinaryExpr:
			walk(e.X)
			walk(e.Y)
		case *ast.UnaryExpr:
			if e.Op == token.NOT || e.Op == token.SUB {
				walk(e.X)
			} else {
				ok = false
			}
		case *ast.CallExpr:
			if key := canonPred(x.Fn.P, calleeKey(x.Fn.Info, e)); key != "" && isPurePredicate(key) {
				for _, a := range e.Args {
					walk(a)
				}
				return
			}
			if t, k := b.Term(x, e, s); k {
				out = append(out, t)
			} else {
				ok = false
			}
		default:
			if t, k := b.Term(x, e, s); k {
				out = append(out, t)
			} else {
				ok = false
			}
		}
	}
	walk(e)
	return out, ok
}

func (b *Base) zeroValue(x *Exec, id *ast.Ident, s St) St {
	t, ok := b.LTerm(x, id, s)
	if !ok {
		return s
	}
	s = b.Invalidate(s, t)
	typ := x.Fn.Info.TypeOf(id)
	if isNilable(typ) {
		s = s.Set("n:"+t, "nil")
	}
	if isBoolType(typ) {
		s = s.Set("b:"+t, "false")
	}
	if bt, ok := typ.Underlying().(*types.Basic); ok && bt.Kind() == types.String {
		s = s.Set(`p:#""==`+t, "T")
	}
	return s
}

func (b *Base) everyCall(x *Exec, n ast.Node, s St) []St {
	if b.H.EveryCall == nil {
		return []St{s}
	}
	states := []St{s}
	for _, c := range callsIn(n, false) {
		var next []St
		for _, st := range states {
			next = append(next, b.H.EveryCall(x, c, st)...)
		}
		states = dedupe(next)
	}
	return states
}

// observe walks the expressions evaluated by n.
func (b *Base) observe(x *Exec, n ast.Node, s St) {
	if b.H.Observe == nil || n == nil {
		return
	}
	switch e := n.(type) {
	case *ast.FuncLit:
		return
	case *ast.BinaryExpr:
		if e.Op == token.LAND || e.Op == token.LOR {
			b.observe(x, e.X, s)
			for _, s1 := range b.Refine(x, e.X, e.Op == token.LAND, s) {
				b.observe(x, e.Y, s1)
			}
			return
		}
	case *ast.DeferStmt:
		// arguments are evaluated now, the call later
		for _, a := range e.Call.Args {
			b.observe(x, a, s)
		}
		if _, ok := e.Call.Fun.(*ast.FuncLit); !ok {
			b.observe(x, e.Call.Fun, s)
		}
		return
	case *ast.GoStmt:
		for _, a := range e.Call.Args {
			b.observe(x, a, s)
		}
		return
	case *ast.AssignStmt:
		for _, r := range e.Rhs {
			b.observe(x, r, s)
		}
		for _, l := range e.Lhs {
			// the left side evaluates its operands (x.f = ..., a[i] = ...) but not itself
			switch l := ast.Unparen(l).(type) {
			case *ast.SelectorExpr:
				b.observeLHS(x, l, s)
			case *ast.IndexExpr:
				b.observe(x, l, s)
			case *ast.StarExpr:
				b.observe(x, l.X, s)
			}
		}
		return
	case *ast.KeyValueExpr:
		b.observe(x, e.Value, s)
		return
	}
	if e, ok := n.(ast.Expr); ok {
		b.H.Observe(x, e, s)
	}
	// children
	var kids []ast.Node
	first := true
	ast.Inspect(n, func(m ast.Node) bool {
		if first {
			first = false
			return true
		}
		if m != nil {
			kids = append(kids, m)
		}
		return false
	})
	for _, k := range kids {
		b.observe(x, k, s)
	}
}

func (b *Base) observeLHS(x *Exec, sel *ast.SelectorExpr, s St) {
	// assigning x.f dereferences x
	b.H.Observe(x, sel, s)
	b.observe(x, sel.X, s)
}

func (b *Base) Node(x *Exec, n ast.Node, s St) []St {
	if _, ok := n.(*LoopExit); ok {
		if b.H.Stmt != nil {
			if outs, handled := b.H.Stmt(x, n, s); handled {
				return outs
			}
		}
		return []St{s}
	}
	b.observe(x, n, s)
	var out []St
	for _, st := range b.everyCall(x, n, s) {
		out = append(out, b.node1(x, n, st)...)
	}
	// variables whose address was passed to a call may have been written by it
	if len(x.Fn.addrArgs) > 0 {
		for _, c := range callsIn(n, false) {
			if fullCalleeName(x.Fn.Info, c) == "builtin.append" {
				continue
			}
			for _, a := range c.Args {
				if u, ok := ast.Unparen(a).(*ast.UnaryExpr); ok && x.Fn.addrArgs[u] {
					for i := range out {
						if t, ok := b.Term(x, u.X, out[i]); ok {
							out[i] = b.Invalidate(out[i], t)
						}
					}
				}
			}
		}
	}
	return out
}

func (b *Base) node1(x *Exec, n ast.Node, s St) []St {
	switch n := n.(type) {
	case *ast.AssignStmt:
		if b.H.PreAssign != nil {
			s = b.H.PreAssign(x, n, s)
		}
		var res []St
		if len(n.Rhs) == 1 {
			if call, ok := ast.Unparen(n.Rhs[0]).(*ast.CallExpr); ok {
				if outs, handled := b.call(x, call, n.Lhs, s); handled {
					res = outs
				}
			}
		}
		if res == nil {
			st := s
			if (n.Tok == token.ASSIGN || n.Tok == token.DEFINE) && len(n.Lhs) == len(n.Rhs) {
				for i := range n.Lhs {
					st = b.AssignValue(x, n.Lhs[i], n.Rhs[i], st)
				}
			} else {
				for _, l := range n.Lhs {
					st = b.AssignValue(x, l, nil, st)
				}
			}
			res = []St{st}
		}
		if b.H.Assign != nil {
			var out []St
			for _, st := range res {
				out = append(out, b.H.Assign(x, n, st)...)
			}
			res = out
		}
		return res
	case *ast.ValueSpec:
		st := s
		for i, name := range n.Names {
			if len(n.Values) == len(n.Names) {
				st = b.AssignValue(x, name, n.Values[i], st)
			} else if len(n.Values) == 0 {
				st = b.zeroValue(x, name, st)
			} else {
				st = b.AssignValue(x, name, nil, st)
			}
		}
		if len(n.Values) == 1 && len(n.Names) >= 1 {
			if call, ok := ast.Unparen(n.Values[0]).(*ast.CallExpr); ok {
				lhs := make([]ast.Expr, len(n.Names))
				for i := range n.Names {
					lhs[i] = n.Names[i]
				}
				if outs, handled := b.call(x, call, lhs, s); handled {
					return outs
				}
			}
		}
		if b.H.Assign != nil && len(n.Values) == len(n.Names) && len(n.Names) > 0 {
			as := &ast.AssignStmt{Tok: token.DEFINE, TokPos: n.Pos()}
			for i := range n.Names {
				as.Lhs = append(as.Lhs, n.Names[i])
				as.Rhs = append(as.Rhs, n.Values[i])
			}
			return b.H.Assign(x, as, st)
		}
		return []St{st}
	case *ast.IncDecStmt:
		// small counters (proxyCount++) stay known constants
		if t, ok := b.LTerm(x, n.X, s); ok {
			if cv := s.Get("c:" + t); cv != "" {
				if v, err := strconv.ParseInt(cv, 10, 64); err == nil && v > -64 && v < 64 {
					if n.Tok == token.INC {
						v++
					} else {
						v--
					}
					st := b.AssignValue(x, n.X, nil, s)
					return []St{st.Set("c:"+t, strconv.FormatInt(v, 10))}
				}
			}
		}
		return []St{b.AssignValue(x, n.X, nil, s)}
	case *ast.ExprStmt:
		if call, ok := ast.Unparen(n.X).(*ast.CallExpr); ok {
			if outs, handled := b.call(x, call, nil, s); handled {
				return outs
			}
			return []St{s}
		}
	}
	if b.H.Stmt != nil {
		if outs, handled := b.H.Stmt(x, n, s); handled {
			return outs
		}
	}
	if gs, ok := n.(*ast.GoStmt); ok && b.FollowGo {
		// interpret the goroutine's body with the facts known where it is
		// started (its effects on the state are not kept: it runs concurrently)
		if lit, ok := gs.Call.Fun.(*ast.FuncLit); ok && x.Depth < 4 {
			y := x.sub(x.Fn.Lit(lit))
			y.Run(s.Set("defers", ""))
		}
	}
	return []St{s}
}

func (b *Base) call(x *Exec, call *ast.CallExpr, lhs []ast.Expr, s St) ([]St, bool) {
	if b.H.Call != nil {
		if outs, handled := b.H.Call(x, call, lhs, s); handled {
			return outs, true
		}
	}
	if f := Callee(x.Fn.Info, call); f != nil && b.Inline[funcKey(f)] {
		if fi := x.Fn.P.FuncOf(f); fi != nil {
			return b.InlineCall(x, call, fi, lhs, s), true
		}
	}
	if b.AutoInline != nil && x.Depth < 3 {
		if f := Callee(x.Fn.Info, call); f != nil {
			if fi := x.Fn.P.FuncOf(f); fi != nil && fi.Decl.Body != nil && b.autoInline(x, fi) {
				callee := x.Fn.P.FlowOf(fi)
				for y := x; y != nil; y = y.Parent {
					if y.Fn == callee {
						return nil, false
					}
				}
				return b.InlineCall(x, call, fi, lhs, s), true
			}
		}
	}
	return nil, false
}

// autoInline: the rule's own predicate, else "unexported function or method of the package of
// the function being explored".
func (b *Base) autoInline(x *Exec, fi *FuncInfo) bool {
	if b.AutoInline == nil {
		return false
	}
	if !b.autoDefault {
		return b.AutoInline(fi)
	}
	root := x
	for root.Parent != nil {
		root = root.Parent
	}
	if fi.Pkg == nil || fi.Pkg.TypesInfo != root.Fn.Info {
		return false
	}
	return !ast.IsExported(fi.Decl.Name.Name)
}

// InlineOwnHelpers makes the base interpret the unexported helpers of the explored function's
// own package in the caller's context.
func (b *Base) InlineOwnHelpers() *Base {
	b.AutoInline = func(*FuncInfo) bool { return true }
	b.autoDefault = true
	return b
}

// localHelpers returns an AutoInline predicate: the unexported functions and
// methods of the package with the given path suffix, except the listed keys.
func localHelpers(p *Prog, pkgSuffix string, except ...string) func(fi *FuncInfo) bool {
	ex := map[string]bool{}
	for _, e := range except {
		ex[e] = true
	}
	return func(fi *FuncInfo) bool {
		if fi.Pkg == nil || !strings.HasSuffix(fi.Pkg.PkgPath, pkgSuffix) || ex[fi.Key] {
			return false
		}
		n := fi.Decl.Name.Name
		return n != "" && !ast.IsExported(n)
	}
}

// resultTerm names result i of fn: the named result variable, else "$ret<i>@<fnpos>".
func resultTerms(fn *FlowFn) []string {
	var out []string
	if fn.Type.Results == nil {
		return nil
	}
	i := 0
	for _, fld := range fn.Type.Results.List {
		if len(fld.Names) == 0 {
			out = append(out, fmt.Sprintf("$ret%d@%d", i, int(fn.Body.Pos())))
			i++
			continue
		}
		for _, n := range fld.Names {
			if o := fn.Info.Defs[n]; o != nil && n.Name != "_" {
				out = append(out, objID(o))
			} else {
				out = append(out, fmt.Sprintf("$ret%d@%d", i, int(fn.Body.Pos())))
			}
			i++
		}
	}
	return out
}

func (b *Base) Return(x *Exec, ret *ast.ReturnStmt, s St) []St {
	if ret != nil {
		b.observe(x, ret, s)
	}
	if ret != nil && b.H.EveryCall != nil {
		var out []St
		for _, st := range b.everyCall(x, ret, s) {
			out = append(out, b.return1(x, ret, st)...)
		}
		return out
	}
	return b.return1(x, ret, s)
}

func (b *Base) return1(x *Exec, ret *ast.ReturnStmt, s St) []St {
	// return f(args): the call is interpreted like `r0, r1 = f(args); return r0, r1`, so that the
	// hooks (and the err/nil fork) see calls in return position too
	if ret != nil && len(ret.Results) == 1 && (b.H.Call != nil || b.AutoInline != nil || len(b.Inline) > 0) && x.RetCall == nil {
		if call, ok := ast.Unparen(ret.Results[0]).(*ast.CallExpr); ok {
			rts := resultTerms(x.Fn)
			if tv, ok := x.Fn.Info.Types[call.Fun]; ok && !tv.IsType() && len(rts) >= 1 {
				if sig, ok := x.Fn.Info.TypeOf(call.Fun).Underlying().(*types.Signature); ok && sig.Results().Len() == len(rts) {
					x.RetCall = rts
					outs, handled := b.call(x, call, nil, s)
					x.RetCall = nil
					if handled {
						var res []St
						for _, o := range outs {
							if b.H.Return != nil {
								res = append(res, b.H.Return(x, ret, o)...)
							} else {
								res = append(res, o)
							}
						}
						return res
					}
				}
			}
		}
	}
	if ret != nil && len(ret.Results) > 0 {
		rts := resultTerms(x.Fn)
		if len(ret.Results) == len(rts) {
			// evaluate all results first, then assign
			type val struct{ n, b, c string }
			vals := make([]val, len(rts))
			for i, e := range ret.Results {
				typ := x.Fn.Info.TypeOf(e)
				if isNilable(typ) || isNilIdent(x.Fn.Info, e) {
					vals[i].n = b.Nil(x, e, s)
				}
				if isBoolType(typ) {
					vals[i].b = b.Bool(x, e, s)
				}
				if isIntType(typ) {
					if vt, ok := b.VTerm(x, e, s); ok && strings.HasPrefix(vt, "#") {
						vals[i].c = vt[1:]
					}
				}
			}
			for i, t := range rts {
				s = b.Invalidate(s, t)
				if vals[i].n != "" {
					s = s.Set("n:"+t, vals[i].n)
				}
				if vals[i].b != "" {
					s = s.Set("b:"+t, vals[i].b)
				}
				if vals[i].c != "" {
					s = s.Set("c:"+t, vals[i].c)
				}
			}
		}
	}
	if b.H.Return != nil {
		return b.H.Return(x, ret, s)
	}
	return []St{s}
}

func (b *Base) Exit(x *Exec, ret *ast.ReturnStmt, s St) {
	if b.H.Exit != nil {
		b.H.Exit(x, ret, s)
	}
}

// RetNil gives the nil-ness of result i at an exit state of fn.
func RetNil(fn *FlowFn, s St, i int) string {
	rts := resultTerms(fn)
	if i < 0 {
		i += len(rts)
	}
	if i < 0 || i >= len(rts) {
		return ""
	}
	return s.Get("n:" + rts[i])
}

func RetBool(fn *FlowFn, s St, i int) string {
	rts := resultTerms(fn)
	if i < 0 || i >= len(rts) {
		return ""
	}
	return s.Get("b:" + rts[i])
}

// InlineCall interprets the callee body in place (bounded depth), binding
// parameters to the caller's terms and results to lhs.
func (b *Base) InlineCall(x *Exec, call *ast.CallExpr, fi *FuncInfo, lhs []ast.Expr, s St) []St {
	callee := x.Fn.P.FlowOf(fi)
	init := s
	// bind parameters
	pi := 0
	if callee.Type.Params != nil {
		for _, fld := range callee.Type.Params.List {
			for _, name := range fld.Names {
				if pi < len(call.Args) {
					if o := callee.Info.Defs[name]; o != nil {
						if t, ok := b.Term(x, call.Args[pi], s); ok {
							init = init.Set("arg:"+objID(o), t)
						}
					}
				}
				pi++
			}
			if len(fld.Names) == 0 {
				pi++
			}
		}
	}
	exits := x.Inline(callee, init)
	lo, hi := callee.Node.Pos(), callee.Node.End()
	rts := resultTerms(callee)
	var out []St
	for _, e := range exits {
		st := e.S
		// bind results
		type val struct{ n, b, c string }
		vals := make([]val, len(rts))
		for i, t := range rts {
			vals[i] = val{st.Get("n:" + t), st.Get("b:" + t), st.Get("c:" + t)}
		}
		// facts about the fields of a returned local struct (return &h, nil)
		// follow the value to the variable it is assigned to
		adds := map[string]string{}
		if e.Ret != nil && len(e.Ret.Results) == len(rts) && len(lhs) == len(rts) {
			cx := &Exec{Fn: callee}
			for i, re := range e.Ret.Results {
				re = ast.Unparen(re)
				if u, ok := re.(*ast.UnaryExpr); ok && u.Op == token.AND {
					re = ast.Unparen(u.X)
				}
				if _, ok := re.(*ast.Ident); !ok {
					continue
				}
				vt, ok := b.Term(cx, re, st)
				if !ok || strings.HasPrefix(vt, "#") || vt == "nil" || !mentionsRange(vt, lo, hi) {
					continue
				}
				lt, ok := b.Term(x, lhs[i], st)
				if !ok {
					continue
				}
				for k, v := range st.m {
					if isTrackKey(k) && !strings.HasPrefix(k, "al:") && !strings.HasPrefix(k, "arg:") && strings.Contains(k, vt+".") {
						nk := strings.ReplaceAll(k, vt+".", lt+".")
						if !mentionsRange(nk, lo, hi) {
							adds[nk] = v
						}
					}
				}
			}
		}
		// a tag a rule attached to a returned value ("tag:<term>") follows the value to the variable
		// it is assigned to in the caller
		if e.Ret != nil && len(e.Ret.Results) == len(lhs) {
			cx := &Exec{Fn: callee}
			for i, re := range e.Ret.Results {
				if _, ok := ast.Unparen(re).(*ast.Ident); !ok {
					continue
				}
				if vt, ok := b.Term(cx, re, st); ok {
					if v := st.Get("tag:" + vt); v != "" {
						if lt, ok := b.LTerm(x, lhs[i], st); ok {
							adds["tag:"+lt] = v
						}
					}
				}
			}
		}
		// drop callee-scoped knowledge
		st = st.Filter(func(k, v string) bool {
			return isTrackKey(k) && (mentionsRange(k, lo, hi) || (strings.HasPrefix(k, "al:") && mentionsRange(v, lo, hi)))
		})
		if len(lhs) == len(rts) {
			for i, l := range lhs {
				if id, ok := l.(*ast.Ident); ok && id.Name == "_" {
					continue
				}
				t, ok := b.LTerm(x, l, st)
				if !ok {
					continue
				}
				st = b.Invalidate(st, t)
				if vals[i].n != "" {
					st = st.Set("n:"+t, vals[i].n)
				}
				if vals[i].b != "" {
					st = st.Set("b:"+t, vals[i].b)
				}
				if vals[i].c != "" {
					st = st.Set("c:"+t, vals[i].c)
				}
			}
		} else if len(lhs) == 0 && x.RetCall != nil && len(x.RetCall) == len(rts) {
			// `return f(...)`: the callee's results are the caller's results
			for i, t := range x.RetCall {
				st = b.Invalidate(st, t)
				if vals[i].n != "" {
					st = st.Set("n:"+t, vals[i].n)
				}
				if vals[i].b != "" {
					st = st.Set("b:"+t, vals[i].b)
				}
				if vals[i].c != "" {
					st = st.Set("c:"+t, vals[i].c)
				}
			}
		} else {
			for _, l := range lhs {
				st = b.AssignValue(x, l, nil, st)
			}
		}
		for k, v := range adds {
			st = st.Set(k, v)
		}
		out = append(out, st)
	}
	return dedupe(out)
}

// ForkErr is the usual treatment of "v, err := f()": two successor states,
// one per outcome; onOK / onErr may add effects (nil to keep the state).
func (b *Base) ForkErr(x *Exec, lhs []ast.Expr, errIdx int, s St, onOK, onErr func(St) St) []St {
	ok, bad := s, s
	for i, l := range lhs {
		if i == errIdx {
			continue
		}
		ok = b.AssignValue(x, l, nil, ok)
		bad = b.AssignValue(x, l, nil, bad)
	}
	if errIdx >= 0 && errIdx < len(lhs) {
		if t, k := b.Term(x, lhs[errIdx], s); k {
			ok = b.Invalidate(ok, t).Set("n:"+t, "nil")
			bad = b.Invalidate(bad, t).Set("n:"+t, "nonnil")
		}
	}
	if len(lhs) == 0 && x.RetCall != nil {
		// the call's results are the function's results
		for i, t := range x.RetCall {
			ok, bad = b.Invalidate(ok, t), b.Invalidate(bad, t)
			if i == errIdx || (errIdx < 0 && i == len(x.RetCall)-1) {
				ok, bad = ok.Set("n:"+t, "nil"), bad.Set("n:"+t, "nonnil")
			}
		}
	}
	if onOK != nil {
		ok = onOK(ok)
	}
	if onErr != nil {
		bad = onErr(bad)
	}
	return []St{ok, bad}
}


// isLocalTerm reports whether t is a plain local variable term (name@pos).
func isLocalTerm(t string) bool {
	i := strings.IndexByte(t, '@')
	if i <= 0 {
		return false
	}
	for _, c := range t[i+1:] {
		if c < '0' || c > '9' {
			return false
		}
	}
	for _, c := range t[:i] {
		if !(c == '_' || c >= '0' && c <= '9' || c >= 'a' && c <= 'z' || c >= 'A' && c <= 'Z') {
			return false
		}
	}
	return true
}

func termAt(k, t string, i int) bool {
	if i > 0 {
		c := k[i-1]
		if c == '_' || c >= '0' && c <= '9' || c >= 'a' && c <= 'z' || c >= 'A' && c <= 'Z' {
			return false
		}
	}
	j := i + len(t)
	if j < len(k) {
		c := k[j]
		if c >= '0' && c <= '9' || c == '.' {
			return false
		}
	}
	return true
}

// mentionsTerm reports whether key k contains the local term t as a whole term.
func mentionsTerm(k, t string) bool {
	for off := 0; ; {
		i := strings.Index(k[off:], t)
		if i < 0 {
			return false
		}
		if termAt(k, t, off+i) {
			return true
		}
		off += i + 1
	}
}

func substTerm(k, from, to string) string {
	var sb strings.Builder
	for off := 0; ; {
		i := strings.Index(k[off:], from)
		if i < 0 {
			sb.WriteString(k[off:])
			return sb.String()
		}
		sb.WriteString(k[off : off+i])
		if termAt(k, from, off+i) {
			sb.WriteString(to)
		} else {
			sb.WriteString(from)
		}
		off += i + len(from)
	}
}
