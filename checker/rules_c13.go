package main

// C13 — authentication.

import (
	"fmt"
	"go/ast"
	"go/token"
	"go/types"
	"sort"
	"strings"
)

// ---------- R13a method inventory ----------

type grpcMethod struct {
	Full    string // "/pkg.Service/Method"
	Service string
	Name    string
	Stream  bool
}

// serviceDescs extracts (service name, methods, streams) from a grpc.ServiceDesc literal.
func serviceDescMethods(info *types.Info, cl *ast.CompositeLit) (string, []grpcMethod) {
	svc := ""
	var out []grpcMethod
	for _, el := range cl.Elts {
		kv, ok := el.(*ast.KeyValueExpr)
		if !ok {
			continue
		}
		k, _ := kv.Key.(*ast.Ident)
		if k == nil {
			continue
		}
		switch k.Name {
		case "ServiceName":
			svc, _ = constString(info, kv.Value)
		case "Methods", "Streams":
			lst, ok := kv.Value.(*ast.CompositeLit)
			if !ok {
				continue
			}
			for _, m := range lst.Elts {
				ml, ok := m.(*ast.CompositeLit)
				if !ok {
					continue
				}
				for _, f := range ml.Elts {
					fkv, ok := f.(*ast.KeyValueExpr)
					if !ok {
						continue
					}
					fk, _ := fkv.Key.(*ast.Ident)
					if fk != nil && (fk.Name == "MethodName" || fk.Name == "StreamName") {
						if n, ok := constString(info, fkv.Value); ok {
							out = append(out, grpcMethod{Name: n, Stream: k.Name == "Streams"})
						}
					}
				}
			}
		}
	}
	for i := range out {
		out[i].Service = svc
		out[i].Full = "/" + svc + "/" + out[i].Name
	}
	return svc, out
}

// registeredMethods finds the services registered in server.ServeGRPC.
func registeredMethods(c *Ctx, rule string) []grpcMethod {
	R := c.R
	fi := c.P.MustFunc(R, rule, "server.ServeGRPC")
	if fi == nil {
		return nil
	}
	var out []grpcMethod
	seen := map[string]bool{}
	for _, call := range callsIn(fi.Decl.Body, true) {
		f := Callee(fi.Pkg.TypesInfo, call)
		if f == nil || !strings.HasPrefix(f.Name(), "Register") || !strings.HasSuffix(f.Name(), "Server") || f.Pkg() == nil {
			continue
		}
		pkg := c.P.All[f.Pkg().Path()]
		if pkg == nil {
			R.Fail(rule, c.Cfg+"register:"+f.Name(), c.P.Pos(call.Pos()), "package of "+f.Name()+" not loaded with syntax")
			continue
		}
		// find the function body and the ServiceDesc variable it registers
		var desc *types.Var
		for _, file := range pkg.Syntax {
			for _, d := range file.Decls {
				fd, ok := d.(*ast.FuncDecl)
				if !ok || fd.Body == nil || pkg.TypesInfo.Defs[fd.Name] != f {
					continue
				}
				ast.Inspect(fd.Body, func(n ast.Node) bool {
					if u, ok := n.(*ast.UnaryExpr); ok && u.Op == token.AND {
						if v, ok := identObj(pkg.TypesInfo, u.X).(*types.Var); ok && strings.HasSuffix(strings.ToLower(v.Name()), "servicedesc") {
							desc = v
						}
					}
					return true
				})
			}
		}
		if desc == nil {
			R.Fail(rule, c.Cfg+"register:"+f.Name(), c.P.Pos(call.Pos()), "cannot find the grpc.ServiceDesc registered by "+f.Name())
			continue
		}
		found := false
		for _, file := range pkg.Syntax {
			for _, d := range file.Decls {
				gd, ok := d.(*ast.GenDecl)
				if !ok {
					continue
				}
				for _, sp := range gd.Specs {
					vs, ok := sp.(*ast.ValueSpec)
					if !ok {
						continue
					}
					for i, n := range vs.Names {
						if pkg.TypesInfo.Defs[n] == desc && i < len(vs.Values) {
							if cl, ok := vs.Values[i].(*ast.CompositeLit); ok {
								svc, ms := serviceDescMethods(pkg.TypesInfo, cl)
								if svc != "" && !seen[svc] {
									seen[svc] = true
									out = append(out, ms...)
									found = true
								}
							}
						}
					}
				}
			}
		}
		if !found && !seen[desc.Name()] {
			R.Fail(rule, c.Cfg+"register:"+f.Name(), c.P.Pos(call.Pos()), "cannot read the ServiceDesc literal "+desc.Name())
		}
	}
	sort.Slice(out, func(i, j int) bool { return out[i].Full < out[j].Full })
	return out
}

// reachesPut: does the handler method reach disk.Cache.Put through static
// calls inside package server, not counting the frozen cut edge?
func reachesPut(c *Ctx, start *FuncInfo, cut map[string]bool) (bool, []string) {
	seen := map[string]bool{}
	var path []string
	var dfs func(fi *FuncInfo) bool
	dfs = func(fi *FuncInfo) bool {
		if seen[fi.Key] {
			return false
		}
		seen[fi.Key] = true
		path = append(path, fi.Key)
		for _, call := range callsIn(fi.Decl.Body, true) {
			k := calleeKey(fi.Pkg.TypesInfo, call)
			if k == "disk.(Cache).Put" {
				if cut[fi.Key+"->"+k] {
					continue
				}
				path = append(path, k+" @"+c.P.Pos(call.Pos()))
				return true
			}
			if f := Callee(fi.Pkg.TypesInfo, call); f != nil {
				if callee := c.P.FuncOf(f); callee != nil && callee.Pkg == fi.Pkg && !cut[callee.Key] {
					if dfs(callee) {
						return true
					}
				}
			}
		}
		path = path[:len(path)-1]
		return false
	}
	ok := dfs(start)
	return ok, path
}

var frozenMutating = map[string]bool{
	"/build.bazel.remote.execution.v2.ActionCache/UpdateActionResult":             true,
	"/build.bazel.remote.execution.v2.ContentAddressableStorage/BatchUpdateBlobs": true,
	"/build.bazel.remote.execution.v2.ContentAddressableStorage/SpliceBlob":       true,
	"/google.bytestream.ByteStream/Write":                                         true,
	"/build.bazel.remote.asset.v1.Fetch/FetchBlob":                                true,
}

func c13Inventory(c *Ctx) {
	R := c.R
	R.Rule("R13a", "E7", "inventory of every method of every gRPC service registered in ServeGRPC, read from the grpc.ServiceDesc literals", 15)
	R.Rule("R13b", "E4", "each registered method is classified mutating iff its handler reaches Cache.Put (cut: GetActionResult -> maybeInline, which stores bytes of an already stored ActionResult); cross-checked with the frozen table", 15)
	R.Rule("R13c", "E7", "every key of readOnlyMethods is a registered method name and is not mutating", 6)
	methods := registeredMethods(c, "R13a")
	for _, m := range methods {
		R.OK("R13a", c.Cfg+m.Full, "", "registered method "+m.Full)
	}
	R.Count("registered gRPC methods", len(methods))
	// the de-inlining done while serving GetActionResult stores bytes of an ActionResult that is
	// already stored: maybeInline and whatever it is split into are not followed
	cut := map[string]bool{"server.(*grpcServer).maybeInline->disk.(Cache).Put": true, "server.(*grpcServer).maybeInline": true}
	mutating := map[string]bool{}
	registered := map[string]bool{}
	for _, m := range methods {
		registered[m.Full] = true
		if strings.HasPrefix(m.Service, "grpc.health") {
			R.OK("R13b", c.Cfg+m.Full, "", "health service (third-party implementation, no cache access)")
			continue
		}
		h := c.P.Func("server.(*grpcServer)." + m.Name)
		if h == nil {
			R.Fail("R13b", c.Cfg+m.Full, "", "no handler method grpcServer."+m.Name+" found for registered method "+m.Full)
			continue
		}
		mut, path := reachesPut(c, h, cut)
		mutating[m.Full] = mut
		want := frozenMutating[m.Full]
		R.Check(mut == want, "R13b", c.Cfg+m.Full, c.P.Pos(h.Decl.Pos()), fmt.Sprintf("%s is classified mutating=%v by reachability of Cache.Put, as in the table confirmed by hand", m.Full, want),
			fmt.Sprintf("derived mutating=%v differs from the confirmed classification %v; call path: %s", mut, want, strings.Join(path, " -> ")))
	}
	// readOnlyMethods
	spkg := c.P.Pkg("/server")
	var lit *ast.CompositeLit
	if spkg != nil {
		for _, f := range spkg.Syntax {
			for _, d := range f.Decls {
				gd, ok := d.(*ast.GenDecl)
				if !ok {
					continue
				}
				for _, sp := range gd.Specs {
					if vs, ok := sp.(*ast.ValueSpec); ok {
						for i, n := range vs.Names {
							if n.Name == "readOnlyMethods" && i < len(vs.Values) {
								lit, _ = vs.Values[i].(*ast.CompositeLit)
							}
						}
					}
				}
			}
		}
	}
	if lit == nil {
		R.Fail("R13c", c.Cfg+"anchor:readOnlyMethods", "", "the readOnlyMethods table does not resolve")
		return
	}
	for _, el := range lit.Elts {
		kv, ok := el.(*ast.KeyValueExpr)
		if !ok {
			R.Fail("R13c", c.Cfg+"entry:"+exprStr(el), c.P.Pos(el.Pos()), "unrecognised table entry")
			continue
		}
		name, ok := constString(spkg.TypesInfo, kv.Key)
		if !ok {
			R.Fail("R13c", c.Cfg+"entry:"+exprStr(kv.Key), c.P.Pos(el.Pos()), "table key is not a constant string")
			continue
		}
		R.Check(registered[name] && !mutating[name] && !frozenMutating[name], "R13c", c.Cfg+"entry:"+name, c.P.Pos(el.Pos()),
			"readOnlyMethods entry "+name+" names a registered, non-mutating method",
			fmt.Sprintf("registered=%v mutating=%v: an entry that is not a registered method fails open on typos; a mutating entry lets unauthenticated clients write", registered[name], mutating[name] || frozenMutating[name]))
	}
	// the table is consulted by exact key only
	for _, fi := range c.P.FuncsInPkg("/server") {
		ast.Inspect(fi.Decl.Body, func(n ast.Node) bool {
			id, ok := n.(*ast.Ident)
			if !ok || id.Name != "readOnlyMethods" {
				return true
			}
			return true
		})
	}
}

// ---------- R13d interceptor bodies ----------

func c13Interceptors(c *Ctx) {
	R := c.R
	R.Rule("R13d", "E2", "in each auth interceptor every path to handler(...) is the health check, an allowed unauthenticated read-only method, or a passed credential check; the credential predicates return success only for a verified non-empty chain / a matching secret", 8)
	fns := []string{
		"server.(*GrpcBasicAuth).StreamServerInterceptor",
		"server.(*GrpcBasicAuth).UnaryServerInterceptor",
		"server.GRPCmTLSStreamServerInterceptor",
		"server.GRPCmTLSUnaryServerInterceptor",
	}
	healthConst := ""
	if spkg := c.P.Pkg("/server"); spkg != nil {
		if o, ok := spkg.Types.Scope().Lookup("grpcHealthServiceName").(*types.Const); ok {
			healthConst = o.Val().ExactString()
		}
	}
	R.Check(healthConst == `"/grpc.health.v1.Health/Check"`, "R13d", c.Cfg+"health-constant", "", "the only always-open method is /grpc.health.v1.Health/Check", "grpcHealthServiceName is "+healthConst)
	for _, key := range fns {
		fi := c.P.MustFunc(R, "R13d", key)
		if fi == nil {
			continue
		}
		fl := c.P.FlowOf(fi)
		// the mTLS constructors return a closure; analyse the closure
		target := fl
		if strings.Contains(key, "GRPCmTLS") {
			var lit *ast.FuncLit
			ast.Inspect(fi.Decl.Body, func(n ast.Node) bool {
				if l, ok := n.(*ast.FuncLit); ok && lit == nil {
					lit = l
				}
				return true
			})
			if lit == nil {
				R.Fail("R13d", c.Cfg+key+":closure", "", "interceptor closure not found")
				continue
			}
			target = fl.Lit(lit)
		}
		userTerms, passTerms := map[string]bool{}, map[string]bool{}
		for _, hf := range c.P.FuncsInPkg("/server") {
			hinfo := hf.Pkg.TypesInfo
			ast.Inspect(hf.Decl, func(n ast.Node) bool {
				if as, ok := n.(*ast.AssignStmt); ok && len(as.Rhs) == 1 && len(as.Lhs) == 3 {
					if call, ok := as.Rhs[0].(*ast.CallExpr); ok && calleeKey(hinfo, call) == "server.getLogin" {
						if o := identObj(hinfo, as.Lhs[0]); o != nil {
							userTerms[objID(o)] = true
						}
						if o := identObj(hinfo, as.Lhs[1]); o != nil {
							passTerms[objID(o)] = true
						}
					}
				}
				return true
			})
		}
		ncalls := 0
		var base *Base
		// what a path has established: the health method, a hit in the read-only table, the
		// allow-unauthenticated-reads setting, non-empty credentials (facts of the state, or flags
		// carried over from a boolean helper that was evaluated for the branch)
		classify := func(s St) (health, ro, allowUnauth, userNonEmpty, passNonEmpty bool) {
			health, ro, allowUnauth = s.Get("f:health") == "1", s.Get("f:ro") == "1", s.Get("f:allow") == "1"
			userNonEmpty, passNonEmpty = s.Get("f:user") == "1", s.Get("f:pass") == "1"
			for k, v := range s.m {
				if strings.HasPrefix(k, "p:") && strings.Contains(k, healthConst) && strings.Contains(k, ".FullMethod") && strings.Contains(k, "==") && v == "T" {
					health = true
				}
				if strings.HasPrefix(k, "b:") && v == "true" {
					if s.Get("v:"+k[2:]) == "ro-lookup" {
						ro = true
					}
					if strings.Contains(strings.ToLower(k), "allowunauthenticatedread") {
						allowUnauth = true
					}
				}
				if strings.HasPrefix(k, `p:#""==`) && v == "F" {
					rhs := k[len(`p:#""==`):]
					if userTerms[rhs] {
						userNonEmpty = true
					}
					if passTerms[rhs] {
						passNonEmpty = true
					}
				}
			}
			return
		}
		isHelper := localHelpers(c.P, "/server", "server.checkGRPCClientCert", "server.getLogin", "server.(*GrpcBasicAuth).allowed")
		base = NewBase(Hooks{
			PostCond: func(x *Exec, cond ast.Expr, truth bool, outs []St) []St {
				// username != "" / password != "" established on this branch: remembered as path flags
				// (the variables may live in a helper whose locals are forgotten on return)
				be, ok := ast.Unparen(cond).(*ast.BinaryExpr)
				if !ok || (be.Op != token.EQL && be.Op != token.NEQ) {
					return outs
				}
				v := be.X
				if s0, isC := constString(x.Fn.Info, be.X); isC && s0 == "" {
					v = be.Y
				} else if s1, isC := constString(x.Fn.Info, be.Y); !isC || s1 != "" {
					return outs
				}
				if (be.Op == token.NEQ) != truth {
					return outs
				}
				for i := range outs {
					if t, ok := base.Term(x, v, outs[i]); ok {
						if userTerms[t] {
							outs[i] = outs[i].Set("f:user", "1")
						}
						if passTerms[t] {
							outs[i] = outs[i].Set("f:pass", "1")
						}
					}
				}
				return outs
			},
			Assign: func(x *Exec, as *ast.AssignStmt, s St) []St {
				// _, ro := readOnlyMethods[info.FullMethod]
				if len(as.Lhs) == 2 && len(as.Rhs) == 1 {
					if ix, ok := ast.Unparen(as.Rhs[0]).(*ast.IndexExpr); ok {
						it, _ := base.Term(x, ix.Index, s)
						if o := identObj(x.Fn.Info, ix.X); o != nil && o.Name() == "readOnlyMethods" && (strings.HasSuffix(exprStr(ix.Index), ".FullMethod") || strings.HasSuffix(it, ".FullMethod")) {
							if t, ok := base.Term(x, as.Lhs[1], s); ok {
								return []St{s.Set("v:"+t, "ro-lookup")}
							}
						}
					}
				}
				return []St{s}
			},
			Call: func(x *Exec, call *ast.CallExpr, lhs []ast.Expr, s St) ([]St, bool) {
				switch calleeKey(x.Fn.Info, call) {
				case "server.checkGRPCClientCert":
					return base.ForkErr(x, lhs, 0, s, func(ok St) St { return ok.Set("cred", "cert") }, nil), true
				case "server.getLogin":
					return base.ForkErr(x, lhs, 2, s, func(ok St) St { return ok.Set("login", "1") }, nil), true
				}
				return nil, false
			},
			Cond: func(x *Exec, cond ast.Expr, truth bool, s St) ([]St, bool) {
				if call, ok := ast.Unparen(cond).(*ast.CallExpr); ok && calleeKey(x.Fn.Info, call) == "server.(*GrpcBasicAuth).allowed" {
					if truth {
						return []St{s.Set("allowed", "1")}, true
					}
					return []St{s}, true
				}
				// a boolean helper split off the interceptor (isReadOnlyMethod, allowedWithoutAuth, ...):
				// its exits that can yield this branch are classified in its own context and the
				// findings carried over as flags
				if call, ok := ast.Unparen(cond).(*ast.CallExpr); ok && x.Depth < 3 {
					if f := Callee(x.Fn.Info, call); f != nil {
						if hf := c.P.FuncOf(f); hf != nil && hf.Decl.Body != nil && isHelper(hf) {
							if sig, ok := f.Type().(*types.Signature); ok && sig.Results().Len() == 1 && isBoolType(sig.Results().At(0).Type()) {
								callee := c.P.FlowOf(hf)
								init := s
								pi := 0
								if callee.Type.Params != nil {
									for _, fld := range callee.Type.Params.List {
										for _, name := range fld.Names {
											if pi < len(call.Args) {
												if o := callee.Info.Defs[name]; o != nil {
													if t, ok := base.Term(x, call.Args[pi], s); ok {
														init = init.Set("arg:"+objID(o), t)
													}
												}
											}
											pi++
										}
									}
								}
								var outs []St
								cx := x.sub(callee)
								for _, e := range x.Inline(callee, init) {
									if e.Ret == nil || len(e.Ret.Results) != 1 {
										continue
									}
									for _, r := range base.Refine(cx, e.Ret.Results[0], truth, e.S) {
										h, ro, al, _, _ := classify(r)
										o := s
										if truth {
											if h {
												o = o.Set("f:health", "1")
											}
											if ro {
												o = o.Set("f:ro", "1")
											}
											if al {
												o = o.Set("f:allow", "1")
											}
										}
										outs = append(outs, o)
									}
								}
								return dedupe(outs), true
							}
						}
					}
				}
				return nil, false
			},
			EveryCall: func(x *Exec, call *ast.CallExpr, s St) []St {
				id, ok := call.Fun.(*ast.Ident)
				if !ok {
					return []St{s}
				}
				o := identObj(x.Fn.Info, id)
				if o == nil || o.Name() != "handler" {
					return []St{s}
				}
				if _, isFunc := o.Type().Underlying().(*types.Signature); !isFunc {
					return []St{s}
				}
				ncalls++
				// classify the path
				health, ro, allowUnauth, userNonEmpty, passNonEmpty := classify(s)
				cred := s.Get("cred") == "cert" || (s.Get("login") == "1" && userNonEmpty && passNonEmpty && s.Get("allowed") == "1")
				okPath := health || (ro && allowUnauth) || cred
				site := fmt.Sprintf("%s%s:handler#%d", c.Cfg, key, callOrdinal(x, call))
				R.Check(okPath, "R13d", site, c.P.Pos(call.Pos()), "handler is reached only for the health check, an allowed read-only method, or after the credential check passed",
					fmt.Sprintf("path reaches handler(...) without authentication (health=%v ro=%v allowUnauth=%v cred=%v)", health, ro, allowUnauth, cred), x.Trace()...)
				return []St{s}
			},
		})
		base.AutoInline = isHelper
		x := NewExec(target, base)
		x.Run(newSt())
		if x.Aborted != "" {
			R.Fail("R13d", c.Cfg+key+":explore", "", "exploration did not complete: "+x.Aborted)
		}
		R.Check(ncalls > 0, "R13d", c.Cfg+key+":calls-handler", c.P.Pos(fi.Decl.Pos()), "interceptor forwards to handler", "no handler(...) call found: unrecognised construct")
		R.Count("abstract states explored (interceptors)", x.stats.States)
	}
	// credential predicates
	c13CertPredicate(c, "server.checkGRPCClientCert", "error")
	c13CertPredicate(c, "server.(*httpCache).hasValidClientCert", "bool")
	// allowed(): every true result comes from auth.CheckSecret, dominated by the empty-secret rejection
	if fi := c.P.MustFunc(R, "R13d", "server.(*GrpcBasicAuth).allowed"); fi != nil {
		var base *Base
		base = NewBase(Hooks{Exit: func(x *Exec, ret *ast.ReturnStmt, s St) {
			if ret == nil || len(ret.Results) != 1 {
				return
			}
			r := ast.Unparen(ret.Results[0])
			key := fmt.Sprintf("%sserver.(*GrpcBasicAuth).allowed:return#%d", c.Cfg, returnOrdinal(x.Fn, ret))
			if v := base.Bool(x, r, s); v == "false" {
				R.OK("R13d", key, c.P.Pos(ret.Pos()), "returns false")
				return
			}
			call, ok := r.(*ast.CallExpr)
			isCheck := ok && fullCalleeName(x.Fn.Info, call) == "github.com/abbot/go-http-auth.CheckSecret"
			nonEmpty := false
			for k, v := range s.m {
				if strings.HasPrefix(k, `p:#""==requiredSecret@`) && v == "F" {
					nonEmpty = true
				}
			}
			R.Check(isCheck && nonEmpty, "R13d", key, c.P.Pos(ret.Pos()), "a possibly-true result is auth.CheckSecret(password, secret) with a non-empty secret",
				"allowed() can return true without comparing the password with a non-empty stored secret", x.Trace()...)
		}})
		x := NewExec(c.P.FlowOf(fi), base)
		x.Run(newSt())
	}
}

func callOrdinal(x *Exec, call *ast.CallExpr) int {
	root := x.Fn
	n := 0
	ast.Inspect(root.Body, func(m ast.Node) bool {
		if c, ok := m.(*ast.CallExpr); ok && c.Pos() <= call.Pos() && exprStr(c.Fun) == exprStr(call.Fun) {
			n++
		}
		return true
	})
	return n
}

// c13CertPredicate: success (nil error / true) only with a non-empty verified chain.
func c13CertPredicate(c *Ctx, key, kind string) {
	R := c.R
	fi := c.P.MustFunc(R, "R13d", key)
	if fi == nil {
		return
	}
	var base *Base
	nSucc := 0
	// locals that hold the verified chains (chains := state.VerifiedChains)
	chainTerms := map[string]bool{}
	ast.Inspect(fi.Decl, func(n ast.Node) bool {
		if as, ok := n.(*ast.AssignStmt); ok && len(as.Lhs) == len(as.Rhs) {
			for i, r := range as.Rhs {
				if sel, ok := ast.Unparen(r).(*ast.SelectorExpr); ok && sel.Sel.Name == "VerifiedChains" {
					if o := identObj(fi.Pkg.TypesInfo, as.Lhs[i]); o != nil {
						chainTerms[objID(o)] = true
					}
				}
			}
		}
		return true
	})
	base = NewBase(Hooks{Exit: func(x *Exec, ret *ast.ReturnStmt, s St) {
		if ret == nil || len(ret.Results) != 1 {
			return
		}
		success := false
		if kind == "error" {
			success = base.Nil(x, ret.Results[0], s) != "nonnil"
		} else {
			success = base.Bool(x, ret.Results[0], s) != "false"
		}
		if !success {
			return
		}
		nSucc++
		chain, first := false, false
		positive := func(t string) bool {
			if eq, known := relLookup(s, "#0", "==", "len("+t+")"); known && !eq {
				return true
			}
			if lt, known := relLookup(s, "#0", "<", "len("+t+")"); known && lt {
				return true
			}
			return false
		}
		for t := range chainTerms {
			if positive(t) {
				chain = true
			}
			if positive(t + "[#0]") {
				first = true
			}
		}
		for k := range s.m {
			// the chains read directly through the connection state
			if i := strings.Index(k, "len("); i >= 0 && strings.Contains(k, ".VerifiedChains") {
				t := k[i+4:]
				if j := strings.Index(t, ")"); j > 0 {
					t = t[:j]
					if strings.HasSuffix(t, ".VerifiedChains") && positive(t) {
						chain = true
					}
					if strings.HasSuffix(t, ".VerifiedChains[#0]") && positive(t) {
						first = true
					}
				}
			}
		}
		R.Check(chain && first, "R13d", fmt.Sprintf("%s%s:return#%d", c.Cfg, key, returnOrdinal(x.Fn, ret)), c.P.Pos(ret.Pos()),
			"success is returned only when VerifiedChains and VerifiedChains[0] are non-empty",
			fmt.Sprintf("success can be returned without a verified client certificate chain (chain=%v first=%v)", chain, first), x.Trace()...)
	}})
	x := NewExec(c.P.FlowOf(fi), base)
	x.Run(newSt())
	R.Check(nSucc > 0, "R13d", c.Cfg+key+":has-success", c.P.Pos(fi.Decl.Pos()), "predicate has a success return", "no success return found: unrecognised construct")
}
